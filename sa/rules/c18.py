"""C18 — files with template or parse errors are never modified by fix.

R18a  every fix sink (``fix_string`` / ``persist_tree`` / ``persist_changes`` call
      outside the owning classes) is reached only on paths where
      ``FEU  or  unfiltered TMP/PRS count == 0  or  (discard step ran on the same
      result  and  the sink is conditioned on a fixable count / self-gating)``.
      Path-sensitive (flag variables are followed); a sink in a helper whose
      receiver is a parameter is checked at every call site of the helper.
R18b  when the fix loop hits its limit the tree saved before the first pass is
      returned and every initial lint error loses its fixes.
R18c  the discard step empties the fixes of *every* lint error of every file whose
      *unfiltered* TMP/PRS count is non-zero (objects and serialised records).
R18d  ``persist_tree`` produces and writes fixed text only under its own fixable
      count test; the pass-through ``persist_changes`` wrappers only forward.

Spellings read as the same facts (QUIET sweep): ``bool(x)`` for ``x``; a sink inside a conditional
expression / behind a short-circuit operand is judged with that test known; in the discard step a
per-file count read into a local, ``n > 0`` / ``n != 0`` for ``n``, early ``continue``s, and a loop
over ``[v for v in f.violations if isinstance(v, SQLLintError)]``; the map key and the rollback
result tuple through a local.
"""

from __future__ import annotations

import ast

from ..cfg import Branch, cfg_of, origins
from ..counts import Counts, UNF, root_name, zero_test
from ..idioms import conditions_at, expanded
from ..gates import DISCARD, GateAtoms, callers_of, discard_summaries, make_events
from ..index import AnalysisError, FuncNode, calls_in, enclosing_class, enclosing_function, last_attr, norm, short, walk_local
from ..pathcond import And, Not, Or, PathFacts, Var, show

LINTER = "src/sqlfluff/core/linter/linter.py"
LFILE = "src/sqlfluff/core/linter/linted_file.py"
LDIR = "src/sqlfluff/core/linter/linted_dir.py"
LRES = "src/sqlfluff/core/linter/linting_result.py"
SINK_METHODS = ("fix_string", "persist_tree", "persist_changes", "_safe_create_replace_file")
SELF_GATING = ("persist_tree", "persist_changes")
# Reviewed exclusions: (path prefix, reason).  One entry per package.
EXCLUDED = {
    "src/sqlfluff/utils/testing/": "test-support helpers for rule authors (assert_rule_* work on in-memory strings and "
    "fail the test on parse errors); not an entry point that produces user-visible fixed output",
}
OWNERS = {"LintedFile": ("fix_string", "persist_tree", "_safe_create_replace_file"), "LintedDir": ("persist_changes",), "LintingResult": ("persist_changes",)}


def _goal(root: str, self_gating: bool):
    disc = Var(f"DISC:{root}")
    tail = disc if self_gating else And(disc, Not(Var(f"ZFIX:{root}")))
    return Or(Var("FEU"), Var(f"ZU:{root}"), tail)


class _Atoms(GateAtoms):
    """``bool(x)`` is the same test as ``x``."""

    def __call__(self, e, stmt):
        if isinstance(e, ast.Call) and isinstance(e.func, ast.Name) and e.func.id == "bool" and len(e.args) == 1 and not e.keywords:
            return self(e.args[0], stmt)
        return super().__call__(e, stmt)


def _inline_facts(pf, node, stmt):
    """What is known when ``node`` is evaluated *inside* its statement: the test of an enclosing
    conditional expression (``sink() if test else other``) and the operands that short-circuit
    before it (``test and sink()`` / ``test or sink()``)."""
    out = []
    p = node
    while p is not None and p is not stmt:
        par = getattr(p, "_parent", None)
        if isinstance(par, ast.IfExp) and p is not par.test:
            f, _ = pf.translate(par.test, stmt)
            out.append(f if p is par.body else Not(f))
        elif isinstance(par, ast.BoolOp):
            is_and = isinstance(par.op, ast.And)
            for v in par.values:
                if v is p:
                    break
                f, _ = pf.translate(v, stmt)
                out.append(f if is_and else Not(f))
        elif isinstance(par, (ast.Lambda, ast.ListComp, ast.SetComp, ast.DictComp, ast.GeneratorExp)):
            return []  # evaluated later / repeatedly: nothing is claimed
        p = par
    return out


def _check_site(chk, counts, summaries, func, stmt_node, root, self_gating, sink_desc, depth=0, node=None):
    """Prove the goal at ``stmt_node`` of ``func``; lift to callers when the
    receiver is a parameter and the goal is not established locally."""
    cfg = cfg_of(func)
    atoms = _Atoms(counts, func)
    pf = PathFacts(cfg, atoms, make_events(func, counts, summaries))
    root = counts._canon_root(cfg, root, stmt_node)
    goal = _goal(root, self_gating)
    ok, cex = pf.holds_at(stmt_node, goal, _inline_facts(pf, node, stmt_node) if node is not None else ())
    if ok:
        return True, None
    params = [a.arg for a in func.args.args]
    if root in params and depth < 3:
        sites = callers_of(chk.repo, func)
        if sites:
            all_ok, worst = True, None
            for cf, call in sites:
                idx = params.index(root)
                skip = 1 if params and params[0] in ("self", "cls") and isinstance(call.func, ast.Attribute) else 0
                arg = None
                if idx - skip < len(call.args) and idx - skip >= 0:
                    arg = call.args[idx - skip]
                for k in call.keywords:
                    if k.arg == root:
                        arg = k.value
                r2 = root_name(arg) if arg is not None else None
                if r2 is None:
                    all_ok, worst = False, (cf, call, None)
                    continue
                ccfg = cfg_of(cf)
                ok2, cex2 = _check_site(chk, counts, summaries, cf, ccfg.stmt_of(call), r2, self_gating, sink_desc, depth + 1, node=call)
                if not ok2:
                    all_ok, worst = False, cex2 or (cf, call, None)
            if all_ok:
                return True, None
            return False, worst
    # diagnose: is the sink gated by a *filtered* quantity?
    info = None
    for name, via, line in atoms.seen:
        if name.startswith("ZF:"):
            info = f"gated by a suppression-filtered count ({via}); the unfiltered count is required"
    return False, (func, stmt_node, info or ("facts on the failing path: " + (" and ".join(show(f) for f in cex) if cex else "none")))


def _r18f(chk, repo) -> None:
    f = repo.fn("src/sqlfluff/core/linter/common.py", "ParsedString.root_variant")
    cfg = cfg_of(f)
    n = 0
    for r in [r for r in walk_local(f) if isinstance(r, ast.Return)]:
        n += 1
        v = r.value
        if v is None or (isinstance(v, ast.Constant) and v.value is None):
            continue
        vals = [v]
        if isinstance(v, ast.Name):
            os_ = origins(cfg, v, r)
            vals = [o.expr if o.kind == "expr" else None for o in os_]
        ok = all(
            x is not None and isinstance(x, ast.Subscript) and isinstance(x.slice, ast.Constant) and x.slice.value == 0 and norm(x.value).endswith("parsed_variants")
            for x in vals
        )
        chk.require(
            ok, "R18f", r,
            f"root_variant() can return `{short(v, 40)}`, which is not parsed_variants[0]: when the real rendering fails to parse, an alternate rendering (an un-taken branch) is "
            "linted in its place, its parse errors stand in for the file's, and every fix gate sees a clean file",
            detail="root_variant: the first variant or None",
        )
    chk.count("R18f.root_variant_returns", n)
    chk.floor("R18f.root_variant_returns", 2)


def _r18e(chk, repo) -> None:
    """The counts that gate fixing see only the errors that reach the rendered file."""
    from ..flowutil import must_pass

    f = repo.fn(LINTER, "Linter.render_string")
    cfg = cfg_of(f)
    loops = [l for l in walk_local(f) if isinstance(l, ast.For) and isinstance(l.iter, ast.Call) and last_attr(l.iter) == "process_with_variants"]
    chk.count("R18e.variant_loops", len(loops))
    chk.floor("R18e.variant_loops", 1)
    for l in loops:
        if not (isinstance(l.target, ast.Tuple) and len(l.target.elts) == 2 and all(isinstance(x, ast.Name) for x in l.target.elts)):
            raise AnalysisError("R18e: the loop over process_with_variants no longer unpacks (variant, errors); re-confirm the anchor by hand")
        err = l.target.elts[1].id
        acc, lists = [], set()
        for st in [x for b in l.body for x in ast.walk(b)]:
            if isinstance(st, ast.AugAssign) and isinstance(st.op, ast.Add) and isinstance(st.target, ast.Name) and isinstance(st.value, ast.Name) and st.value.id == err:
                acc.append(st); lists.add(st.target.id)
            elif isinstance(st, ast.Expr) and isinstance(st.value, ast.Call) and last_attr(st.value) == "extend" and isinstance(st.value.func, ast.Attribute) and isinstance(st.value.func.value, ast.Name) \
                    and st.value.args and isinstance(st.value.args[0], ast.Name) and st.value.args[0].id == err:
                acc.append(st); lists.add(st.value.func.value.id)
            elif isinstance(st, ast.Assign) and len(st.targets) == 1 and isinstance(st.targets[0], ast.Name) and isinstance(st.value, ast.BinOp) and isinstance(st.value.op, ast.Add) \
                    and isinstance(st.value.left, ast.Name) and st.value.left.id == st.targets[0].id and isinstance(st.value.right, ast.Name) and st.value.right.id == err:
                acc.append(st); lists.add(st.targets[0].id)
        if not chk.require(bool(acc), "R18e", l, f"the errors yielded next to each variant (`{err}`) are never added to a list: templating errors vanish, and every fix gate sees a clean file",
                           detail="render_string: yielded templating errors are accumulated"):
            continue
        first = l.body[0]
        leaves = [b for b in walk_local(f) if isinstance(b, ast.Break) and any(b is x for s_ in l.body for x in ast.walk(s_))]
        inner = [x for s_ in l.body for x in ast.walk(s_) if isinstance(x, (ast.For, ast.While))]
        leaves = [b for b in leaves if not any(b is y for i_ in inner for y in ast.walk(i_))]
        for goal, what in [(b, f"the `break` at line {b.lineno}") for b in leaves] + [(l, "the next iteration")]:
            chk.require(
                must_pass(cfg, first, goal, acc), "R18e", goal if goal is not l else first,
                f"a path through the body of the loop over process_with_variants reaches {what} without adding `{err}` to the error list: the templating errors of that "
                "variant are dropped, the file looks clean to every fix gate and is modified although it has templating errors",
                detail="render_string: yielded templating errors are accumulated on the path to " + ("a break" if goal is not l else "the next iteration"),
            )
        # the accumulated list is what the rendered file carries
        ok = False
        for r in [r for r in walk_local(f) if isinstance(r, ast.Return) and r.value is not None]:
            vs = [o.expr for o in origins(cfg, r.value, r)] if isinstance(r.value, ast.Name) else [r.value]
            for v in vs:
                if isinstance(v, ast.Call) and last_attr(v) == "RenderedFile":
                    args = list(v.args) + [k.value for k in v.keywords]
                    ok = ok or any(isinstance(a, ast.Name) and a.id in lists for a in args)
        chk.require(ok, "R18e", l, "the list the yielded templating errors are added to is not handed to the RenderedFile", detail="render_string: RenderedFile carries the accumulated list")


def run(chk) -> None:
    repo = chk.repo
    chk.rule("R18a", "every fix sink is only reached when fix_even_unparsable is set, or the unfiltered TMP/PRS count is zero, or the discard step ran first and the sink is conditioned on a fixable count")
    chk.rule("R18b", "on loop-limit exhaustion the tree saved before the first pass is returned and all initial lint errors lose their fixes")
    chk.rule("R18c", "the discard step empties fixes for every lint error of every file with a non-zero unfiltered TMP/PRS count")
    chk.rule("R18d", "persist_tree self-gates on a fixable count; persist_changes wrappers only forward")
    chk.rule("R18f", "the root variant is the real rendering or nothing: ParsedString.root_variant() returns parsed_variants[0] (when it has a tree) or None, never another variant -- the parse errors that gate fixing are read from the root variant")
    _r18f(chk, repo)
    chk.rule("R18e", "every templating error the templater yields next to a variant is kept: in render_string's loop over process_with_variants the yielded error list is accumulated on every path through the body, also the one that leaves the loop, and that list is what the RenderedFile carries")
    _r18e(chk, repo)
    counts = Counts(repo)
    summaries = discard_summaries(repo, counts)
    chk.count("R18a.discard_helpers", len(summaries))
    chk.sample({"rule": "R18a", "discard_helpers": sorted(summaries), "counter_kinds": {k: [repr(i) for i in v] for k, v in counts.attr_kinds.items()}, "tuple_summaries": {k: [repr(i) for i in v] for k, v in counts.tuple_summaries.items()}})

    # ---- R18a: sinks ---------------------------------------------------------
    for m in repo.iter_modules("src/sqlfluff/"):
        if any(m.relpath.startswith(p) for p in EXCLUDED):
            continue
        for q, f in m.functions():
            for c in calls_in(f):
                meth = last_attr(c)
                if meth not in SINK_METHODS or not isinstance(c.func, ast.Attribute):
                    continue
                ec = enclosing_class(f)
                if ec is not None and ec.name in OWNERS and meth in sum(OWNERS.values(), ()):
                    # inside the owning classes: covered by R18d
                    continue
                chk.count("R18a.sinks")
                root = root_name(c.func.value)
                if root is None:
                    chk.fail("R18a", c, "fix sink on a receiver that cannot be traced to a variable", detail=f"sink {meth} untraceable receiver")
                    continue
                cfg = cfg_of(f)
                ok, why = _check_site(chk, counts, summaries, f, cfg.stmt_of(c), root, meth in SELF_GATING, meth, node=c)
                detail = f"sink {meth}() on {root}"
                if ok:
                    chk.ok("R18a", f"{m.relpath}::{q}", detail)
                    chk.sample({"rule": "R18a", "sink": f"{m.relpath}:{c.lineno} {short(c, 70)}", "function": q, "verdict": "gated"})
                else:
                    where_f, where_n, info = why if why else (f, c, None)
                    chk.fail(
                        "R18a", c,
                        f"fixed text can be produced/persisted for a file with (possibly suppressed) TMP/PRS errors: {info}",
                        detail=detail,
                    )
    chk.floor("R18a.sinks", 4)

    # ---- R18d: owners ----------------------------------------------------------
    pt = repo.fn(LFILE, "LintedFile.persist_tree")
    cfg = cfg_of(pt)
    atoms = GateAtoms(counts, pt)
    pf = PathFacts(cfg, atoms)
    inner = [c for c in calls_in(pt) if last_attr(c) in ("fix_string", "_safe_create_replace_file")]
    chk.count("R18d.persist_tree_inner_sinks", len(inner))
    chk.floor("R18d.persist_tree_inner_sinks", 2)
    for c in inner:
        ok, cex = pf.holds_at(cfg.stmt_of(c), Not(Var("ZFIX:self")))
        chk.require(ok, "R18d", c, "persist_tree reaches fix_string / the file replacement without its fixable-count test", detail=f"persist_tree self-gate before {last_attr(c)}")
    for rel, cname, iterattr in ((LDIR, "LintedDir", "files"), (LRES, "LintingResult", "paths")):
        pc = repo.fn(rel, f"{cname}.persist_changes")
        fw = [c for c in calls_in(pc) if last_attr(c) in SINK_METHODS]
        good = len(fw) == 1 and last_attr(fw[0]) in SELF_GATING
        chk.require(good, "R18d", pc, f"{cname}.persist_changes must only forward to the self-gating persist method", detail=f"{cname}.persist_changes forwards")

    # ---- R18c: the discard step itself ------------------------------------------
    _r18c(chk, repo, counts)

    # ---- R18b: loop-limit rollback -------------------------------------------------
    _r18b(chk, repo)


def _r18c(chk, repo, counts) -> None:
    res = repo.fn(LRES, f"LintingResult.{DISCARD}")
    fw = [c for c in calls_in(res) if last_attr(c) == DISCARD]
    cfg = cfg_of(res)
    ok = False
    for c in fw:
        st = cfg.stmt_of(c)
        conds = cfg.conditions(st)
        p = st
        loop = None
        while p is not None and p is not res:
            if isinstance(p, ast.For):
                loop = p
            p = getattr(p, "_parent", None)
        if loop is not None and norm(loop.iter) == "self.paths" and not conds:
            ok = True
    chk.require(ok, "R18c", res, "LintingResult discard does not forward unconditionally to every path", detail="result discard forwards to all paths")

    d = repo.fn(LDIR, f"LintedDir.{DISCARD}")
    cfg = cfg_of(d)
    # kinds of the per-file map and the counter
    unf_maps = {a for a, infos in counts.map_attrs.items() if infos and all(i.kind == UNF and not i.warn_filtered and i.is_tmp_prs() for i in infos)}
    unf_attrs = {a for a, infos in counts.attr_kinds.items() if infos and all(i.kind == UNF and not i.warn_filtered and i.is_tmp_prs() for i in infos)}
    chk.count("R18c.unfiltered_maps", len(unf_maps))
    chk.count("R18c.unfiltered_counters", len(unf_attrs))
    if not chk.require(
        bool(unf_maps), "R18c", d,
        "no per-file map of LintedDir is advanced exclusively by unfiltered TMP/PRS counts: the discard step cannot identify files with suppressed errors "
        f"(maps: { {a: [repr(i) for i in v] for a, v in counts.map_attrs.items()} })",
        detail="per-file map is unfiltered TMP/PRS",
    ):
        return

    def cond_class(e: ast.expr, pol: bool, loopvars) -> str:
        # a count read into a local reads as the count; ``n > 0`` / ``n != 0`` true and ``n == 0`` false as ``n`` true
        e = expanded(cfg, e, cfg.stmt_of(e)) if cfg.stmt_of(e) is not None else e
        zt = zero_test(e)
        if zt is not None:
            e, pol = zt[0], (not pol if zt[1] else pol)
        t = norm(e)
        if not pol:
            return "other"
        if isinstance(e, ast.Subscript) and isinstance(e.value, ast.Attribute) and e.value.attr in unf_maps:
            return "unfiltered-map"
        if isinstance(e, ast.Attribute) and e.attr in unf_attrs:
            return "unfiltered-counter"
        if isinstance(e, ast.Call) and last_attr(e) == "isinstance" and len(e.args) == 2 and norm(e.args[1]) == "SQLLintError":
            return "is-lint-error"
        if isinstance(e, ast.Call) and last_attr(e) == "get" and e.args and isinstance(e.args[0], ast.Constant) and e.args[0].value == "fixes":
            return "has-fixes"
        return "other"

    obj_clear = rec_clear = 0
    for n in walk_local(d):
        if not (isinstance(n, ast.Assign) and len(n.targets) == 1):
            continue
        t = n.targets[0]
        empties = isinstance(n.value, (ast.List, ast.Tuple)) and not n.value.elts
        is_obj = isinstance(t, ast.Attribute) and t.attr == "fixes"
        is_rec = isinstance(t, ast.Subscript) and isinstance(t.slice, ast.Constant) and t.slice.value == "fixes"
        if not (is_obj or is_rec):
            continue
        conds = conditions_at(cfg, n)
        classes = [cond_class(e, pol, None) for e, pol in conds]
        allowed = {"unfiltered-map", "unfiltered-counter", "is-lint-error"} if is_obj else {"unfiltered-map", "unfiltered-counter", "has-fixes"}
        bad = [norm(e) for (e, pol), c in zip(conds, classes) if c not in allowed]
        need = "unfiltered-map" in classes
        # which collection is iterated
        loops = []
        p = n
        while p is not None and p is not d:
            if isinstance(p, ast.For):
                loops.append(norm(_iterated(cfg, p)))
            p = getattr(p, "_parent", None)
        want_iter = "self.files" if is_obj else "self._records"
        chk.require(empties, "R18c", n, "discard step does not empty the fixes", detail=("object" if is_obj else "record") + " fixes emptied")
        chk.require(not bad and need, "R18c", n,
                    f"discard of fixes is conditioned on something other than the file's unfiltered TMP/PRS count: {bad or 'unfiltered per-file test missing'}",
                    detail=("object" if is_obj else "record") + " discard condition")
        chk.require(want_iter in loops, "R18c", n, f"discard does not iterate {want_iter}", detail=("object" if is_obj else "record") + " discard iterates all")
        if is_obj:
            obj_clear += 1
            chk.require(any(l.endswith(".violations") for l in loops), "R18c", n, "discard does not visit every violation of the file", detail="object discard visits all violations")
        else:
            rec_clear += 1
    chk.require(obj_clear >= 1, "R18c", d, "discard step no longer clears fixes on retained LintedFile objects", detail="object discard present")
    chk.require(rec_clear >= 1, "R18c", d, "discard step no longer clears fixes on serialised records", detail="record discard present")
    # the per-file map must be filled for every added file
    add = repo.fn(LDIR, "LintedDir.add")
    acfg = cfg_of(add)
    for n in walk_local(add):
        if isinstance(n, ast.Assign) and isinstance(n.targets[0], ast.Subscript) and isinstance(n.targets[0].value, ast.Attribute) and n.targets[0].value.attr in unf_maps:
            chk.require(not acfg.conditions(n), "R18c", n, "per-file unfiltered TMP/PRS map is not filled unconditionally", detail="map filled unconditionally")
            key = norm(expanded(acfg, n.targets[0].slice, n))
            chk.require(key == "file.path" or key.endswith(".path"), "R18c", n, "per-file map keyed by something other than the file path", detail="map keyed by path")


def _iterated(cfg, loop: ast.For) -> ast.expr:
    """The collection a ``for`` really walks: ``for v in [x for x in C if isinstance(x, SQLLintError)]``
    (the comprehension in place or held in a local) visits the lint errors of ``C`` -- all that the
    discard has to clear -- so it reads as a loop over ``C``."""
    it = loop.iter
    if isinstance(it, ast.Name):
        os_ = origins(cfg, it, loop)
        if len(os_) == 1 and os_[0].kind == "expr" and not os_[0].path and isinstance(os_[0].expr, (ast.ListComp, ast.GeneratorExp)):
            it = os_[0].expr
    if isinstance(it, (ast.ListComp, ast.GeneratorExp)) and len(it.generators) == 1:
        g = it.generators[0]
        if isinstance(g.target, ast.Name) and isinstance(it.elt, ast.Name) and it.elt.id == g.target.id and all(
            isinstance(c, ast.Call) and last_attr(c) == "isinstance" and len(c.args) == 2 and norm(c.args[0]) == g.target.id and norm(c.args[1]) == "SQLLintError" for c in g.ifs
        ):
            return g.iter
    return loop.iter


def _r18b(chk, repo) -> None:
    """The rollback return of the fix loop, found by role: a ``return`` of lint_fix_parsed, inside a loop
    (or a loop's ``else``), whose tree component is a name that derives from the tree parameter and is
    never (re)bound inside any loop -- the tree as it was before the first pass.  Both spellings of
    "the pass budget is used up" are accepted: ``for .. else`` and an explicit limit test in the loop."""
    f = repo.fn(LINTER, "Linter.lint_fix_parsed")
    cfg = cfg_of(f)
    params = [a.arg for a in f.args.args]
    tree_param = params[1 if params[0] in ("cls", "self") else 0]
    loops = [n for n in walk_local(f) if isinstance(n, (ast.For, ast.While))]
    found = 0
    for r in [n for n in walk_local(f) if isinstance(n, ast.Return) and n.value is not None]:
        encl = [lp for lp in loops if _inside(r, lp)]
        if not encl:
            continue
        val, val_at = r.value, r
        if isinstance(val, ast.Name):  # the result tuple held in a local
            vo = origins(cfg, val, r)
            if len(vo) == 1 and vo[0].kind == "expr" and not vo[0].path and isinstance(vo[0].expr, ast.Tuple) and vo[0].stmt is not None:
                val, val_at = vo[0].expr, vo[0].stmt
        elts = val.elts if isinstance(val, ast.Tuple) else [val]
        t0 = elts[0] if elts else None
        if not isinstance(t0, ast.Name):
            continue
        os_ = origins(cfg, t0, val_at)
        from_param = bool(os_) and all(o.kind == "param" and getattr(o.expr, "arg", "") == tree_param for o in os_)
        ds = cfg.reaching().defs_at(val_at, t0.id)
        rebound_in_loop = [d for d in ds if d.stmt is not None and any(_inside(d.stmt, lp) for lp in loops)]
        in_else = any(_inside_stmts(r, lp.orelse) for lp in encl if lp.orelse)
        if not in_else and not (from_param and not rebound_in_loop):
            continue  # an ordinary return of the working tree, not the rollback
        found += 1
        chk.require(
            from_param and not rebound_in_loop, "R18b", r,
            "loop-limit exit: " + ("the returned name is (re)assigned inside the fix loop" if from_param else "returned tree does not derive from the tree parameter as it was before the loop"),
            detail="loop-limit returns saved tree",
        )
        # fixes cleared before the return, for every lint error of the returned list
        errs = elts[1] if len(elts) > 1 else None
        cleared = False
        blk = _block_of(r)
        for s_ in blk:
            if s_ is r:
                break
            if isinstance(s_, ast.For) and errs is not None and norm(s_.iter) == norm(errs):
                for n in walk_local(s_):
                    if isinstance(n, ast.Assign) and isinstance(n.targets[0], ast.Attribute) and n.targets[0].attr == "fixes" \
                            and isinstance(n.value, (ast.List, ast.Tuple)) and not n.value.elts \
                            and isinstance(n.targets[0].value, ast.Name) and n.targets[0].value.id in {x.id for x in ast.walk(s_.target) if isinstance(x, ast.Name)}:
                        conds = [c for c in cfg.conditions(n) if _inside(cfg.stmt_of(c[0]) or s_, s_)]
                        extra = [norm(e) for e, pol in conds if not (pol and isinstance(e, ast.Call) and last_attr(e) == "isinstance" and norm(e.args[1]) == "SQLLintError")]
                        if not extra:
                            cleared = True
        chk.require(cleared, "R18b", r, "loop-limit exit: fixes of the initial lint errors are not all cleared before returning", detail="loop-limit clears fixes")
        # the exhaustion arm must only be conditioned on fix mode (and, in the explicit form, on the pass budget)
        outer = encl[0]
        for lp in encl:
            if _inside(outer, lp):
                outer = lp
        shared = {(norm(e), pol) for e, pol in cfg.conditions(outer)}

        def is_budget_test(e) -> bool:
            if not isinstance(e, ast.Compare):
                return False
            for x in ast.walk(e):
                if isinstance(x, ast.Name):
                    for o in origins(cfg, x, r):
                        if o.kind == "expr" and any(isinstance(c, ast.Constant) and c.value == "runaway_limit" for c in ast.walk(o.expr)):
                            return True
            return False

        extra = []
        for e, pol in cfg.conditions(r):
            if (norm(e), pol) in shared:
                continue
            if pol and isinstance(e, ast.Name) and any(o.kind == "param" for o in origins(cfg, e, r)):
                continue
            if is_budget_test(e):
                continue
            extra.append(norm(e))
        chk.require(not extra, "R18b", r, f"loop-limit rollback is conditioned on more than fix mode: {extra}", detail="loop-limit arm unconditional")
    chk.require(found >= 1, "R18b", f, "no for/else exhaustion arm with a return found in the fix loop: loop-limit rollback missing", detail="loop-limit arm present")


def _inside(stmt, container) -> bool:
    p = stmt
    while p is not None:
        if p is container:
            return True
        p = getattr(p, "_parent", None)
    return False


def _inside_stmts(node, stmts) -> bool:
    return any(_inside(node, s) for s in stmts)


def _block_of(stmt):
    p = getattr(stmt, "_parent", None)
    for field in ("body", "orelse", "finalbody"):
        b = getattr(p, field, None)
        if isinstance(b, list) and stmt in b:
            return b
    return [stmt]


from ..selftest import Variant  # noqa: E402

CLI = "src/sqlfluff/cli/commands.py"
API = "src/sqlfluff/api/simple.py"

VARIANTS = [
    Variant(
        "root-variant-falls-back-to-an-alternate-rendering", "src/sqlfluff/core/linter/common.py",
        "        root_variant = self.parsed_variants[0]\n        if not root_variant.tree:\n",
        "        root_variant = next((v for v in self.parsed_variants if v.tree), self.parsed_variants[0])\n        if not root_variant.tree:\n",
        "R18f", "root_variant", "seeded C18-7 (same effect)",
    ),
    Variant(
        "variant-limit-break-before-errors-are-kept", LINTER,
        "                templater_violations += templater_errs\n                if len(templated_variants) >= variant_limit:\n                    # Stop if we hit the limit.\n                    break\n",
        "                if len(templated_variants) >= variant_limit:\n                    # Stop if we hit the limit.\n                    break\n                templater_violations += templater_errs\n",
        "R18e", "render_string", "seeded C18-3 (same effect): render_variant_limit = 1 drops every non-fatal templating error",
    ),
    Variant(
        "errors-kept-only-with-a-variant", LINTER,
        "                if variant:\n                    templated_variants.append(variant)\n",
        "                if not variant:\n                    continue\n                templated_variants.append(variant)\n",
        "R18e", "render_string", "errors yielded without a variant are skipped",
    ),
    Variant(
        "quiet-errors-extended-before-the-variant", LINTER,
        "                if variant:\n                    templated_variants.append(variant)\n",
        "                templater_violations.extend(templater_errs)\n                templater_errs = []\n                if variant:\n                    templated_variants.append(variant)\n",
        "QUIET", None, "R18e: errors added first (extend), the later += adds an empty list",
    ),
    Variant(
        "unfiltered-count-skips-warning-level-errors", LDIR,
        "            filter_ignore=False,\n            filter_warning=False,\n        )\n        self.num_unfiltered_tmp_prs_errors += _unfiltered_tmp_prs_errors\n",
        "            filter_ignore=False,\n        )\n        self.num_unfiltered_tmp_prs_errors += _unfiltered_tmp_prs_errors\n",
        "R18c", None, "seeded C18-4: `warnings = PRS` hides the parse error from the gate count",
    ),

    # behaviour-preserving refactors of the gates: must stay quiet
    Variant(
        "quiet-api-gate-as-early-return", API,
        "    should_fix = True\n    if not fix_even_unparsable:\n",
        "    should_fix = True\n    if fix_even_unparsable:\n        return result.paths[0].files[0].fix_string()[0]\n    if not fix_even_unparsable:\n",
        "QUIET", None, "the fix_even_unparsable arm returns early with the fixed string",
    ),
    Variant(
        "quiet-api-gate-count-through-local", API,
        "        total_errors, _ = result.count_tmp_prs_errors()\n        if total_errors > 0:\n",
        "        counts = result.count_tmp_prs_errors()\n        n_unfiltered = counts[0]\n        if n_unfiltered != 0:\n",
        "QUIET", None, "tuple kept whole, component 0 read through a local, != 0 instead of > 0",
    ),
    Variant(
        "quiet-lint-paths-gate-nested-ifs", LINTER,
        "                    if fix_even_unparsable or num_tmp_prs_errors == 0:\n                        linted_file.persist_tree(\n                            suffix=fixed_file_suffix, formatter=self.formatter\n                        )\n",
        "                    may_write = fix_even_unparsable or not num_tmp_prs_errors\n                    if may_write:\n                        linted_file.persist_tree(\n                            suffix=fixed_file_suffix, formatter=self.formatter\n                        )\n",
        "QUIET", None, "gate computed into a local, zero test spelled `not n`",
    ),
    Variant(
        "quiet-stdin-fixable-count-through-local", CLI,
        "    if result.num_violations(types=SQLLintError, fixable=True) > 0:\n        stdout = result.paths[0].files[0].fix_string()[0]\n",
        "    n_fixable = result.num_violations(types=SQLLintError, fixable=True)\n    if n_fixable > 0:\n        the_file = result.paths[0].files[0]\n        stdout = the_file.fix_string()[0]\n",
        "QUIET", None, "fixable count and the file held in locals",
    ),
    # behaviour-preserving refactors: must stay quiet
    Variant(
        'quiet-api-early-return-instead-of-flag', API,
        "    should_fix = True\n    if not fix_even_unparsable:\n        # If fix_even_unparsable wasn't set, check for templating or parse\n        # errors and suppress fixing if there were any. NOTE: As on the\n        # command line, this includes errors which have been suppressed\n        # (e.g. by `noqa`), because we can't guarantee the fixes are valid.\n        total_errors, _ = result.count_tmp_prs_errors()\n        if total_errors > 0:\n            should_fix = False\n    # NOTE: As for stdin on the command line, only ask for the fixed string if\n    # there is something to fix. A file which was skipped (e.g. for being over\n    # the configured size limit) has no tree or templated file to fix.\n    if should_fix and result.num_violations(types=SQLLintError, fixable=True) > 0:\n        sql = result.paths[0].files[0].fix_string()[0]\n    return sql\n",
        '    if not fix_even_unparsable:\n        total_errors, _ = result.count_tmp_prs_errors()\n        if total_errors > 0:\n            return sql\n    if result.num_violations(types=SQLLintError, fixable=True) > 0:\n        sql = result.paths[0].files[0].fix_string()[0]\n    return sql\n',
        "QUIET", None, 'the should_fix flag replaced by an early return',
    ),
    Variant(
        'quiet-api-flag-as-one-expression', API,
        "    should_fix = True\n    if not fix_even_unparsable:\n        # If fix_even_unparsable wasn't set, check for templating or parse\n        # errors and suppress fixing if there were any. NOTE: As on the\n        # command line, this includes errors which have been suppressed\n        # (e.g. by `noqa`), because we can't guarantee the fixes are valid.\n        total_errors, _ = result.count_tmp_prs_errors()\n        if total_errors > 0:\n            should_fix = False\n    # NOTE: As for stdin on the command line, only ask for the fixed string if\n    # there is something to fix. A file which was skipped (e.g. for being over\n    # the configured size limit) has no tree or templated file to fix.\n    if should_fix and result.num_violations(types=SQLLintError, fixable=True) > 0:\n        sql = result.paths[0].files[0].fix_string()[0]\n    return sql\n",
        '    should_fix = bool(fix_even_unparsable) or result.count_tmp_prs_errors()[0] == 0\n    if should_fix and result.num_violations(types=SQLLintError, fixable=True) > 0:\n        sql = result.paths[0].files[0].fix_string()[0]\n    return sql\n',
        "QUIET", None, 'flag computed as `feu or count()[0] == 0` (short-circuit keeps the call conditional)',
    ),
    Variant(
        'quiet-api-flag-then-early-return', API,
        "    should_fix = True\n    if not fix_even_unparsable:\n        # If fix_even_unparsable wasn't set, check for templating or parse\n        # errors and suppress fixing if there were any. NOTE: As on the\n        # command line, this includes errors which have been suppressed\n        # (e.g. by `noqa`), because we can't guarantee the fixes are valid.\n        total_errors, _ = result.count_tmp_prs_errors()\n        if total_errors > 0:\n            should_fix = False\n    # NOTE: As for stdin on the command line, only ask for the fixed string if\n    # there is something to fix. A file which was skipped (e.g. for being over\n    # the configured size limit) has no tree or templated file to fix.\n    if should_fix and result.num_violations(types=SQLLintError, fixable=True) > 0:\n        sql = result.paths[0].files[0].fix_string()[0]\n    return sql\n",
        '    should_fix = True\n    if not fix_even_unparsable:\n        total_errors, _ = result.count_tmp_prs_errors()\n        if total_errors:\n            should_fix = False\n    if not should_fix:\n        return sql\n    if result.num_violations(types=SQLLintError, fixable=True) > 0:\n        sql = result.paths[0].files[0].fix_string()[0]\n    return sql\n',
        "QUIET", None, 'truthiness instead of > 0; flag tested by an early return',
    ),
    Variant(
        'quiet-stdin-fixable-test-in-boolean-local', CLI,
        '    if result.num_violations(types=SQLLintError, fixable=True) > 0:\n        stdout = result.paths[0].files[0].fix_string()[0]\n    else:\n        stdout = stdin\n',
        '    has_fixable = result.num_violations(types=SQLLintError, fixable=True) > 0\n    if has_fixable:\n        stdout = result.paths[0].files[0].fix_string()[0]\n    else:\n        stdout = stdin\n',
        "QUIET", None, 'fixable test held in a boolean local',
    ),
    Variant(
        'quiet-stdin-conditional-expression', CLI,
        '    if result.num_violations(types=SQLLintError, fixable=True) > 0:\n        stdout = result.paths[0].files[0].fix_string()[0]\n    else:\n        stdout = stdin\n',
        '    stdout = (\n        result.paths[0].files[0].fix_string()[0]\n        if result.num_violations(types=SQLLintError, fixable=True) > 0\n        else stdin\n    )\n',
        "QUIET", None, 'if/else as a conditional expression',
    ),
    Variant(
        'quiet-stdin-default-then-override', CLI,
        '    if result.num_violations(types=SQLLintError, fixable=True) > 0:\n        stdout = result.paths[0].files[0].fix_string()[0]\n    else:\n        stdout = stdin\n',
        '    stdout = stdin\n    if result.num_violations(types=SQLLintError, fixable=True) != 0:\n        stdout = result.paths[0].files[0].fix_string()[0]\n',
        "QUIET", None, 'default first, overridden under the test; != 0 instead of > 0',
    ),
    Variant(
        'quiet-lint-paths-gate-if-elif', LINTER,
        '                    if fix_even_unparsable or num_tmp_prs_errors == 0:\n                        linted_file.persist_tree(\n                            suffix=fixed_file_suffix, formatter=self.formatter\n                        )\n',
        '                    if fix_even_unparsable:\n                        linted_file.persist_tree(\n                            suffix=fixed_file_suffix, formatter=self.formatter\n                        )\n                    elif num_tmp_prs_errors == 0:\n                        linted_file.persist_tree(\n                            suffix=fixed_file_suffix, formatter=self.formatter\n                        )\n',
        "QUIET", None, '`or` split into if/elif with the same action',
    ),
    Variant(
        'quiet-lint-paths-gate-de-morgan', LINTER,
        '                    if fix_even_unparsable or num_tmp_prs_errors == 0:\n                        linted_file.persist_tree(\n                            suffix=fixed_file_suffix, formatter=self.formatter\n                        )\n',
        '                    if not (num_tmp_prs_errors > 0 and not fix_even_unparsable):\n                        linted_file.persist_tree(\n                            suffix=fixed_file_suffix, formatter=self.formatter\n                        )\n',
        "QUIET", None, 'De Morgan on the gate',
    ),
    Variant(
        'quiet-lint-paths-count-inlined', LINTER,
        '                    num_tmp_prs_errors = linted_file.num_violations(\n                        types=TMP_PRS_ERROR_TYPES,\n                        filter_ignore=False,\n                        filter_warning=False,\n                    )\n                    if fix_even_unparsable or num_tmp_prs_errors == 0:\n',
        '                    if fix_even_unparsable or not linted_file.num_violations(\n                        types=TMP_PRS_ERROR_TYPES,\n                        filter_ignore=False,\n                        filter_warning=False,\n                    ):\n',
        "QUIET", None, 'count inlined into the gate, `not n` for `n == 0`',
    ),
    Variant(
        'quiet-handle-unparsable-discard-before-count', CLI,
        '    total_errors, num_filtered_errors = linting_result.count_tmp_prs_errors()\n    linting_result.discard_fixes_for_lint_errors_in_files_with_tmp_or_prs_errors()\n',
        '    linting_result.discard_fixes_for_lint_errors_in_files_with_tmp_or_prs_errors()\n    total_errors, num_filtered_errors = linting_result.count_tmp_prs_errors()\n',
        "QUIET", None, 'two independent statements reordered',
    ),
    Variant(
        'quiet-discard-map-lookup-through-local', LDIR,
        '            for linted_file in self.files:\n                if self._unfiltered_tmp_prs_errors_map[linted_file.path]:\n                    for violation in linted_file.violations:\n                        if isinstance(violation, SQLLintError):\n                            violation.fixes = []\n',
        '            for linted_file in self.files:\n                file_tmp_prs = self._unfiltered_tmp_prs_errors_map[linted_file.path]\n                if file_tmp_prs:\n                    for violation in linted_file.violations:\n                        if isinstance(violation, SQLLintError):\n                            violation.fixes = []\n',
        "QUIET", None, 'per-file count read into a local',
    ),
    Variant(
        'quiet-discard-compare-and-continue', LDIR,
        '            for linted_file in self.files:\n                if self._unfiltered_tmp_prs_errors_map[linted_file.path]:\n                    for violation in linted_file.violations:\n                        if isinstance(violation, SQLLintError):\n                            violation.fixes = []\n',
        '            for linted_file in self.files:\n                if self._unfiltered_tmp_prs_errors_map[linted_file.path] > 0:\n                    for violation in linted_file.violations:\n                        if not isinstance(violation, SQLLintError):\n                            continue\n                        violation.fixes = []\n',
        "QUIET", None, '> 0 instead of truthiness; early continue for non-lint errors',
    ),
    Variant(
        'quiet-discard-early-continue-per-file', LDIR,
        '            for linted_file in self.files:\n                if self._unfiltered_tmp_prs_errors_map[linted_file.path]:\n                    for violation in linted_file.violations:\n                        if isinstance(violation, SQLLintError):\n                            violation.fixes = []\n',
        '            for linted_file in self.files:\n                if not self._unfiltered_tmp_prs_errors_map[linted_file.path]:\n                    continue\n                for violation in linted_file.violations:\n                    if isinstance(violation, SQLLintError):\n                        violation.fixes = []\n',
        "QUIET", None, 'early continue for clean files',
    ),
    Variant(
        'quiet-discard-lint-errors-filtered-first', LDIR,
        '            for linted_file in self.files:\n                if self._unfiltered_tmp_prs_errors_map[linted_file.path]:\n                    for violation in linted_file.violations:\n                        if isinstance(violation, SQLLintError):\n                            violation.fixes = []\n',
        '            for linted_file in self.files:\n                if self._unfiltered_tmp_prs_errors_map[linted_file.path]:\n                    lint_errors = [v for v in linted_file.violations if isinstance(v, SQLLintError)]\n                    for violation in lint_errors:\n                        violation.fixes = []\n',
        "QUIET", None, 'lint errors selected by a comprehension, then cleared',
    ),
    Variant(
        'quiet-add-map-key-through-local', LDIR,
        '        self._unfiltered_tmp_prs_errors_map[file.path] = _unfiltered_tmp_prs_errors\n',
        '        file_key = file.path\n        self._unfiltered_tmp_prs_errors_map[file_key] = _unfiltered_tmp_prs_errors\n',
        "QUIET", None, 'map key through a local',
    ),
    Variant(
        'quiet-loop-limit-clear-with-continue', LINTER,
        '                    for violation in initial_linting_errors:\n                        if isinstance(violation, SQLLintError):\n                            violation.fixes = []\n',
        '                    for violation in initial_linting_errors:\n                        if not isinstance(violation, SQLLintError):\n                            continue\n                        violation.fixes = []\n',
        "QUIET", None, 'early continue in the clearing loop',
    ),
    Variant(
        'quiet-loop-limit-result-through-local', LINTER,
        '                    return save_tree, initial_linting_errors, ignore_mask, rule_timings\n',
        '                    rolled_back = (save_tree, initial_linting_errors, ignore_mask, rule_timings)\n                    return rolled_back\n',
        "QUIET", None, 'rollback result through a local',
    ),
    Variant(
        'quiet-persist-tree-count-through-local', LFILE,
        '        if self.num_violations(fixable=True, filter_warning=False) > 0:\n            write_buff, success = self.fix_string()\n',
        '        n_fixable = self.num_violations(fixable=True, filter_warning=False)\n        if n_fixable:\n            write_buff, success = self.fix_string()\n',
        "QUIET", None, 'fixable count through a local, truthiness',
    ),
    Variant("quiet-loop-limit-saved-tree-renamed", LINTER, "save_tree", "tree_before_fixes", "QUIET", None, "saved-tree local renamed everywhere", 2),
    # breaking twins of the spellings accepted above
    Variant(
        'stdin-conditional-expression-on-any-lint-error', CLI,
        '    if result.num_violations(types=SQLLintError, fixable=True) > 0:\n        stdout = result.paths[0].files[0].fix_string()[0]\n    else:\n        stdout = stdin\n',
        '    stdout = (\n        result.paths[0].files[0].fix_string()[0]\n        if result.num_violations(types=SQLLintError) > 0\n        else stdin\n    )\n',
        'R18a', '_stdin_fix', 'breaking twin of the conditional-expression spelling: not the fixable count',
    ),
    Variant(
        'api-flag-from-bool-of-another-value', API,
        '    should_fix = True\n    if not fix_even_unparsable:\n',
        '    should_fix = bool(sql) or result.count_tmp_prs_errors()[0] == 0\n    if False:\n',
        'R18a', 'fix', 'breaking twin of the bool(..) spelling: the flag is not fix_even_unparsable',
    ),
    Variant(
        'discard-local-holds-filtered-count', LDIR,
        '            for linted_file in self.files:\n                if self._unfiltered_tmp_prs_errors_map[linted_file.path]:\n                    for violation in linted_file.violations:\n                        if isinstance(violation, SQLLintError):\n                            violation.fixes = []\n',
        '            for linted_file in self.files:\n                file_tmp_prs = linted_file.num_violations(types=TMP_PRS_ERROR_TYPES)\n                if file_tmp_prs:\n                    for violation in linted_file.violations:\n                        if isinstance(violation, SQLLintError):\n                            violation.fixes = []\n',
        'R18c', None, 'breaking twin of the count-in-a-local spelling',
    ),
    Variant(
        'discard-comprehension-skips-warnings', LDIR,
        '            for linted_file in self.files:\n                if self._unfiltered_tmp_prs_errors_map[linted_file.path]:\n                    for violation in linted_file.violations:\n                        if isinstance(violation, SQLLintError):\n                            violation.fixes = []\n',
        '            for linted_file in self.files:\n                if self._unfiltered_tmp_prs_errors_map[linted_file.path]:\n                    lint_errors = [v for v in linted_file.violations if isinstance(v, SQLLintError) and not v.warning]\n                    for violation in lint_errors:\n                        violation.fixes = []\n',
        'R18c', None, 'breaking twin of the filtered-comprehension spelling',
    ),
    Variant(
        'add-map-key-local-is-basename', LDIR,
        '        self._unfiltered_tmp_prs_errors_map[file.path] = _unfiltered_tmp_prs_errors\n',
        '        file_key = os.path.basename(file.path)\n        self._unfiltered_tmp_prs_errors_map[file_key] = _unfiltered_tmp_prs_errors\n',
        'R18c', None, 'breaking twin of the key-in-a-local spelling',
    ),
    Variant(
        'loop-limit-result-local-holds-current-tree', LINTER,
        '                    return save_tree, initial_linting_errors, ignore_mask, rule_timings\n',
        '                    rolled_back = (tree, initial_linting_errors, ignore_mask, rule_timings)\n                    return rolled_back\n',
        'R18b', 'lint_fix_parsed', 'breaking twin of the result-in-a-local spelling',
    ),
    Variant("lint_paths-gate-dropped", LINTER,
            "                    if fix_even_unparsable or num_tmp_prs_errors == 0:\n                        linted_file.persist_tree(",
            "                    if True:\n                        linted_file.persist_tree(", "R18a", "lint_paths"),
    Variant("lint_paths-filtered-count", LINTER,
            "                        types=TMP_PRS_ERROR_TYPES,\n                        filter_ignore=False,\n                        filter_warning=False,\n                    )\n                    if fix_even_unparsable",
            "                        types=TMP_PRS_ERROR_TYPES,\n                        filter_warning=False,\n                    )\n                    if fix_even_unparsable", "R18a", "lint_paths"),
    Variant("lint_paths-only-parse-errors", LINTER,
            "                    num_tmp_prs_errors = linted_file.num_violations(\n                        types=TMP_PRS_ERROR_TYPES,",
            "                    num_tmp_prs_errors = linted_file.num_violations(\n                        types=SQLParseError,", "R18a", "lint_paths"),
    Variant("lint_paths-wrong-flag", LINTER,
            "                    if fix_even_unparsable or num_tmp_prs_errors == 0:",
            "                    if fix or num_tmp_prs_errors == 0:", "R18a", "lint_paths"),
    Variant("stdin-fix-before-discard", CLI,
            "    exit_code = _handle_unparsable(fix_even_unparsable, exit_code, result, formatter)\n\n    if result.num_violations(types=SQLLintError, fixable=True) > 0:\n        stdout = result.paths[0].files[0].fix_string()[0]\n    else:\n        stdout = stdin\n",
            "    if result.num_violations(types=SQLLintError, fixable=True) > 0:\n        stdout = result.paths[0].files[0].fix_string()[0]\n    else:\n        stdout = stdin\n\n    exit_code = _handle_unparsable(fix_even_unparsable, exit_code, result, formatter)\n",
            "R18a", "_stdin_fix"),
    Variant("stdin-fix-unconditional", CLI,
            "    if result.num_violations(types=SQLLintError, fixable=True) > 0:\n        stdout = result.paths[0].files[0].fix_string()[0]",
            "    if True:\n        stdout = result.paths[0].files[0].fix_string()[0]", "R18a", "_stdin_fix"),
    Variant("paths-fix-no-discard", CLI,
            "    exit_code = _handle_unparsable(fix_even_unparsable, exit_code, result, formatter)\n\n    # NB: We filter to linting violations here",
            "    # NB: We filter to linting violations here", "R18a", "do_fixes"),
    Variant("handle-unparsable-skips-discard-when-all-suppressed", CLI,
            "    linting_result.discard_fixes_for_lint_errors_in_files_with_tmp_or_prs_errors()\n",
            "    if num_filtered_errors:\n        linting_result.discard_fixes_for_lint_errors_in_files_with_tmp_or_prs_errors()\n", "R18a", None),
    Variant("discard-uses-filtered-map", LDIR,
            "        self._unfiltered_tmp_prs_errors_map[file.path] = _unfiltered_tmp_prs_errors\n",
            "        self._unfiltered_tmp_prs_errors_map[file.path] = file.num_violations(\n            types=TMP_PRS_ERROR_TYPES\n        )\n", "R18c", None),
    Variant("discard-only-first-violation", LDIR,
            "                        if isinstance(violation, SQLLintError):\n                            violation.fixes = []",
            "                        if isinstance(violation, SQLLintError) and violation.fixable:\n                            violation.fixes = []\n                            break", "R18c", None),
    Variant("discard-objects-dropped", LDIR,
            "                        if isinstance(violation, SQLLintError):\n                            violation.fixes = []",
            "                        pass", "R18c", None),
    Variant("loop-limit-returns-current-tree", LINTER,
            "                    return save_tree, initial_linting_errors, ignore_mask, rule_timings",
            "                    return tree, initial_linting_errors, ignore_mask, rule_timings", "R18b", "lint_fix_parsed"),
    Variant("loop-limit-keeps-fixes", LINTER,
            "                    for violation in initial_linting_errors:\n                        if isinstance(violation, SQLLintError):\n                            violation.fixes = []\n",
            "", "R18b", "lint_fix_parsed"),
    Variant("save-tree-taken-inside-loop", LINTER,
            "                changed = False\n\n                if is_first_linter_pass():",
            "                changed = False\n                save_tree = tree\n\n                if is_first_linter_pass():", "R18b", "lint_fix_parsed"),
    Variant("persist-tree-no-self-gate", LFILE,
            "        if self.num_violations(fixable=True, filter_warning=False) > 0:\n            write_buff, success = self.fix_string()",
            "        if True:\n            write_buff, success = self.fix_string()", "R18d", "persist_tree"),
    Variant("api-fix-filtered-gate", API,
            "        total_errors, _ = result.count_tmp_prs_errors()\n        if total_errors > 0:",
            "        _, total_errors = result.count_tmp_prs_errors()\n        if total_errors > 0:", "R18a", "fix", "the original defect F2"),
    Variant("api-fix-new-sink-ungated", API,
            "    if should_fix and result.num_violations(types=SQLLintError, fixable=True) > 0:\n        sql = result.paths[0].files[0].fix_string()[0]\n    return sql",
            "    if result.num_violations(types=SQLLintError, fixable=True) > 0:\n        sql = result.paths[0].files[0].fix_string()[0]\n    return sql", "R18a", "fix"),
]
