"""C18 — files with template or parse errors are never modified by fix.

R18a  every fix sink (``fix_string`` / ``persist_tree`` / ``persist_changes`` call
      outside the owning classes) is reached only on paths where
      ``FEU  or  unfiltered TMP/PRS count == 0  or  (discard step ran on the same
      result  and  the sink is conditioned on a fixable count / self-gating)``.
      Path-sensitive (flag variables are followed); a sink in a helper whose
      receiver is a parameter is checked at every call site of the helper.
R18b  when the fix loop hits its limit the tree saved before the first pass is
      returned and every initial lint error loses its fixes.
R18c  the discard step empties the fixes of *every* lint error of every file whose
      *unfiltered* TMP/PRS count is non-zero (objects and serialised records).
R18d  ``persist_tree`` produces and writes fixed text only under its own fixable
      count test; the pass-through ``persist_changes`` wrappers only forward.
"""

from __future__ import annotations

import ast

from ..cfg import Branch, cfg_of, origins
from ..counts import Counts, UNF, root_name
from ..gates import DISCARD, GateAtoms, callers_of, discard_summaries, make_events
from ..index import AnalysisError, FuncNode, calls_in, enclosing_class, enclosing_function, last_attr, norm, short, walk_local
from ..pathcond import And, Not, Or, PathFacts, Var, show

LINTER = "src/sqlfluff/core/linter/linter.py"
LFILE = "src/sqlfluff/core/linter/linted_file.py"
LDIR = "src/sqlfluff/core/linter/linted_dir.py"
LRES = "src/sqlfluff/core/linter/linting_result.py"
SINK_METHODS = ("fix_string", "persist_tree", "persist_changes", "_safe_create_replace_file")
SELF_GATING = ("persist_tree", "persist_changes")
# Reviewed exclusions: (path prefix, reason).  One entry per package.
EXCLUDED = {
    "src/sqlfluff/utils/testing/": "test-support helpers for rule authors (assert_rule_* work on in-memory strings and "
    "fail the test on parse errors); not an entry point that produces user-visible fixed output",
}
OWNERS = {"LintedFile": ("fix_string", "persist_tree", "_safe_create_replace_file"), "LintedDir": ("persist_changes",), "LintingResult": ("persist_changes",)}


def _goal(root: str, self_gating: bool):
    disc = Var(f"DISC:{root}")
    tail = disc if self_gating else And(disc, Not(Var(f"ZFIX:{root}")))
    return Or(Var("FEU"), Var(f"ZU:{root}"), tail)


def _check_site(chk, counts, summaries, func, stmt_node, root, self_gating, sink_desc, depth=0):
    """Prove the goal at ``stmt_node`` of ``func``; lift to callers when the
    receiver is a parameter and the goal is not established locally."""
    cfg = cfg_of(func)
    atoms = GateAtoms(counts, func)
    pf = PathFacts(cfg, atoms, make_events(func, counts, summaries))
    root = counts._canon_root(cfg, root, stmt_node)
    goal = _goal(root, self_gating)
    ok, cex = pf.holds_at(stmt_node, goal)
    if ok:
        return True, None
    params = [a.arg for a in func.args.args]
    if root in params and depth < 3:
        sites = callers_of(chk.repo, func)
        if sites:
            all_ok, worst = True, None
            for cf, call in sites:
                idx = params.index(root)
                skip = 1 if params and params[0] in ("self", "cls") and isinstance(call.func, ast.Attribute) else 0
                arg = None
                if idx - skip < len(call.args) and idx - skip >= 0:
                    arg = call.args[idx - skip]
                for k in call.keywords:
                    if k.arg == root:
                        arg = k.value
                r2 = root_name(arg) if arg is not None else None
                if r2 is None:
                    all_ok, worst = False, (cf, call, None)
                    continue
                ccfg = cfg_of(cf)
                ok2, cex2 = _check_site(chk, counts, summaries, cf, ccfg.stmt_of(call), r2, self_gating, sink_desc, depth + 1)
                if not ok2:
                    all_ok, worst = False, cex2 or (cf, call, None)
            if all_ok:
                return True, None
            return False, worst
    # diagnose: is the sink gated by a *filtered* quantity?
    info = None
    for name, via, line in atoms.seen:
        if name.startswith("ZF:"):
            info = f"gated by a suppression-filtered count ({via}); the unfiltered count is required"
    return False, (func, stmt_node, info or ("facts on the failing path: " + (" and ".join(show(f) for f in cex) if cex else "none")))


def run(chk) -> None:
    repo = chk.repo
    chk.rule("R18a", "every fix sink is only reached when fix_even_unparsable is set, or the unfiltered TMP/PRS count is zero, or the discard step ran first and the sink is conditioned on a fixable count")
    chk.rule("R18b", "on loop-limit exhaustion the tree saved before the first pass is returned and all initial lint errors lose their fixes")
    chk.rule("R18c", "the discard step empties fixes for every lint error of every file with a non-zero unfiltered TMP/PRS count")
    chk.rule("R18d", "persist_tree self-gates on a fixable count; persist_changes wrappers only forward")
    counts = Counts(repo)
    summaries = discard_summaries(repo, counts)
    chk.count("R18a.discard_helpers", len(summaries))
    chk.sample({"rule": "R18a", "discard_helpers": sorted(summaries), "counter_kinds": {k: [repr(i) for i in v] for k, v in counts.attr_kinds.items()}, "tuple_summaries": {k: [repr(i) for i in v] for k, v in counts.tuple_summaries.items()}})

    # ---- R18a: sinks ---------------------------------------------------------
    for m in repo.iter_modules("src/sqlfluff/"):
        if any(m.relpath.startswith(p) for p in EXCLUDED):
            continue
        for q, f in m.functions():
            for c in calls_in(f):
                meth = last_attr(c)
                if meth not in SINK_METHODS or not isinstance(c.func, ast.Attribute):
                    continue
                ec = enclosing_class(f)
                if ec is not None and ec.name in OWNERS and meth in sum(OWNERS.values(), ()):
                    # inside the owning classes: covered by R18d
                    continue
                chk.count("R18a.sinks")
                root = root_name(c.func.value)
                if root is None:
                    chk.fail("R18a", c, "fix sink on a receiver that cannot be traced to a variable", detail=f"sink {meth} untraceable receiver")
                    continue
                cfg = cfg_of(f)
                ok, why = _check_site(chk, counts, summaries, f, cfg.stmt_of(c), root, meth in SELF_GATING, meth)
                detail = f"sink {meth}() on {root}"
                if ok:
                    chk.ok("R18a", f"{m.relpath}::{q}", detail)
                    chk.sample({"rule": "R18a", "sink": f"{m.relpath}:{c.lineno} {short(c, 70)}", "function": q, "verdict": "gated"})
                else:
                    where_f, where_n, info = why if why else (f, c, None)
                    chk.fail(
                        "R18a", c,
                        f"fixed text can be produced/persisted for a file with (possibly suppressed) TMP/PRS errors: {info}",
                        detail=detail,
                    )
    chk.floor("R18a.sinks", 4)

    # ---- R18d: owners ----------------------------------------------------------
    pt = repo.fn(LFILE, "LintedFile.persist_tree")
    cfg = cfg_of(pt)
    atoms = GateAtoms(counts, pt)
    pf = PathFacts(cfg, atoms)
    inner = [c for c in calls_in(pt) if last_attr(c) in ("fix_string", "_safe_create_replace_file")]
    chk.count("R18d.persist_tree_inner_sinks", len(inner))
    chk.floor("R18d.persist_tree_inner_sinks", 2)
    for c in inner:
        ok, cex = pf.holds_at(cfg.stmt_of(c), Not(Var("ZFIX:self")))
        chk.require(ok, "R18d", c, "persist_tree reaches fix_string / the file replacement without its fixable-count test", detail=f"persist_tree self-gate before {last_attr(c)}")
    for rel, cname, iterattr in ((LDIR, "LintedDir", "files"), (LRES, "LintingResult", "paths")):
        pc = repo.fn(rel, f"{cname}.persist_changes")
        fw = [c for c in calls_in(pc) if last_attr(c) in SINK_METHODS]
        good = len(fw) == 1 and last_attr(fw[0]) in SELF_GATING
        chk.require(good, "R18d", pc, f"{cname}.persist_changes must only forward to the self-gating persist method", detail=f"{cname}.persist_changes forwards")

    # ---- R18c: the discard step itself ------------------------------------------
    _r18c(chk, repo, counts)

    # ---- R18b: loop-limit rollback -------------------------------------------------
    _r18b(chk, repo)


def _r18c(chk, repo, counts) -> None:
    res = repo.fn(LRES, f"LintingResult.{DISCARD}")
    fw = [c for c in calls_in(res) if last_attr(c) == DISCARD]
    cfg = cfg_of(res)
    ok = False
    for c in fw:
        st = cfg.stmt_of(c)
        conds = cfg.conditions(st)
        p = st
        loop = None
        while p is not None and p is not res:
            if isinstance(p, ast.For):
                loop = p
            p = getattr(p, "_parent", None)
        if loop is not None and norm(loop.iter) == "self.paths" and not conds:
            ok = True
    chk.require(ok, "R18c", res, "LintingResult discard does not forward unconditionally to every path", detail="result discard forwards to all paths")

    d = repo.fn(LDIR, f"LintedDir.{DISCARD}")
    cfg = cfg_of(d)
    # kinds of the per-file map and the counter
    unf_maps = {a for a, infos in counts.map_attrs.items() if infos and all(i.kind == UNF and i.is_tmp_prs() for i in infos)}
    unf_attrs = {a for a, infos in counts.attr_kinds.items() if infos and all(i.kind == UNF and i.is_tmp_prs() for i in infos)}
    chk.count("R18c.unfiltered_maps", len(unf_maps))
    chk.count("R18c.unfiltered_counters", len(unf_attrs))
    if not chk.require(
        bool(unf_maps), "R18c", d,
        "no per-file map of LintedDir is advanced exclusively by unfiltered TMP/PRS counts: the discard step cannot identify files with suppressed errors "
        f"(maps: { {a: [repr(i) for i in v] for a, v in counts.map_attrs.items()} })",
        detail="per-file map is unfiltered TMP/PRS",
    ):
        return

    def cond_class(e: ast.expr, pol: bool, loopvars) -> str:
        t = norm(e)
        if not pol:
            return "other"
        if isinstance(e, ast.Subscript) and isinstance(e.value, ast.Attribute) and e.value.attr in unf_maps:
            return "unfiltered-map"
        if isinstance(e, ast.Attribute) and e.attr in unf_attrs:
            return "unfiltered-counter"
        if isinstance(e, ast.Call) and last_attr(e) == "isinstance" and len(e.args) == 2 and norm(e.args[1]) == "SQLLintError":
            return "is-lint-error"
        if isinstance(e, ast.Call) and last_attr(e) == "get" and e.args and isinstance(e.args[0], ast.Constant) and e.args[0].value == "fixes":
            return "has-fixes"
        return "other"

    obj_clear = rec_clear = 0
    for n in walk_local(d):
        if not (isinstance(n, ast.Assign) and len(n.targets) == 1):
            continue
        t = n.targets[0]
        empties = isinstance(n.value, (ast.List, ast.Tuple)) and not n.value.elts
        is_obj = isinstance(t, ast.Attribute) and t.attr == "fixes"
        is_rec = isinstance(t, ast.Subscript) and isinstance(t.slice, ast.Constant) and t.slice.value == "fixes"
        if not (is_obj or is_rec):
            continue
        conds = cfg.conditions(n)
        classes = [cond_class(e, pol, None) for e, pol in conds]
        allowed = {"unfiltered-map", "unfiltered-counter", "is-lint-error"} if is_obj else {"unfiltered-map", "unfiltered-counter", "has-fixes"}
        bad = [norm(e) for (e, pol), c in zip(conds, classes) if c not in allowed]
        need = "unfiltered-map" in classes
        # which collection is iterated
        loops = []
        p = n
        while p is not None and p is not d:
            if isinstance(p, ast.For):
                loops.append(norm(p.iter))
            p = getattr(p, "_parent", None)
        want_iter = "self.files" if is_obj else "self._records"
        chk.require(empties, "R18c", n, "discard step does not empty the fixes", detail=("object" if is_obj else "record") + " fixes emptied")
        chk.require(not bad and need, "R18c", n,
                    f"discard of fixes is conditioned on something other than the file's unfiltered TMP/PRS count: {bad or 'unfiltered per-file test missing'}",
                    detail=("object" if is_obj else "record") + " discard condition")
        chk.require(want_iter in loops, "R18c", n, f"discard does not iterate {want_iter}", detail=("object" if is_obj else "record") + " discard iterates all")
        if is_obj:
            obj_clear += 1
            chk.require(any(l.endswith(".violations") for l in loops), "R18c", n, "discard does not visit every violation of the file", detail="object discard visits all violations")
        else:
            rec_clear += 1
    chk.require(obj_clear >= 1, "R18c", d, "discard step no longer clears fixes on retained LintedFile objects", detail="object discard present")
    chk.require(rec_clear >= 1, "R18c", d, "discard step no longer clears fixes on serialised records", detail="record discard present")
    # the per-file map must be filled for every added file
    add = repo.fn(LDIR, "LintedDir.add")
    acfg = cfg_of(add)
    for n in walk_local(add):
        if isinstance(n, ast.Assign) and isinstance(n.targets[0], ast.Subscript) and isinstance(n.targets[0].value, ast.Attribute) and n.targets[0].value.attr in unf_maps:
            chk.require(not acfg.conditions(n), "R18c", n, "per-file unfiltered TMP/PRS map is not filled unconditionally", detail="map filled unconditionally")
            chk.require(norm(n.targets[0].slice) == "file.path" or norm(n.targets[0].slice).endswith(".path"), "R18c", n, "per-file map keyed by something other than the file path", detail="map keyed by path")


def _r18b(chk, repo) -> None:
    """The rollback return of the fix loop, found by role: a ``return`` of lint_fix_parsed, inside a loop
    (or a loop's ``else``), whose tree component is a name that derives from the tree parameter and is
    never (re)bound inside any loop -- the tree as it was before the first pass.  Both spellings of
    "the pass budget is used up" are accepted: ``for .. else`` and an explicit limit test in the loop."""
    f = repo.fn(LINTER, "Linter.lint_fix_parsed")
    cfg = cfg_of(f)
    params = [a.arg for a in f.args.args]
    tree_param = params[1 if params[0] in ("cls", "self") else 0]
    loops = [n for n in walk_local(f) if isinstance(n, (ast.For, ast.While))]
    found = 0
    for r in [n for n in walk_local(f) if isinstance(n, ast.Return) and n.value is not None]:
        encl = [lp for lp in loops if _inside(r, lp)]
        if not encl:
            continue
        elts = r.value.elts if isinstance(r.value, ast.Tuple) else [r.value]
        t0 = elts[0] if elts else None
        if not isinstance(t0, ast.Name):
            continue
        os_ = origins(cfg, t0, r)
        from_param = bool(os_) and all(o.kind == "param" and getattr(o.expr, "arg", "") == tree_param for o in os_)
        ds = cfg.reaching().defs_at(r, t0.id)
        rebound_in_loop = [d for d in ds if d.stmt is not None and any(_inside(d.stmt, lp) for lp in loops)]
        in_else = any(_inside_stmts(r, lp.orelse) for lp in encl if lp.orelse)
        if not in_else and not (from_param and not rebound_in_loop):
            continue  # an ordinary return of the working tree, not the rollback
        found += 1
        chk.require(
            from_param and not rebound_in_loop, "R18b", r,
            "loop-limit exit: " + ("the returned name is (re)assigned inside the fix loop" if from_param else "returned tree does not derive from the tree parameter as it was before the loop"),
            detail="loop-limit returns saved tree",
        )
        # fixes cleared before the return, for every lint error of the returned list
        errs = elts[1] if len(elts) > 1 else None
        cleared = False
        blk = _block_of(r)
        for s_ in blk:
            if s_ is r:
                break
            if isinstance(s_, ast.For) and errs is not None and norm(s_.iter) == norm(errs):
                for n in walk_local(s_):
                    if isinstance(n, ast.Assign) and isinstance(n.targets[0], ast.Attribute) and n.targets[0].attr == "fixes" \
                            and isinstance(n.value, (ast.List, ast.Tuple)) and not n.value.elts \
                            and isinstance(n.targets[0].value, ast.Name) and n.targets[0].value.id in {x.id for x in ast.walk(s_.target) if isinstance(x, ast.Name)}:
                        conds = [c for c in cfg.conditions(n) if _inside(cfg.stmt_of(c[0]) or s_, s_)]
                        extra = [norm(e) for e, pol in conds if not (pol and isinstance(e, ast.Call) and last_attr(e) == "isinstance" and norm(e.args[1]) == "SQLLintError")]
                        if not extra:
                            cleared = True
        chk.require(cleared, "R18b", r, "loop-limit exit: fixes of the initial lint errors are not all cleared before returning", detail="loop-limit clears fixes")
        # the exhaustion arm must only be conditioned on fix mode (and, in the explicit form, on the pass budget)
        outer = encl[0]
        for lp in encl:
            if _inside(outer, lp):
                outer = lp
        shared = {(norm(e), pol) for e, pol in cfg.conditions(outer)}

        def is_budget_test(e) -> bool:
            if not isinstance(e, ast.Compare):
                return False
            for x in ast.walk(e):
                if isinstance(x, ast.Name):
                    for o in origins(cfg, x, r):
                        if o.kind == "expr" and any(isinstance(c, ast.Constant) and c.value == "runaway_limit" for c in ast.walk(o.expr)):
                            return True
            return False

        extra = []
        for e, pol in cfg.conditions(r):
            if (norm(e), pol) in shared:
                continue
            if pol and isinstance(e, ast.Name) and any(o.kind == "param" for o in origins(cfg, e, r)):
                continue
            if is_budget_test(e):
                continue
            extra.append(norm(e))
        chk.require(not extra, "R18b", r, f"loop-limit rollback is conditioned on more than fix mode: {extra}", detail="loop-limit arm unconditional")
    chk.require(found >= 1, "R18b", f, "no for/else exhaustion arm with a return found in the fix loop: loop-limit rollback missing", detail="loop-limit arm present")


def _inside(stmt, container) -> bool:
    p = stmt
    while p is not None:
        if p is container:
            return True
        p = getattr(p, "_parent", None)
    return False


def _inside_stmts(node, stmts) -> bool:
    return any(_inside(node, s) for s in stmts)


def _block_of(stmt):
    p = getattr(stmt, "_parent", None)
    for field in ("body", "orelse", "finalbody"):
        b = getattr(p, field, None)
        if isinstance(b, list) and stmt in b:
            return b
    return [stmt]


from ..selftest import Variant  # noqa: E402

CLI = "src/sqlfluff/cli/commands.py"
API = "src/sqlfluff/api/simple.py"

VARIANTS = [
    # behaviour-preserving refactors of the gates: must stay quiet
    Variant(
        "quiet-api-gate-as-early-return", API,
        "    should_fix = True\n    if not fix_even_unparsable:\n",
        "    should_fix = True\n    if fix_even_unparsable:\n        return result.paths[0].files[0].fix_string()[0]\n    if not fix_even_unparsable:\n",
        "QUIET", None, "the fix_even_unparsable arm returns early with the fixed string",
    ),
    Variant(
        "quiet-api-gate-count-through-local", API,
        "        total_errors, _ = result.count_tmp_prs_errors()\n        if total_errors > 0:\n",
        "        counts = result.count_tmp_prs_errors()\n        n_unfiltered = counts[0]\n        if n_unfiltered != 0:\n",
        "QUIET", None, "tuple kept whole, component 0 read through a local, != 0 instead of > 0",
    ),
    Variant(
        "quiet-lint-paths-gate-nested-ifs", LINTER,
        "                    if fix_even_unparsable or num_tmp_prs_errors == 0:\n                        linted_file.persist_tree(\n                            suffix=fixed_file_suffix, formatter=self.formatter\n                        )\n",
        "                    may_write = fix_even_unparsable or not num_tmp_prs_errors\n                    if may_write:\n                        linted_file.persist_tree(\n                            suffix=fixed_file_suffix, formatter=self.formatter\n                        )\n",
        "QUIET", None, "gate computed into a local, zero test spelled `not n`",
    ),
    Variant(
        "quiet-stdin-fixable-count-through-local", CLI,
        "    if result.num_violations(types=SQLLintError, fixable=True) > 0:\n        stdout = result.paths[0].files[0].fix_string()[0]\n",
        "    n_fixable = result.num_violations(types=SQLLintError, fixable=True)\n    if n_fixable > 0:\n        the_file = result.paths[0].files[0]\n        stdout = the_file.fix_string()[0]\n",
        "QUIET", None, "fixable count and the file held in locals",
    ),
    Variant("lint_paths-gate-dropped", LINTER,
            "                    if fix_even_unparsable or num_tmp_prs_errors == 0:\n                        linted_file.persist_tree(",
            "                    if True:\n                        linted_file.persist_tree(", "R18a", "lint_paths"),
    Variant("lint_paths-filtered-count", LINTER,
            "                        types=TMP_PRS_ERROR_TYPES,\n                        filter_ignore=False,\n                        filter_warning=False,\n                    )\n                    if fix_even_unparsable",
            "                        types=TMP_PRS_ERROR_TYPES,\n                        filter_warning=False,\n                    )\n                    if fix_even_unparsable", "R18a", "lint_paths"),
    Variant("lint_paths-only-parse-errors", LINTER,
            "                    num_tmp_prs_errors = linted_file.num_violations(\n                        types=TMP_PRS_ERROR_TYPES,",
            "                    num_tmp_prs_errors = linted_file.num_violations(\n                        types=SQLParseError,", "R18a", "lint_paths"),
    Variant("lint_paths-wrong-flag", LINTER,
            "                    if fix_even_unparsable or num_tmp_prs_errors == 0:",
            "                    if fix or num_tmp_prs_errors == 0:", "R18a", "lint_paths"),
    Variant("stdin-fix-before-discard", CLI,
            "    exit_code = _handle_unparsable(fix_even_unparsable, exit_code, result, formatter)\n\n    if result.num_violations(types=SQLLintError, fixable=True) > 0:\n        stdout = result.paths[0].files[0].fix_string()[0]\n    else:\n        stdout = stdin\n",
            "    if result.num_violations(types=SQLLintError, fixable=True) > 0:\n        stdout = result.paths[0].files[0].fix_string()[0]\n    else:\n        stdout = stdin\n\n    exit_code = _handle_unparsable(fix_even_unparsable, exit_code, result, formatter)\n",
            "R18a", "_stdin_fix"),
    Variant("stdin-fix-unconditional", CLI,
            "    if result.num_violations(types=SQLLintError, fixable=True) > 0:\n        stdout = result.paths[0].files[0].fix_string()[0]",
            "    if True:\n        stdout = result.paths[0].files[0].fix_string()[0]", "R18a", "_stdin_fix"),
    Variant("paths-fix-no-discard", CLI,
            "    exit_code = _handle_unparsable(fix_even_unparsable, exit_code, result, formatter)\n\n    # NB: We filter to linting violations here",
            "    # NB: We filter to linting violations here", "R18a", "do_fixes"),
    Variant("handle-unparsable-skips-discard-when-all-suppressed", CLI,
            "    linting_result.discard_fixes_for_lint_errors_in_files_with_tmp_or_prs_errors()\n",
            "    if num_filtered_errors:\n        linting_result.discard_fixes_for_lint_errors_in_files_with_tmp_or_prs_errors()\n", "R18a", None),
    Variant("discard-uses-filtered-map", LDIR,
            "        self._unfiltered_tmp_prs_errors_map[file.path] = _unfiltered_tmp_prs_errors\n",
            "        self._unfiltered_tmp_prs_errors_map[file.path] = file.num_violations(\n            types=TMP_PRS_ERROR_TYPES\n        )\n", "R18c", None),
    Variant("discard-only-first-violation", LDIR,
            "                        if isinstance(violation, SQLLintError):\n                            violation.fixes = []",
            "                        if isinstance(violation, SQLLintError) and violation.fixable:\n                            violation.fixes = []\n                            break", "R18c", None),
    Variant("discard-objects-dropped", LDIR,
            "                        if isinstance(violation, SQLLintError):\n                            violation.fixes = []",
            "                        pass", "R18c", None),
    Variant("loop-limit-returns-current-tree", LINTER,
            "                    return save_tree, initial_linting_errors, ignore_mask, rule_timings",
            "                    return tree, initial_linting_errors, ignore_mask, rule_timings", "R18b", "lint_fix_parsed"),
    Variant("loop-limit-keeps-fixes", LINTER,
            "                    for violation in initial_linting_errors:\n                        if isinstance(violation, SQLLintError):\n                            violation.fixes = []\n",
            "", "R18b", "lint_fix_parsed"),
    Variant("save-tree-taken-inside-loop", LINTER,
            "                changed = False\n\n                if is_first_linter_pass():",
            "                changed = False\n                save_tree = tree\n\n                if is_first_linter_pass():", "R18b", "lint_fix_parsed"),
    Variant("persist-tree-no-self-gate", LFILE,
            "        if self.num_violations(fixable=True, filter_warning=False) > 0:\n            write_buff, success = self.fix_string()",
            "        if True:\n            write_buff, success = self.fix_string()", "R18d", "persist_tree"),
    Variant("api-fix-filtered-gate", API,
            "        total_errors, _ = result.count_tmp_prs_errors()\n        if total_errors > 0:",
            "        _, total_errors = result.count_tmp_prs_errors()\n        if total_errors > 0:", "R18a", "fix", "the original defect F2"),
    Variant("api-fix-new-sink-ungated", API,
            "    if should_fix and result.num_violations(types=SQLLintError, fixable=True) > 0:\n        sql = result.paths[0].files[0].fix_string()[0]\n    return sql",
            "    if result.num_violations(types=SQLLintError, fixable=True) > 0:\n        sql = result.paths[0].files[0].fix_string()[0]\n    return sql", "R18a", "fix"),
]
