"""C02 — parsing is lossless: tree leaves are exactly the lexed tokens (partial claim).

The property is an equality between two run-time sequences.  The index arithmetic of the ~20
``match`` implementations and of ``MatchResult.apply`` (child slices tile the parent slice; "a
match returned for ``idx`` starts at ``idx``") is value-level and is NOT decided here.  Decided
are the structural clauses around that arithmetic without which no implementation of it could be
lossless:

R02a  hand-over.  The token sequence travels whole from the lexer to the root match:
      ``parse_rendered`` gives ``_parse_tokens`` the first element of ``_lex_templated_file``'s
      result (whose only filter is decided by R01b); ``_parse_tokens`` gives ``<parser>.parse`` its
      ``tokens`` parameter and ``Parser.parse`` gives ``root_parse`` its ``segments`` parameter —
      as they are or through ``tuple()`` / ``list()`` / an identity comprehension (unfiltered, or
      dropping nothing but ``is_meta`` segments, which the property leaves out of the
      comparison), never a slice, another filtered view or a list mutated on the way; the tree handed back at each
      level is the callee's result, and the ``ParsedVariant`` stores that tree and those errors.
R02b  root assembly.  Every ``return`` of ``BaseFileSegment.root_parse`` builds the file segment
      from pieces that tile the ``segments`` parameter symbolically: reading the concatenation
      left to right, each piece ends at the index expression the next one starts at (same local
      with the same reaching definitions, or the same ``<match>.matched_slice.stop``), the first
      starts at 0 and the last ends at the end.  Pieces understood: slices of the parameter and
      of locals holding such slices, ``<match>.apply(<parameter>)`` (covers from the index the
      match was started at to ``<match>.matched_slice.stop`` — the contract of ``apply``, assumed),
      one-element tuples wrapping a piece in a segment constructor, ``+``.  A local known to be
      empty on the path (``if not <local>``) contributes the equality of its two bounds.  The
      root match is limited to exactly the prefix that ends where the trailing piece starts.
      A piece lying after the end of the root match and before the trailing non-code is, on its
      path, known empty, the non-code prefix cut off by an ``is_code`` scan, or wrapped in an
      ``UnparsableSegment`` (the unmatched remainder is never attached bare).
R02c  PRS funnel.  In ``_parse_tokens`` every segment yielded by ``<parsed>.iter_unparsables()``
      is turned into a ``SQLParseError(segment=<it>)`` appended to the list returned next to the
      tree, on every path through the loop; a tree is only returned after that loop.  Every
      definition of ``iter_unparsables`` in the tree is either the unfiltered traversal
      (``for s in self.segments: yield from s.iter_unparsables()``) or ``yield self`` in
      ``UnparsableSegment``.
R02d  materialisation.  Every ``from_result_segments`` (the hook ``MatchResult.apply`` builds
      nodes with) passes its ``result_segments`` whole as ``segments=`` or — the raw form — copies
      ``raw`` and ``pos_marker`` from one and the same element of it.
R02e  greedy give-up arms.  (1) An ``UnparsableSegment`` child result built inline never reaches
      past the result it is put into: its slice stops at the same index expression as the parent's
      (otherwise ``apply`` emits the tokens inside the child and the caller continues before
      them — duplication).  (2) In ``Sequence.match`` a result whose slice stops at the
      look-ahead bound (``len(segments)`` / ``trim_to_terminator(...)``) rather than at the end
      of an element match claims tokens nothing matched; it must be, or contain up to that very
      bound, an ``UnparsableSegment`` result — otherwise unmatched code sits in the tree without
      a PRS error.  (3) The forward skip over non-code that gives an unparsable section its start
      begins at a position of the match, not one moved by a constant (a stepped-over token
      would be neither matched nor unparsable).

Not decided: ``MatchResult.apply``'s loop, ``append``/``wrap`` arithmetic, the matchers' own
slices, that texts and positions of re-typed raw segments equal the lexed ones beyond the copy in
R02d, the Rust parser path.
"""

from __future__ import annotations

import ast
from typing import Dict, List, Optional, Tuple

from ..cfg import Branch, atoms, cfg_of, names_in, origins
from ..flowutil import attr_chain, callee, for_origin, mutations_of, must_pass, param_origin, sole_expr_origin
from ..idioms import _const_index, component_origins
from ..index import AnalysisError, FuncNode, arg_of, call_name, calls_in, const, enclosing_class, enclosing_function, kwarg, last_attr, norm, short, walk_local

LINTER = "src/sqlfluff/core/linter/linter.py"
PARSER = "src/sqlfluff/core/parser/parser.py"
FILESEG = "src/sqlfluff/core/parser/segments/file.py"
SEGBASE = "src/sqlfluff/core/parser/segments/base.py"
SEQ = "src/sqlfluff/core/parser/grammar/sequence.py"
COMMON = "src/sqlfluff/core/linter/common.py"
GRAMMAR_PREFIXES = ("src/sqlfluff/core/parser/grammar/", "src/sqlfluff/core/parser/match_algorithms.py")
IDENTITY_WRAPPERS = ("tuple", "list")


# ---------------------------------------------------------------------------
# identity flow ("the value is handed on whole")
# ---------------------------------------------------------------------------
def _peel(e: ast.AST) -> ast.AST:
    """Strip wrappers that keep every element in order."""
    while True:
        if isinstance(e, ast.Call) and call_name(e) in IDENTITY_WRAPPERS and len(e.args) == 1 and not e.keywords:
            e = e.args[0]
            continue
        if isinstance(e, ast.Call) and call_name(e) in ("cast", "typing.cast") and len(e.args) == 2:
            e = e.args[1]
            continue
        if isinstance(e, (ast.ListComp, ast.GeneratorExp)) and len(e.generators) == 1:
            g = e.generators[0]
            if isinstance(g.target, ast.Name) and isinstance(e.elt, ast.Name) and e.elt.id == g.target.id and all(_drops_only_metas(t, g.target.id) for t in g.ifs):
                e = g.iter
                continue
        return e


def _drops_only_metas(test: ast.AST, var: str) -> bool:
    """``not <var>.is_meta``: the filter can only drop zero-width meta segments, which the
    property statement leaves out of the comparison."""
    fs = atoms(test, True)
    return len(fs) == 1 and fs[0][1] is False and isinstance(fs[0][0], ast.Attribute) and fs[0][0].attr == "is_meta" and isinstance(fs[0][0].value, ast.Name) and fs[0][0].value.id == var


def _whole_sources(cfg, e: ast.AST, at, _seen=None) -> List[Tuple[str, object, tuple]]:
    """Leaves the value of ``e`` is taken from, looking through locals and identity wrappers:
    ('param', name, ()), ('expr', node, path), ('other', node, path)."""
    _seen = _seen if _seen is not None else set()
    e = _peel(e)
    # ``pair[0]`` of a local holding a call result / a display is the same fact as the first
    # target of ``a, b = <that value>``: read it as a component (path), like tuple unpacking
    component = _const_index(e) is not None and isinstance(e.value, ast.Name) and param_origin(cfg, e.value, at) is None
    if isinstance(e, ast.Name) or component:
        out = []
        for o in component_origins(cfg, e, at):
            if o.kind == "param":
                out.append(("param", o.expr.arg, o.path))
            elif o.kind == "expr":
                out += _split_display(cfg, o.expr, tuple(o.path), o.stmt, _seen)
            else:
                out.append(("other", o.expr, o.path))
        return out
    return [("expr", e, ())]


def _split_display(cfg, e: ast.AST, path: tuple, at, _seen) -> List[Tuple[str, object, tuple]]:
    """Sources of component ``path`` of ``e``: ``a if c else b`` is either arm, and a component of a
    tuple display is that element (``x, y = f() if c else (None, [])`` reads like the if/else)."""
    if isinstance(e, ast.IfExp):
        return _split_display(cfg, e.body, path, at, _seen) + _split_display(cfg, e.orelse, path, at, _seen)
    if path and isinstance(e, (ast.Tuple, ast.List)) and path[0] < len(e.elts) and not any(isinstance(x, ast.Starred) for x in e.elts[: path[0] + 1]):
        return _split_display(cfg, e.elts[path[0]], path[1:], at, _seen)
    if not path:
        p = _peel(e)
        if (p is not e or isinstance(p, ast.Name)) and id(p) not in _seen:
            _seen.add(id(p))
            return _whole_sources(cfg, p, at, _seen)
    return [("expr", e, path)]


def _describe(srcs) -> str:
    return ", ".join((f"parameter {x}" if k == "param" else short(x, 50) if isinstance(x, ast.AST) else str(x)) + "".join(f"[{i}]" for i in p) for k, x, p in srcs) or "nothing"


def _is_none(e) -> bool:
    return isinstance(e, ast.Constant) and e.value is None


def _first_param(f) -> Optional[str]:
    ps = [a.arg for a in f.args.posonlyargs + f.args.args if a.arg not in ("self", "cls")]
    return ps[0] if ps else None


# ---------------------------------------------------------------------------
# R02a
# ---------------------------------------------------------------------------
def _r02a(chk, repo) -> None:
    # ---- parse_rendered -> _parse_tokens ---------------------------------------
    pr = repo.fn(LINTER, "Linter.parse_rendered")
    cfg = cfg_of(pr)
    pt_calls = [c for c in calls_in(pr) if last_attr(c) == "_parse_tokens"]
    chk.count("R02a.parse_tokens_calls", len(pt_calls))
    chk.floor("R02a.parse_tokens_calls", 1)
    pt = repo.fn(LINTER, "Linter._parse_tokens")
    tparam = _first_param(pt)
    for c in pt_calls:
        a = arg_of(c, 0, tparam)
        srcs = _whole_sources(cfg, a, cfg.stmt_of(c)) if a is not None else []
        good = bool(srcs) and all(k == "expr" and isinstance(x, ast.Call) and last_attr(x) == "_lex_templated_file" and p == (0,) for k, x, p in srcs)
        chk.require(
            good, "R02a", c,
            f"_parse_tokens is given {_describe(srcs)}, not the whole token list returned by _lex_templated_file: tokens would be missing from (or foreign to) the tree",
            detail="parse_rendered: lexed tokens handed to _parse_tokens whole",
        )
        if isinstance(a, ast.Name):
            for k, node in mutations_of(pr, a.id):
                chk.fail("R02a", node, f"the lexed token list is changed in place ({k}) before it is parsed", detail=f"parse_rendered: token list {k}")
    # the variant stores that tree and those errors
    pv = repo.cls(COMMON, "ParsedVariant")
    fields = [s.target.id for s in pv.body if isinstance(s, ast.AnnAssign) and isinstance(s.target, ast.Name)]
    cons = [c for c in calls_in(pr) if (callee(repo, c) or (None, None))[1] is pv]
    chk.count("R02a.parsed_variant_constructions", len(cons))
    chk.floor("R02a.parsed_variant_constructions", 1)
    for c in cons:
        st = cfg.stmt_of(c)
        for fname, idx, empty_ok in (("tree", 0, False), ("parsing_violations", 1, True)):
            a = arg_of(c, fields.index(fname), fname) if fname in fields else None
            srcs = _whole_sources(cfg, a, st) if a is not None else []
            good = any(k == "expr" and isinstance(x, ast.Call) and last_attr(x) == "_parse_tokens" and p == (idx,) for k, x, p in srcs)
            for k, x, p in srcs:
                if k == "expr" and isinstance(x, ast.Call) and last_attr(x) == "_parse_tokens" and p == (idx,):
                    continue
                if k == "expr" and not p and (_is_none(x) or (empty_ok and isinstance(x, ast.List) and not x.elts)):
                    continue
                good = False
            chk.require(good, "R02a", c, f"ParsedVariant.{fname} is {_describe(srcs)}, not element {idx} of _parse_tokens' result", detail=f"parse_rendered: ParsedVariant.{fname} from _parse_tokens")

    # ---- _parse_tokens -> parser.parse ------------------------------------------
    cfg = cfg_of(pt)
    pcalls = []
    for c in calls_in(pt):
        if last_attr(c) == "parse" and isinstance(c.func, ast.Attribute) and isinstance(c.func.value, ast.Name):
            os_ = origins(cfg, c.func.value, cfg.stmt_of(c))
            if os_ and all(o.kind == "expr" and isinstance(o.expr, ast.Call) and last_attr(o.expr) in ("Parser", "RustParser") for o in os_):
                pcalls.append(c)
    chk.count("R02a.parser_parse_calls", len(pcalls))
    chk.floor("R02a.parser_parse_calls", 1)
    pp = repo.fn(PARSER, "Parser.parse")
    sparam = _first_param(pp)
    for c in pcalls:
        a = arg_of(c, 0, sparam)
        srcs = _whole_sources(cfg, a, cfg.stmt_of(c)) if a is not None else []
        good = bool(srcs) and all(k == "param" and x == tparam and not p for k, x, p in srcs)
        chk.require(
            good, "R02a", c,
            f"the parser is given {_describe(srcs)}, not the whole '{tparam}' parameter of _parse_tokens",
            detail="_parse_tokens: tokens handed to parser.parse whole",
        )
    for k, node in mutations_of(pt, tparam) if tparam else []:
        chk.fail("R02a", node, f"_parse_tokens changes its token list in place ({k})", detail=f"_parse_tokens: token list {k}")
    rebinds = [d for n in cfg.nodes for d in cfg.reaching().gen.get(n, []) if d.name == tparam and d.kind != "param"]
    for d in rebinds:
        srcs = _whole_sources(cfg, d.value, d.stmt) if d.kind == "assign" and not d.path else []
        if not (srcs and all(k == "param" and x == tparam and not p for k, x, p in srcs)):
            chk.fail("R02a", d.stmt, f"_parse_tokens rebinds '{tparam}' to {short(d.value, 50) if isinstance(d.value, ast.AST) else d.kind}", detail="_parse_tokens: token parameter rebound")
    rets = [r for r in walk_local(pt) if isinstance(r, ast.Return) and isinstance(r.value, ast.Tuple) and len(r.value.elts) == 2]
    chk.count("R02a.parse_tokens_returns", len(rets))
    chk.floor("R02a.parse_tokens_returns", 2)
    n_tree = 0
    for r in rets:
        e = r.value.elts[0]
        if _is_none(e):
            continue
        srcs = _whole_sources(cfg, e, r)
        good = bool(srcs) and all(k == "expr" and not p and any(x is c for c in pcalls) for k, x, p in srcs)
        n_tree += 1
        chk.require(good, "R02a", r, f"_parse_tokens returns {_describe(srcs)} as the tree, not the result of parser.parse", detail="_parse_tokens: returned tree is parser.parse's result")
    chk.require(n_tree >= 1, "R02a", pt, "_parse_tokens never returns a tree", detail="_parse_tokens returns a tree")

    # ---- Parser.parse -> root_parse ----------------------------------------------
    cfg = cfg_of(pp)
    rcalls = [c for c in calls_in(pp) if last_attr(c) == "root_parse"]
    chk.count("R02a.root_parse_calls", len(rcalls))
    chk.floor("R02a.root_parse_calls", 1)
    rp = repo.fn(FILESEG, "BaseFileSegment.root_parse")
    rparam = _first_param(rp)
    for c in rcalls:
        a = arg_of(c, 0, rparam)
        srcs = _whole_sources(cfg, a, cfg.stmt_of(c)) if a is not None else []
        good = bool(srcs) and all(k == "param" and x == sparam and not p for k, x, p in srcs)
        chk.require(good, "R02a", c, f"root_parse is given {_describe(srcs)}, not the whole '{sparam}' parameter of Parser.parse", detail="Parser.parse: segments handed to root_parse whole")
    for k, node in mutations_of(pp, sparam) if sparam else []:
        chk.fail("R02a", node, f"Parser.parse changes its segment sequence in place ({k})", detail=f"Parser.parse: segments {k}")
    rets = [r for r in walk_local(pp) if isinstance(r, ast.Return) and r.value is not None and not _is_none(r.value)]
    chk.count("R02a.parser_parse_returns", len(rets))
    chk.floor("R02a.parser_parse_returns", 1)
    for r in rets:
        srcs = _whole_sources(cfg, r.value, r)
        good = bool(srcs) and all(k == "expr" and not p and any(x is c for c in rcalls) for k, x, p in srcs)
        chk.require(good, "R02a", r, f"Parser.parse returns {_describe(srcs)}, not the file segment built by root_parse", detail="Parser.parse returns root_parse's result")
    # nobody else starts a root parse with another sequence
    for m in repo.iter_modules("src/sqlfluff/"):
        if "root_parse" not in m.text or m.relpath in (PARSER, FILESEG) or m.relpath.endswith("rust_parser.py"):
            continue
        for c in ast.walk(m.tree):
            if isinstance(c, ast.Call) and last_attr(c) == "root_parse":
                chk.fail("R02a", c, "root_parse is started outside Parser.parse: the token sequence does not come through the checked hand-over", detail=f"root_parse called in {m.relpath}")


# ---------------------------------------------------------------------------
# R02b: symbolic tiling
# ---------------------------------------------------------------------------
class _Unknown(Exception):
    pass


ZERO, END = ("zero",), ("end",)


class _Alt:
    """One way a value can be put together: ordered pieces + equalities known on its paths."""

    def __init__(self, pieces, eqs=(), limits=()):
        self.pieces = list(pieces)  # (lo, hi, text)
        self.eqs = list(eqs)  # (point, point)
        self.limits = list(limits)  # (match start point, limit point of the match input, text)


class _Tiler:
    def __init__(self, cfg, func, pname: str):
        self.cfg, self.func, self.pname = cfg, func, pname
        self.rd = cfg.reaching()
        self.piece_expr = {}  # (lo, hi) -> (slice expression, statement)

    # -- points -----------------------------------------------------------------
    def vkey(self, name: ast.Name, at):
        ds = self.rd.defs_at(at, name.id)
        return ("v", name.id, frozenset(id(d.node) for d in ds))

    def match_call(self, m: ast.Name, at) -> Optional[ast.Call]:
        os_ = origins(self.cfg, m, at)
        if len(os_) == 1 and os_[0].kind in ("expr", "with") and not os_[0].path and isinstance(os_[0].expr, ast.Call) and last_attr(os_[0].expr) == "match":
            return os_[0].expr
        return None

    def point(self, e: ast.AST, at):
        if isinstance(e, ast.Constant) and e.value == 0:
            return ZERO
        if isinstance(e, ast.Name):
            os_ = origins(self.cfg, e, at)
            if len(os_) == 1 and os_[0].kind == "expr" and not os_[0].path and not isinstance(os_[0].expr, (ast.Constant, ast.Name)):
                inner = os_[0].expr
                ch = self._slice_stop_start(inner, os_[0].stmt)
                if ch is not None:
                    return ch
                # a local (or a plain copy of it) with one defining expression: that expression
                # identifies the value, whatever the local is called
                return ("o", id(inner), e.id)[:2] + (norm(inner)[:40],)
            return self.vkey(e, at)
        ch = self._slice_stop_start(e, at)
        if ch is not None:
            return ch
        if isinstance(e, ast.Call) and call_name(e) == "len" and len(e.args) == 1 and param_origin(self.cfg, e.args[0], at) == self.pname:
            return END
        return ("x", norm(e))

    def _slice_stop_start(self, e, at):
        c = attr_chain(e)
        if c is not None and len(c) == 3 and c[1] == "matched_slice" and c[2] in ("stop", "start"):
            base = e.value.value
            mc = self.match_call(base, at)
            if c[2] == "stop":
                return ("stop", self.vkey(base, at))
            if mc is not None and len(mc.args) >= 2:
                return self.point(mc.args[1], self.cfg.stmt_of(mc))
        return None

    # -- values -----------------------------------------------------------------
    def alts(self, e: ast.AST, at) -> List[_Alt]:
        if isinstance(e, ast.Name):
            if param_origin(self.cfg, e, at) == self.pname:
                return [_Alt([(ZERO, END, self.pname)])]
            out: List[_Alt] = []
            ds = self.rd.defs_at(at, e.id)
            if not ds:
                raise _Unknown(f"'{e.id}' has no definition")
            for d in ds:
                val, path = d.value, d.path
                while path and isinstance(val, (ast.Tuple, ast.List)) and isinstance(path[0], int) and path[0] < len(val.elts):
                    val, path = val.elts[path[0]], path[1:]
                if d.kind != "assign" or path:
                    raise _Unknown(f"'{e.id}' is bound by {d.kind}" + (" (unpacking of a non-display)" if path else ""))
                eqs = self.path_eqs(d.stmt)
                for a in self.alts(val, d.stmt):
                    out.append(_Alt(a.pieces, a.eqs + eqs, a.limits))
            return out
        if isinstance(e, ast.BinOp) and isinstance(e.op, ast.Add):
            out = []
            for l in self.alts(e.left, at):
                for r in self.alts(e.right, at):
                    out.append(_Alt(l.pieces + r.pieces, l.eqs + r.eqs, l.limits + r.limits))
            return out
        if isinstance(e, ast.Subscript) and isinstance(e.slice, ast.Slice):
            if e.slice.step is not None:
                raise _Unknown("stepped slice")
            out = []
            for b in self.alts(e.value, at):
                if len(b.pieces) != 1:
                    raise _Unknown(f"slice of a concatenation: {short(e, 50)}")
                lo, hi, txt = b.pieces[0]
                root = lo == ZERO
                nlo, nhi = lo, hi
                if e.slice.lower is not None:
                    p = self.point(e.slice.lower, at)
                    if p[0] == "x" and isinstance(e.slice.lower, (ast.UnaryOp, ast.Constant)):
                        raise _Unknown(f"constant / negative slice bound in {short(e, 50)}")
                    nlo = p if root else ("rel", lo, p)
                if e.slice.upper is not None:
                    p = self.point(e.slice.upper, at)
                    if p[0] == "x" and isinstance(e.slice.upper, (ast.UnaryOp, ast.Constant)):
                        raise _Unknown(f"constant / negative slice bound in {short(e, 50)}")
                    nhi = p if root else ("rel", lo, p)
                self.piece_expr[(nlo, nhi)] = (e, at)
                out.append(_Alt([(nlo, nhi, short(e, 40))], b.eqs, b.limits))
            return out
        if isinstance(e, ast.Tuple):
            cur = [_Alt([])]
            for el in e.elts:
                el_at = at
                if isinstance(el, ast.Name):
                    os_ = origins(self.cfg, el, at)
                    if len(os_) == 1 and os_[0].kind == "expr" and not os_[0].path:
                        el, el_at = os_[0].expr, os_[0].stmt
                if isinstance(el, ast.Starred):
                    sub = self.alts(el.value, at)
                elif isinstance(el, ast.Call) and (el.args or kwarg(el, "segments") is not None) and last_attr(el)[:1].isupper():
                    inner = kwarg(el, "segments") or el.args[0]
                    sub = [_Alt([(p[0], p[1], f"{last_attr(el)}({p[2]})") for p in a.pieces], a.eqs, a.limits) for a in self.alts(inner, el_at)]
                    for a in sub:
                        if len(a.pieces) != 1:
                            raise _Unknown(f"constructor over a concatenation: {short(el, 50)}")
                else:
                    raise _Unknown(f"tuple element {short(el, 50)}")
                cur = [_Alt(c.pieces + s.pieces, c.eqs + s.eqs, c.limits + s.limits) for c in cur for s in sub]
            return cur
        if isinstance(e, ast.Call) and call_name(e) in IDENTITY_WRAPPERS and len(e.args) == 1:
            return self.alts(e.args[0], at)
        if isinstance(e, ast.Call) and last_attr(e) == "apply" and isinstance(e.func, ast.Attribute) and isinstance(e.func.value, ast.Name):
            m = e.func.value
            mc = self.match_call(m, at)
            if mc is None or len(mc.args) < 2:
                raise _Unknown(f"apply() on something that is not the result of one .match(...) call: {short(e, 50)}")
            target = e.args[0] if e.args else kwarg(e, "segments")
            ta = self.alts(target, at) if target is not None else []
            if len(ta) != 1 or len(ta[0].pieces) != 1 or ta[0].pieces[0][0] != ZERO:
                raise _Unknown("apply() target is not the segments parameter (or a prefix of it)")
            mst = self.cfg.stmt_of(mc)
            ia = self.alts(mc.args[0], mst)
            if len(ia) != 1 or len(ia[0].pieces) != 1 or ia[0].pieces[0][0] != ZERO:
                raise _Unknown("the matched sequence is not the segments parameter or a prefix of it")
            start = self.point(mc.args[1], mst)
            stop = ("stop", self.vkey(m, at))
            return [_Alt([(start, stop, short(e, 40))], [], [(start, ia[0].pieces[0][1], short(mc, 60))])]
        raise _Unknown(f"cannot interpret {short(e, 60)}")

    def path_eqs(self, stmt) -> List[tuple]:
        """Equalities known at ``stmt``: a local slice known to be empty has equal bounds."""
        eqs = []
        for e, pol in self.cfg.conditions(stmt):
            e = _known_empty(e, pol)
            if e is None:
                continue
            try:
                for a in self.alts(e, self.cfg.stmt_of(e)):
                    if len(a.pieces) == 1:
                        eqs.append((a.pieces[0][0], a.pieces[0][1]))
            except _Unknown:
                pass
        return eqs


def _known_empty(e, pol) -> Optional[ast.Name]:
    """The local a branch condition shows to be empty: ``not X``, ``len(X) == 0`` taken, or
    ``X`` / ``len(X) > 0`` / ``len(X) != 0`` / ``len(X) >= 1`` not taken."""
    if isinstance(e, ast.UnaryOp) and isinstance(e.op, ast.Not):
        e, pol = e.operand, not pol
    if isinstance(e, ast.Name):
        return None if pol else e
    if isinstance(e, ast.Compare) and len(e.ops) == 1 and isinstance(e.left, ast.Call) and call_name(e.left) == "len" and len(e.left.args) == 1 and isinstance(e.left.args[0], ast.Name):
        op, k = e.ops[0], const(e.comparators[0])
        empty_when_true = (isinstance(op, ast.Eq) and k == 0) or (isinstance(op, ast.Lt) and k == 1) or (isinstance(op, ast.LtE) and k == 0)
        empty_when_false = (isinstance(op, ast.Gt) and k == 0) or (isinstance(op, ast.NotEq) and k == 0) or (isinstance(op, ast.GtE) and k == 1)
        if (pol and empty_when_true) or (not pol and empty_when_false):
            return e.left.args[0]
    return None


def _find(uf, x):
    while uf.get(x, x) != x:
        x = uf[x]
    return x


def _show_point(p) -> str:
    if p == ZERO:
        return "0"
    if p == END:
        return "<end>"
    if p[0] == "v":
        return p[1]
    if p[0] == "stop":
        return f"{p[1][1]}.matched_slice.stop"
    if p[0] == "o":
        return p[2]
    if p[0] == "rel":
        return f"{_show_point(p[1])}+{_show_point(p[2])}"
    return p[1]


def _r02b(chk, repo) -> None:
    rp = repo.fn(FILESEG, "BaseFileSegment.root_parse")
    cfg = cfg_of(rp)
    pname = _first_param(rp)
    tiler = _Tiler(cfg, rp, pname)
    rets = [r for r in walk_local(rp) if isinstance(r, ast.Return) and r.value is not None]
    chk.count("R02b.root_parse_returns", len(rets))
    chk.floor("R02b.root_parse_returns", 2)
    n_alts = n_apply = n_rem = 0
    for r in rets:
        v = r.value
        vs = [o.expr for o in origins(cfg, v, r)] if isinstance(v, ast.Name) else [v]
        for c in vs:
            if not (isinstance(c, ast.Call) and (call_name(c) == "cls" or last_attr(c)[:1].isupper())):
                raise AnalysisError(f"R02b: root_parse returns {short(c, 60)}, not a segment construction; re-confirm the anchor by hand")
            a0 = kwarg(c, "segments") or (c.args[0] if c.args else None)
            if a0 is None:
                chk.fail("R02b", c, "the file segment is built without children", detail="file segment has children")
                continue
            try:
                alts = tiler.alts(a0, cfg.stmt_of(c))
            except _Unknown as u:
                if any(isinstance(x, ast.comprehension) and x.ifs for x in ast.walk(a0)):
                    chk.fail("R02b", c, f"the children of the file segment are a filtered view ({short(a0, 60)}): tokens can be left out", detail="file segment children filtered")
                    continue
                raise AnalysisError(f"R02b: cannot interpret the children of the file segment in root_parse ({u}); the shape changed, re-confirm by hand")
            here = tiler.path_eqs(cfg.stmt_of(c))
            for alt in alts:
                n_alts += 1
                uf: Dict[tuple, tuple] = {}
                alt.eqs = alt.eqs + here
                for x, y in alt.eqs:
                    rx, ry = _find(uf, x), _find(uf, y)
                    if rx != ry:
                        uf[rx] = ry
                same = lambda x, y: _find(uf, x) == _find(uf, y)  # noqa: E731
                ps = alt.pieces
                problems = []
                if not ps:
                    problems.append("no pieces")
                else:
                    if not same(ps[0][0], ZERO):
                        problems.append(f"the first piece {ps[0][2]} starts at {_show_point(ps[0][0])}, not at 0")
                    for (l1, h1, t1), (l2, h2, t2) in zip(ps, ps[1:]):
                        if not same(h1, l2):
                            problems.append(f"{t1} ends at {_show_point(h1)} but the next piece {t2} starts at {_show_point(l2)}")
                    if not same(ps[-1][1], END):
                        problems.append(f"the last piece {ps[-1][2]} ends at {_show_point(ps[-1][1])}, not at the end of the sequence")
                    for start, limit, txt in alt.limits:
                        n_apply += 1
                        tail = [p for p in ps if p[1] == END and p[0] != ZERO]
                        if tail and not same(limit, tail[-1][0]):
                            problems.append(f"the root match {txt} may consume tokens up to {_show_point(limit)} while the trailing piece {tail[-1][2]} starts at {_show_point(tail[-1][0])}")
                # pieces between the end of the root match and the trailing non-code: tokens the
                # root grammar did not match
                k = max((i for i, p in enumerate(ps) if p[1][0] == "stop"), default=None)
                if k is not None:
                    for lo, hi, txt in ps[k + 1:]:
                        if hi == END or _find(uf, hi) == _find(uf, END):
                            break
                        n_rem += 1
                        ok = txt.startswith("UnparsableSegment(") or same(lo, hi) or _non_code_prefix(tiler, cfg, rp, (lo, hi))
                        chk.require(
                            ok, "R02b", c,
                            f"the piece {txt} lies after the end of the root match, is not known to be empty on this path, is not the non-code prefix cut off by an "
                            "'is_code' scan and is not wrapped in an UnparsableSegment: code the root grammar did not match sits in the file segment without a PRS error",
                            detail="root_parse: unmatched remainder is empty, non-code or wrapped as unparsable" if ok else f"root_parse: unmatched remainder piece {_stable(txt)} is bare",
                        )
                desc = " + ".join(f"[{_show_point(l)}:{_show_point(h)}]" for l, h, _ in ps)
                chk.require(
                    not problems, "R02b", c,
                    "the children of the file segment do not tile the token sequence: " + "; ".join(problems) + f" (pieces {desc}); tokens are lost or duplicated at the root",
                    detail="root_parse: " + ("; ".join(_stable(p) for p in problems) if problems else f"pieces tile the sequence: {desc}"),
                )
                chk.sample({"rule": "R02b", "site": f"{FILESEG}:{c.lineno}", "pieces": desc, "equalities": [f"{_show_point(x)}=={_show_point(y)}" for x, y in alt.eqs]})
    chk.count("R02b.assemblies_checked", n_alts)
    chk.floor("R02b.assemblies_checked", 3)
    chk.count("R02b.root_match_limits_checked", n_apply)
    chk.floor("R02b.root_match_limits_checked", 1)
    chk.count("R02b.unmatched_remainder_pieces", n_rem)
    chk.floor("R02b.unmatched_remainder_pieces", 2)


def _non_code_prefix(tiler, cfg, f, key) -> bool:
    """The piece is ``X[:i]`` where ``i`` is the index variable of a scan over ``X`` from its first
    element (``for i in range(len(X))`` or ``for i, s in enumerate(X)``) that stops (``break``) at
    the first element with ``is_code``: everything before it is non-code.  The element tested is
    ``X[i]``, the element variable of ``enumerate``, or a local holding one of them; next to the
    test the loop body only binds locals."""
    got = tiler.piece_expr.get(key)
    if got is None:
        return False
    e, at = got
    if e.slice.lower is not None or not isinstance(e.slice.upper, ast.Name) or not isinstance(e.value, ast.Name):
        return False
    i, x = e.slice.upper.id, e.value.id
    loops = []
    for d in cfg.reaching().defs_at(at, i):
        if d.kind == "for":
            loops.append(d.stmt)
        elif not (d.kind == "assign" and const(d.value) == 0):
            return False
    if not loops:
        return False
    for l in loops:
        l = l if isinstance(l, ast.For) else getattr(l, "node", l)
        if not isinstance(l, ast.For) or l.orelse:
            return False
        it = l.iter
        elem_var = None
        if isinstance(it, ast.Call) and call_name(it) == "range" and len(it.args) == 1 and not it.keywords and norm(it.args[0]) == f"len({x})":
            if not (isinstance(l.target, ast.Name) and l.target.id == i):
                return False
        elif isinstance(it, ast.Call) and call_name(it) == "enumerate" and len(it.args) == 1 and not it.keywords and norm(it.args[0]) == x:
            tg = l.target
            if not (isinstance(tg, ast.Tuple) and len(tg.elts) == 2 and all(isinstance(n, ast.Name) for n in tg.elts) and tg.elts[0].id == i and tg.elts[1].id != i):
                return False
            elem_var = tg.elts[1].id
        else:
            return False
        if not l.body or not isinstance(l.body[-1], ast.If) or l.body[-1].orelse:
            return False
        t = l.body[-1]
        for s in l.body[:-1]:
            # plain bindings of other locals only: nothing that could leave the loop or move the index
            if not (isinstance(s, ast.Assign) and len(s.targets) == 1 and isinstance(s.targets[0], ast.Name) and s.targets[0].id not in (i, x)):
                return False
            if any(isinstance(n, (ast.NamedExpr, ast.Yield, ast.YieldFrom, ast.Await)) for n in ast.walk(s)):
                return False
        if len(t.body) != 1 or not isinstance(t.body[0], ast.Break):
            return False
        if not (isinstance(t.test, ast.Attribute) and t.test.attr == "is_code"):
            return False
        who = t.test.value
        if isinstance(who, ast.Name):
            os_ = origins(cfg, who, t)
            if len(os_) != 1:
                return False
            o = os_[0]
            if o.kind == "for":
                if not (elem_var is not None and (o.stmt is l or getattr(o.stmt, "node", None) is l) and tuple(o.path) == (1,)):
                    return False
            elif not (o.kind == "expr" and not o.path and isinstance(o.expr, ast.AST) and norm(o.expr) == f"{x}[{i}]" and _inside(o.stmt, l)):
                return False
        elif norm(who) != f"{x}[{i}]":
            return False
    return True


def _inside(node, block) -> bool:
    while node is not None and node is not block:
        node = getattr(node, "_parent", None)
    return node is block


def _stable(text: str) -> str:
    return text if len(text) < 140 else text[:140]


# ---------------------------------------------------------------------------
# R02c
# ---------------------------------------------------------------------------
def _loop_entry(cfg, loop):
    for n in cfg.succ.get(loop, ()):
        if isinstance(n, Branch) and n.stmt is loop and n.polarity:
            return n
    return None


def _collector(chk, fn, cfg, l, tree_ok) -> Optional[str]:
    """Check one loop over ``<tree>.iter_unparsables()`` in ``fn``; returns the name of the list
    that receives one SQLParseError per unparsable (None after a finding)."""
    recv = l.iter.func.value if isinstance(l.iter.func, ast.Attribute) else None
    srcs = _whole_sources(cfg, recv, l) if recv is not None else []
    chk.require(tree_ok(srcs), "R02c", l, f"the unparsable sections are collected from {_describe(srcs)}, not from the tree parser.parse returned", detail="unparsables of the parsed tree")
    if l.iter.args or l.iter.keywords:
        chk.fail("R02c", l, "iter_unparsables is called with arguments (a filter?)", detail="iter_unparsables() without arguments")
    apps = []
    for c in calls_in(l):
        if last_attr(c) == "append" and c.args and isinstance(c.func, ast.Attribute) and isinstance(c.func.value, ast.Name):
            errs = [(c.args[0], cfg.stmt_of(c))] if not isinstance(c.args[0], ast.Name) else [(o.expr, o.stmt) for o in origins(cfg, c.args[0], cfg.stmt_of(c)) if o.kind == "expr" and not o.path]
            if errs and all(
                isinstance(x, ast.Call) and last_attr(x) == "SQLParseError" and kwarg(x, "segment") is not None and for_origin(cfg, kwarg(x, "segment"), xs) == (l, ())
                for x, xs in errs
            ):
                apps.append(c)
    chk.require(len(apps) >= 1, "R02c", l, "no SQLParseError(segment=<the unparsable>) is appended in the loop over the unparsable sections", detail="PRS error created per unparsable")
    if not apps:
        return None
    app_stmts = [cfg.stmt_of(a) for a in apps]
    start = _loop_entry(cfg, l)
    skip = start is None or cfg.paths_avoiding(start, l, lambda n: any(n is s for s in app_stmts))
    chk.require(not skip, "R02c", l, "an unparsable section can pass the loop without a PRS error being recorded (the append is conditional)", detail="every unparsable becomes a PRS error")
    for n in walk_local(l):
        if isinstance(n, (ast.Break, ast.Return)):
            chk.fail("R02c", n, "the loop over the unparsable sections is left early: later sections get no PRS error", detail=f"unparsable loop left early: {type(n).__name__.lower()}")
    lists = {a.func.value.id for a in apps}
    if len(lists) != 1:
        chk.fail("R02c", l, "the PRS errors of the unparsable sections go to several lists", detail="one PRS error list")
        return None
    name = lists.pop()
    for k, node in mutations_of(fn, name):
        if k not in ("append", "extend", "augassign"):
            chk.fail("R02c", node, f"the PRS error list is changed by '{k}'", detail=f"PRS error list {k}")
    return name


def _unparsable_loops(f):
    return [l for l in walk_local(f) if isinstance(l, ast.For) and isinstance(l.iter, ast.Call) and last_attr(l.iter) == "iter_unparsables"]


def _r02c(chk, repo) -> None:
    pt = repo.fn(LINTER, "Linter._parse_tokens")
    cfg = cfg_of(pt)
    from_parse = lambda srcs: bool(srcs) and all(k == "expr" and isinstance(x, ast.Call) and last_attr(x) == "parse" and not p for k, x, p in srcs)  # noqa: E731
    rets = [r for r in walk_local(pt) if isinstance(r, ast.Return) and isinstance(r.value, ast.Tuple) and len(r.value.elts) == 2 and not _is_none(r.value.elts[0])]
    # (i) the loop sits in _parse_tokens itself
    found = []  # (list name in pt that receives the errors, the statement every tree-return must pass)
    for l in _unparsable_loops(pt):
        name = _collector(chk, pt, cfg, l, from_parse)
        if name is not None:
            found.append((name, l))
    # (ii) or in a helper of the tree that _parse_tokens calls with the parsed tree and whose
    #      returned list it adds to the list it returns
    n_loops = len(_unparsable_loops(pt))
    for c in calls_in(pt):
        r = callee(repo, c)
        if r is None or not isinstance(r[1], FuncNode) or r[1] is pt:
            continue
        h = r[1]
        hl = _unparsable_loops(h)
        if not hl:
            continue
        n_loops += len(hl)
        hcfg = cfg_of(h)
        hparams = [a.arg for a in h.args.posonlyargs + h.args.args if a.arg not in ("self", "cls")]

        def tree_is_param(srcs, c=c, hparams=hparams):
            if not (srcs and all(k == "param" and not p for k, x, p in srcs)):
                return False
            for k, x, p in srcs:
                a = arg_of(c, hparams.index(x), x) if x in hparams else None
                if a is None or not from_parse(_whole_sources(cfg, a, cfg.stmt_of(c))):
                    return False
            return True

        for l in hl:
            name = _collector(chk, h, hcfg, l, tree_is_param)
            if name is None:
                continue
            hrets = [x for x in walk_local(h) if isinstance(x, ast.Return)]
            back = bool(hrets) and all(isinstance(x.value, ast.Name) and x.value.id == name and must_pass(hcfg, hcfg.entry, x, [l]) for x in hrets)
            chk.require(back, "R02c", h, f"{h.name} does not return the list of PRS errors it built on every path", detail=f"{h.name}: returns the PRS error list")
            st = cfg.stmt_of(c)
            tgt = None
            if isinstance(st, ast.AugAssign) and isinstance(st.op, ast.Add) and st.value is c and isinstance(st.target, ast.Name):
                tgt = st.target.id
            par = getattr(c, "_parent", None)
            if isinstance(par, ast.Call) and last_attr(par) == "extend" and isinstance(par.func, ast.Attribute) and isinstance(par.func.value, ast.Name) and par.args and par.args[0] is c:
                tgt = par.func.value.id
            if isinstance(st, ast.Assign) and st.value is c and len(st.targets) == 1 and isinstance(st.targets[0], ast.Name):
                tgt = st.targets[0].id
            chk.require(tgt is not None, "R02c", c, f"the PRS errors returned by {h.name} are not added to a list of _parse_tokens", detail="helper's PRS errors are kept")
            if tgt is not None and back:
                found.append((tgt, st))
    chk.count("R02c.unparsable_loops", n_loops)
    chk.require(bool(found) or n_loops > 0, "R02c", pt, "_parse_tokens does not walk <tree>.iter_unparsables(): unparsable sections would produce no PRS error", detail="_parse_tokens walks iter_unparsables()")
    for name, via in found:
        for r in rets:
            e1 = r.value.elts[1]
            good = isinstance(e1, ast.Name) and e1.id == name
            chk.require(good, "R02c", r, "the list returned next to the tree is not the list the PRS errors were appended to", detail="PRS errors returned with the tree")
            chk.require(must_pass(cfg, cfg.entry, r, [via]), "R02c", r, "a tree can be returned without its unparsable sections having been collected", detail="tree returned only after the unparsable loop")
            if isinstance(e1, ast.Name):
                rb = [d for d in cfg.reaching().defs_at(r, e1.id) if not (d.kind == "assign" and isinstance(d.value, ast.List) and not d.value.elts) and d.kind != "aug" and d.stmt is not via]
                chk.require(not rb, "R02c", r, "the error list is rebound between the loop and the return", detail="PRS error list not rebound")

    # ---- every iter_unparsables definition ---------------------------------------------
    n_defs = n_self = n_trav = 0
    unp = repo.cls(SEGBASE, "UnparsableSegment")
    for m in repo.iter_modules():
        if "def iter_unparsables" not in m.text:
            continue
        for q, f in m.functions():
            if f.name != "iter_unparsables":
                continue
            n_defs += 1
            c = enclosing_class(f)
            fcfg = cfg_of(f)
            body = [s for s in f.body if not (isinstance(s, ast.Expr) and isinstance(s.value, ast.Constant))]
            # (S) yield self
            ys = [n for n in walk_local(f) if isinstance(n, (ast.Yield, ast.YieldFrom))]
            self_y = [y for y in ys if isinstance(y, ast.Yield) and isinstance(y.value, ast.Name) and y.value.id == "self"]
            if self_y and c is not None and any(cc is unp for _, cc in repo.mro(m, c)):
                uncond = all(not fcfg.conditions(fcfg.stmt_of(y)) and fcfg.dominates(fcfg.stmt_of(y), fcfg.exit) for y in self_y)
                chk.require(uncond and len(ys) == len(self_y), "R02c", f, "UnparsableSegment.iter_unparsables does not unconditionally yield itself", detail=f"{q}: yields self")
                n_self += 1
                continue
            # (T) unfiltered traversal
            ok = False
            why = "is neither the unfiltered traversal of self.segments nor 'yield self' of an unparsable segment"
            loops = [s for s in body if isinstance(s, ast.For)]
            # next to the loop only plain bindings of locals (``children = self.segments``): they
            # yield nothing and skip nothing; what the loop walks is decided on what it derives from
            plain = all(
                isinstance(s, ast.For)
                or (isinstance(s, ast.Assign) and len(s.targets) == 1 and isinstance(s.targets[0], ast.Name) and not any(isinstance(x, (ast.Yield, ast.YieldFrom, ast.NamedExpr)) for x in ast.walk(s)))
                for s in body
            )
            if len(loops) == 1 and plain and isinstance(loops[0].target, ast.Name):
                l = loops[0]
                v = l.target.id
                it_srcs = _whole_sources(fcfg, l.iter, l)
                it_ok = bool(it_srcs) and all(k == "expr" and not pp and isinstance(x, ast.AST) and attr_chain(_peel(x)) == ("self", "segments") for k, x, pp in it_srcs)
                inner = l.body
                rec_ok = (
                    len(inner) == 1 and isinstance(inner[0], ast.Expr) and isinstance(inner[0].value, ast.YieldFrom)
                    and isinstance(inner[0].value.value, ast.Call) and last_attr(inner[0].value.value) == "iter_unparsables"
                    and isinstance(inner[0].value.value.func, ast.Attribute) and isinstance(inner[0].value.value.func.value, ast.Name)
                    and inner[0].value.value.func.value.id == v and not inner[0].value.value.args
                )
                if not rec_ok and len(inner) == 1 and isinstance(inner[0], ast.For) and isinstance(inner[0].target, ast.Name):
                    # for s in self.segments: for u in s.iter_unparsables(): yield u
                    l2 = inner[0]
                    it2 = l2.iter
                    rec_ok = (
                        isinstance(it2, ast.Call) and last_attr(it2) == "iter_unparsables" and not it2.args and isinstance(it2.func, ast.Attribute)
                        and isinstance(it2.func.value, ast.Name) and it2.func.value.id == v and len(l2.body) == 1 and isinstance(l2.body[0], ast.Expr)
                        and isinstance(l2.body[0].value, ast.Yield) and isinstance(l2.body[0].value.value, ast.Name) and l2.body[0].value.value.id == l2.target.id
                    )
                if not it_ok:
                    why = f"walks {short(l.iter, 40)}, not self.segments itself"
                elif not rec_ok:
                    why = "does not hand on every child's iter_unparsables() unconditionally"
                ok = it_ok and rec_ok and not l.orelse
            if not ok:
                selective = any(isinstance(x, (ast.If, ast.IfExp, ast.Continue, ast.Break, ast.Return)) or (isinstance(x, ast.comprehension) and x.ifs) or (isinstance(x, ast.Subscript) and isinstance(x.slice, ast.Slice)) for x in ast.walk(f))
                has_rec = any(isinstance(x, ast.Call) and last_attr(x) == "iter_unparsables" for x in ast.walk(f))
                if has_rec and not selective and loops and attr_chain(_peel(loops[0].iter)) == ("self", "segments"):
                    raise AnalysisError(f"R02c: {q} walks self.segments in a shape this rule does not know; re-confirm by hand")
            chk.require(ok, "R02c", f, f"{q} {why}: unparsable sections below it would get no PRS error", detail=f"{q}: unfiltered traversal")
            n_trav += ok
    chk.count("R02c.iter_unparsables_definitions", n_defs)
    chk.floor("R02c.iter_unparsables_definitions", 2)
    chk.require(n_self >= 1, "R02c", unp, "UnparsableSegment no longer yields itself from iter_unparsables", detail="UnparsableSegment yields itself")
    chk.require(n_trav >= 1, "R02c", repo.cls(SEGBASE, "BaseSegment"), "no unfiltered traversal definition of iter_unparsables is left", detail="BaseSegment traverses")


# ---------------------------------------------------------------------------
# R02d
# ---------------------------------------------------------------------------
def _r02d(chk, repo) -> None:
    n = 0
    for m in repo.iter_modules("src/sqlfluff/core/parser/"):
        if "def from_result_segments" not in m.text:
            continue
        for q, f in m.functions():
            if f.name != "from_result_segments":
                continue
            n += 1
            cfg = cfg_of(f)
            p = _first_param(f)
            rets = [r for r in walk_local(f) if isinstance(r, ast.Return) and r.value is not None]
            chk.require(bool(rets), "R02d", f, f"{q} returns nothing", detail=f"{q}: returns a segment")
            for r in rets:
                vs = [o.expr for o in origins(cfg, r.value, r)] if isinstance(r.value, ast.Name) else [r.value]
                for c in vs:
                    if not isinstance(c, ast.Call):
                        chk.fail("R02d", r, f"{q} returns {short(c, 50)}, not a segment construction", detail=f"{q}: returns a construction")
                        continue
                    seg = kwarg(c, "segments")
                    raw = kwarg(c, "raw")
                    if seg is not None or (raw is None and c.args):
                        a = seg if seg is not None else c.args[0]
                        srcs = _whole_sources(cfg, a, r)
                        good = bool(srcs) and all(k == "param" and x == p and not pp for k, x, pp in srcs)
                        chk.require(good, "R02d", c, f"{q} builds the node from {_describe(srcs)}, not from the whole result_segments it was given: matched tokens are dropped from the tree", detail=f"{q}: children = result_segments")
                    elif raw is not None:
                        pm = kwarg(c, "pos_marker")

                        c_at = cfg.stmt_of(c) or r

                        def elem(e, attr):
                            # the attribute read itself, or a local holding exactly that read
                            reads = [(e, c_at)]
                            if isinstance(e, ast.Name):
                                reads = [(o.expr, o.stmt) if o.kind == "expr" and not o.path else (None, None) for o in origins(cfg, e, c_at)]
                            keys = set()
                            for x0, x_at in reads:
                                if not (isinstance(x0, ast.Attribute) and x0.attr == attr):
                                    return None
                                for k, x, pp in _whole_sources(cfg, x0.value, x_at):
                                    x = _peel(x) if isinstance(x, ast.AST) else x
                                    if k == "expr" and isinstance(x, ast.Subscript) and param_origin(cfg, x.value, x_at) == p and isinstance(const(x.slice), int) and not pp:
                                        keys.add(const(x.slice))
                                    elif k == "param" and x == p and len(pp) == 1 and isinstance(pp[0], int):
                                        keys.add(pp[0])  # element read into a local first: first = result_segments[0]
                                    else:
                                        return None
                            return keys.pop() if len(keys) == 1 else None

                        i1, i2 = elem(raw, "raw"), elem(pm, "pos_marker") if pm is not None else None
                        if i1 is not None and i2 is not None and {i1, i2} <= {0, -1} and _single_element_known(cfg, f, r, p):
                            i1 = i2 = 0
                        chk.require(
                            i1 is not None and i1 == i2, "R02d", c,
                            f"{q} does not copy raw and pos_marker from one and the same element of result_segments (raw={short(raw, 30)}, pos_marker={short(pm, 30) if pm is not None else 'missing'}): the re-typed token would differ from the lexed one",
                            detail=f"{q}: raw and pos_marker copied from the matched token",
                        )
                    else:
                        chk.fail("R02d", c, f"{q} builds a node without children or text", detail=f"{q}: node gets children or text")
    chk.count("R02d.from_result_segments_definitions", n)
    chk.floor("R02d.from_result_segments_definitions", 3)


def _single_element_known(cfg, f, at, pname) -> bool:
    """``len(<param>) == 1`` is asserted / tested on every path to ``at``."""
    def is_len1(e):
        return (
            isinstance(e, ast.Compare) and len(e.ops) == 1 and isinstance(e.ops[0], ast.Eq) and const(e.comparators[0]) == 1
            and isinstance(e.left, ast.Call) and call_name(e.left) == "len" and e.left.args and isinstance(e.left.args[0], ast.Name) and e.left.args[0].id == pname
        )

    for n in walk_local(f):
        if isinstance(n, ast.Assert) and is_len1(n.test) and cfg.dominates(n, at):
            return True
    return any(pol and is_len1(e) for e, pol in cfg.conditions(at))


# ---------------------------------------------------------------------------
# R02e
# ---------------------------------------------------------------------------
def _is_match_result(repo, c: ast.Call) -> bool:
    return isinstance(c, ast.Call) and last_attr(c) == "MatchResult" and isinstance(c.func, ast.Name)


def _slice_of(c: ast.Call, cfg=None) -> Optional[ast.Call]:
    """The ``slice(a, b)`` a MatchResult is built with; given ``cfg`` also when it is read from a
    local holding exactly one such call whose bounds are not re-bound in between."""
    s = kwarg(c, "matched_slice") or (c.args[0] if c.args else None)
    if isinstance(s, ast.Name) and cfg is not None:
        at = cfg.stmt_of(c)
        os_ = origins(cfg, s, at)
        if len(os_) == 1 and os_[0].kind == "expr" and not os_[0].path and isinstance(os_[0].expr, ast.Call) and os_[0].stmt is not None:
            rd = cfg.reaching()
            if all(rd.defs_at(os_[0].stmt, n) == rd.defs_at(at, n) for n in names_in(os_[0].expr)):
                s = os_[0].expr
    if isinstance(s, ast.Call) and call_name(s) == "slice" and len(s.args) == 2:
        return s
    return None


def _returned_results(cfg, f):
    """(call, statement it is evaluated at) of every returned call, directly or through a local."""
    out = []
    for r in walk_local(f):
        if not isinstance(r, ast.Return) or r.value is None:
            continue
        if isinstance(r.value, ast.Call):
            out.append((r.value, r))
        elif isinstance(r.value, ast.Name):
            for o in origins(cfg, r.value, r):
                if o.kind == "expr" and not o.path and isinstance(o.expr, ast.Call) and o.stmt is not None:
                    out.append((o.expr, o.stmt))
    return out


def _is_unparsable_result(repo, c: ast.Call) -> bool:
    mc = kwarg(c, "matched_class") or (c.args[1] if len(c.args) > 1 else None)
    if mc is None or not isinstance(mc, ast.Name):
        return False
    r = repo.resolve_name(c._module, mc.id)
    return r is not None and getattr(r[1], "name", None) == "UnparsableSegment"


def _r02e(chk, repo) -> None:
    n_inline = n_flow = n_claim = n_unp = n_start = 0
    for m in repo.iter_modules("src/sqlfluff/core/parser/"):
        if not m.relpath.startswith(GRAMMAR_PREFIXES) or "UnparsableSegment" not in m.text:
            continue
        for q, f in m.functions():
            cons = [c for c in calls_in(f) if _is_match_result(repo, c)]
            if not cons:
                continue
            cfg = cfg_of(f)
            t = _Tiler(cfg, f, _first_param(f) or "")
            for c in cons:
                if not _is_unparsable_result(repo, c):
                    continue
                n_unp += 1
                sl = _slice_of(c, cfg)
                if sl is None:
                    continue
                st = cfg.stmt_of(c)
                stop_c = t.point(sl.args[1], st)
                # (3) where the unparsable section starts: the forward skip over non-code begins at
                # a position of the match itself, not at one moved by a constant
                for sk, pos in _skip_starts(cfg, sl.args[0], st):
                    n_start += 1
                    off = _const_offset(cfg, pos, cfg.stmt_of(sk))
                    chk.require(
                        off is None, "R02e", sk,
                        f"the UnparsableSegment result {short(sl, 40)} starts at the first code token searched from {short(pos, 40)}, "
                        f"which is a position moved by a constant ({off}): the token(s) stepped over are neither matched nor inside the unparsable section",
                        detail=f"{q}: unparsable section starts at the first code token after the matched part (no constant offset)",
                    )
                # (1a) nested inline in another result
                par = getattr(c, "_parent", None)
                outer = None
                while par is not None and par is not st:
                    if isinstance(par, ast.Call) and _is_match_result(repo, par):
                        outer = par
                        break
                    par = getattr(par, "_parent", None)
                if outer is None and (isinstance(st, ast.Return) or any(rc0 is c for rc0, _ in _returned_results(cfg, f))):
                    continue  # the unparsable result itself is returned
                if outer is not None:
                    osl = _slice_of(outer, cfg)
                    n_inline += 1
                    good = osl is not None and t.point(osl.args[1], st) == stop_c
                    chk.require(
                        good, "R02e", c,
                        f"an UnparsableSegment child result stops at {_show_point(stop_c)} but the result it is put into stops at "
                        f"{_show_point(t.point(osl.args[1], st)) if osl is not None else '?'}: the child reaches past its parent, the tokens in between are emitted twice",
                        detail=f"{q}: inline unparsable child ends with its parent",
                    )
                    continue
                # (1b) collected in a local that becomes child_matches of a returned result
                tgt = None
                if isinstance(st, ast.AugAssign) and isinstance(st.target, ast.Name):
                    tgt = st.target.id
                elif isinstance(st, ast.Assign) and len(st.targets) == 1 and isinstance(st.targets[0], ast.Name):
                    tgt = st.targets[0].id
                if tgt is None:
                    continue
                for rc, r in _returned_results(cfg, f):
                    while isinstance(rc, ast.Call) and isinstance(rc.func, ast.Attribute) and rc.func.attr == "wrap":
                        rc = rc.func.value
                    if not _is_match_result(repo, rc):
                        continue
                    cm = kwarg(rc, "child_matches")
                    if not (isinstance(cm, ast.Name) and cm.id == tgt) or not cfg.reaches(st, r):
                        continue
                    rsl = _slice_of(rc, cfg)
                    if rsl is None:
                        continue
                    n_flow += 1
                    stops = _stop_on_paths(cfg, t, st, r, rsl.args[1])
                    bad = [p for p in stops if p != stop_c]
                    chk.require(
                        not bad, "R02e", c,
                        f"after the UnparsableSegment child (stops at {_show_point(stop_c)}) is added, the returned result can stop at "
                        + ", ".join(_show_point(p) for p in bad) + ": the child reaches past its parent, the tokens in between are emitted twice",
                        detail=f"{q}: collected unparsable child ends with the returned result",
                    )
    chk.count("R02e.inline_unparsable_children", n_inline)
    chk.count("R02e.collected_unparsable_children", n_flow)
    chk.count("R02e.unparsable_results_in_grammar_code", n_unp)
    chk.count("R02e.unparsable_starts_from_forward_skip", n_start)
    chk.floor("R02e.unparsable_starts_from_forward_skip", 1)
    # anchor only: grammar code builds UnparsableSegment results at all (how many of them are
    # children is what an edit may change, so that is not floored)
    chk.floor("R02e.unparsable_results_in_grammar_code", 2)

    # (2) Sequence.match: claiming results
    f = repo.fn(SEQ, "Sequence.match")
    cfg = cfg_of(f)
    sp = _first_param(f)
    t = _Tiler(cfg, f, sp or "")

    def lookahead(e, at) -> bool:
        os_ = origins(cfg, e, at) if isinstance(e, ast.Name) else []
        for o in os_:
            if o.kind == "expr" and isinstance(o.expr, ast.Call) and not o.path:
                if last_attr(o.expr) == "trim_to_terminator":
                    return True
                if call_name(o.expr) == "len" and o.expr.args and param_origin(cfg, o.expr.args[0], o.stmt) == sp:
                    return True
        if isinstance(e, ast.Call):
            return last_attr(e) == "trim_to_terminator" or (call_name(e) == "len" and e.args and param_origin(cfg, e.args[0], at) == sp)
        return False

    for c in [c for c in calls_in(f) if _is_match_result(repo, c)]:
        sl = _slice_of(c, cfg)
        if sl is None:
            continue
        st = cfg.stmt_of(c)
        if not lookahead(sl.args[1], st):
            continue
        par = getattr(c, "_parent", None)
        nested = False
        while par is not None and par is not st:
            if isinstance(par, ast.Call) and _is_match_result(repo, par):
                nested = True
            par = getattr(par, "_parent", None)
        if nested and _is_unparsable_result(repo, c):
            continue  # judged as the child of its parent
        n_claim += 1
        stop_c = t.point(sl.args[1], st)
        own = _is_unparsable_result(repo, c)
        wrapped = False
        p = getattr(c, "_parent", None)
        if isinstance(p, ast.Attribute) and p.attr == "wrap":
            w = getattr(p, "_parent", None)
            if isinstance(w, ast.Call) and w.args and isinstance(w.args[0], ast.Name):
                r = repo.resolve_name(c._module, w.args[0].id)
                wrapped = r is not None and getattr(r[1], "name", None) == "UnparsableSegment"
        child = False
        cm = kwarg(c, "child_matches")
        if cm is not None:
            for x in ast.walk(cm):
                if isinstance(x, ast.Call) and _is_match_result(repo, x) and _is_unparsable_result(repo, x):
                    xs = _slice_of(x, cfg)
                    if xs is not None and t.point(xs.args[1], st) == stop_c:
                        child = True
        chk.require(
            own or wrapped or child, "R02e", c,
            f"Sequence.match returns a result that claims the tokens up to the look-ahead bound {_show_point(stop_c)} (not the end of an element match) without marking the unmatched "
            "remainder as an UnparsableSegment reaching that bound: code nothing matched sits in the tree without a PRS error",
            detail="Sequence.match: result reaching the look-ahead bound is/contains an unparsable up to it: " + short(sl, 40),
        )
    chk.count("R02e.claiming_results", n_claim)
    chk.floor("R02e.claiming_results", 1)


SKIP_FORWARD = "skip_start_index_forward_to_code"


def _skip_starts(cfg, e, at):
    """(call, position argument) of every forward skip whose result ``e`` may hold at ``at``."""
    exprs = [(e, at)] if not isinstance(e, ast.Name) else [(o.expr, o.stmt) for o in origins(cfg, e, at) if o.kind == "expr" and not o.path]
    out = []
    for x, _ in exprs:
        if isinstance(x, ast.Call) and last_attr(x) == SKIP_FORWARD and len(x.args) >= 2:
            out.append((x, x.args[1]))
    return out


def _const_offset(cfg, pos, at) -> Optional[str]:
    """Text of the offending expression if ``pos`` is ``<something> +/- <constant>`` (directly or
    through the single-assignment locals it is read from)."""
    exprs = [pos] if not isinstance(pos, ast.Name) else [o.expr for o in origins(cfg, pos, at) if o.kind in ("expr", "aug") and isinstance(o.expr, ast.AST)]
    for x in exprs:
        if isinstance(x, ast.BinOp) and isinstance(x.op, (ast.Add, ast.Sub)) and (const(x.right) not in (None, 0) or const(x.left) not in (None, 0)):
            return short(x, 40)
    return None


def _stop_on_paths(cfg, t: "_Tiler", start, goal, stop_expr) -> List[tuple]:
    """Possible values (as points) of ``stop_expr`` at ``goal`` on the paths that pass ``start``."""
    if not isinstance(stop_expr, ast.Name):
        return [t.point(stop_expr, goal)]
    name = stop_expr.id
    from ..cfg import defs_of_stmt

    out, seen, stack = [], set(), [(start, None)]
    while stack:
        n, cur = stack.pop()
        for m in cfg.succ.get(n, ()):
            if m is goal:
                if cur is None:
                    p = t.point(ast.copy_location(ast.Name(id=name, ctx=ast.Load()), stop_expr), start)
                else:
                    d = [d for d in defs_of_stmt(cur) if d.name == name][0]
                    p = t.point(d.value, cur) if d.kind == "assign" and not d.path else ("x", f"{d.kind} at line {getattr(cur, 'lineno', 0)}")
                if p not in out:
                    out.append(p)
                continue
            ncur = m if any(d.name == name for d in defs_of_stmt(m)) else cur
            key = (id(m), id(ncur))
            if key in seen:
                continue
            seen.add(key)
            stack.append((m, ncur))
    return out


# ---------------------------------------------------------------------------
def _r02f(chk, repo) -> None:
    """Each variant's tree comes from that variant's own tokens."""
    from ..flowutil import mutations_of as _muts

    pr = repo.fn(LINTER, "Linter.parse_rendered")
    cfg = cfg_of(pr)
    pv = repo.cls(COMMON, "ParsedVariant")
    fields = [s.target.id for s in pv.body if isinstance(s, ast.AnnAssign) and isinstance(s.target, ast.Name)]
    ps = [c for c in calls_in(pr) if last_attr(c) == "ParsedString"]
    if not ps:
        raise AnalysisError("R02f: parse_rendered no longer builds a ParsedString; re-confirm the anchor")
    n = 0
    rd = cfg.reaching()

    def in_body(node, loop) -> bool:
        return any(_inside(node, b) for b in loop.body)

    def iter_var(e, at, depth=0):
        """(for statement, tuple path) when ``e`` at ``at`` holds the loop variable of the iteration
        ``at`` runs in: the loop target itself, or a local bound to it by an assignment inside the
        loop body that dominates ``at`` (so it was bound in this same iteration)."""
        if not isinstance(e, ast.Name) or depth > 4:
            return None
        ds = list(rd.defs_at(at, e.id))
        if len(ds) != 1:
            return None
        d = ds[0]
        if d.kind == "for":
            return (d.stmt, tuple(d.path)) if in_body(at, d.stmt) else None
        if d.kind == "assign" and not d.path and isinstance(d.value, ast.Name) and d.stmt is not None and cfg.dominates(d.stmt, at):
            got = iter_var(d.value, d.stmt, depth + 1)
            if got is not None and in_body(at, got[0]):
                return got
        return None

    for c in ps:
        a = arg_of(c, 0, "parsed_variants")
        if not isinstance(a, ast.Name):
            chk.fail("R02f", c, "ParsedString.parsed_variants is not a local list whose appends can be followed", detail="parse_rendered: variants list is a local")
            continue
        # every local that may name the same list object (``all_variants = parsed_variants``)
        names = {a.id}
        grew = True
        while grew:
            grew = False
            for st in walk_local(pr):
                if isinstance(st, (ast.Assign, ast.AnnAssign)) and isinstance(st.value, ast.Name):
                    tgs = [t.id for t in (st.targets if isinstance(st, ast.Assign) else [st.target]) if isinstance(t, ast.Name)]
                    for x, y in [(st.value.id, t) for t in tgs] + [(t, st.value.id) for t in tgs]:
                        if x in names and y not in names:
                            names.add(y)
                            grew = True
        for kind, node in [m for nm in sorted(names) for m in _muts(pr, nm)]:
            n += 1
            one = None
            if kind == "append" and isinstance(node, ast.Call) and len(node.args) == 1 and not node.keywords and not isinstance(node.args[0], ast.Starred):
                one = node.args[0]
            elif kind == "augassign" and isinstance(node.op, ast.Add) and isinstance(node.value, ast.List) and len(node.value.elts) == 1 and not isinstance(node.value.elts[0], ast.Starred):
                one = node.value.elts[0]  # ``xs += [v]`` is ``xs.append(v)``
            if one is None:
                chk.fail("R02f", node, f"the list of parsed variants is changed by `{kind}`, not by appending one freshly built ParsedVariant", detail=f"parse_rendered: variants list {kind}")
                continue
            v = one
            node = node if isinstance(node, ast.Call) else node.value
            if isinstance(v, ast.Name):
                v = sole_expr_origin(cfg, v, cfg.stmt_of(node)) or v
            built = isinstance(v, ast.Call) and (callee(repo, v) or (None, None))[1] is pv
            chk.require(
                built, "R02f", node,
                f"a parsed variant enters the result as `{short(v)}`, not as a ParsedVariant built here from this variant's own lex and parse: a reused or re-labelled result carries "
                "another variant's tokens (source positions, templated file), so the tree's leaves are not the tokens lexed from this variant",
                detail="parse_rendered: each appended variant is built from its own lex/parse",
            )
            if not built:
                continue
            tf = arg_of(v, fields.index("templated_file"), "templated_file") if "templated_file" in fields else None
            tr = arg_of(v, fields.index("tree"), "tree") if "tree" in fields else None
            lexed_from = set()
            for k, x, pth in (_whole_sources(cfg, tr, cfg.stmt_of(node)) if tr is not None else []):
                if k == "expr" and isinstance(x, ast.Call) and last_attr(x) == "_parse_tokens":
                    ta = arg_of(x, 0, "tokens")
                    for k2, x2, p2 in (_whole_sources(cfg, ta, cfg.stmt_of(x)) if ta is not None else []):
                        if k2 == "expr" and isinstance(x2, ast.Call) and last_attr(x2) == "_lex_templated_file":
                            la = arg_of(x2, 0, "templated_file")
                            lexed_from.add((iter_var(la, cfg.stmt_of(x2)) or norm(la)) if la is not None else "?")
            tf_var = iter_var(tf, cfg.stmt_of(node)) if tf is not None else None
            same = tf_var is not None and lexed_from == {tf_var}
            lexed_from = {x if isinstance(x, str) else f"loop variable of line {x[0].lineno}" for x in lexed_from}
            chk.require(
                same, "R02f", node,
                f"ParsedVariant.templated_file is `{short(tf) if tf is not None else '<missing>'}` but its tree was parsed from tokens lexed from {sorted(lexed_from) or 'nothing visible'}: "
                "the variant must pair a templated file with the tree lexed from that same file (the loop's own variant)",
                detail="parse_rendered: templated_file and tree come from the same loop variant",
            )
    chk.count("R02f.variant_list_changes", n)
    chk.floor("R02f.variant_list_changes", 1)


def run(chk) -> None:
    repo = chk.repo
    chk.rule("R02f", "in parse_rendered every element of ParsedString.parsed_variants is a ParsedVariant built in that loop iteration, whose templated_file is the loop's variant and whose tree is _parse_tokens of the tokens _lex_templated_file produced from that same variant (no reuse of another variant's tree, no _replace relabelling)")
    chk.rule("R02a", "the lexed token sequence is handed whole (no slice, filter or in-place change) from _lex_templated_file through _parse_tokens and Parser.parse to root_parse, and the tree/errors handed back are the callee's")
    chk.rule("R02b", "every file segment built by root_parse consists of pieces that tile the segments parameter symbolically (shared split points, first at 0, last at the end); the root match is limited to the prefix ending where the trailing piece starts")
    chk.rule("R02c", "every segment of <tree>.iter_unparsables() becomes a SQLParseError returned with the tree; iter_unparsables is the unfiltered traversal of self.segments, or 'yield self' in UnparsableSegment")
    chk.rule("R02d", "every from_result_segments passes result_segments whole as children, or copies raw and pos_marker from the same matched token")
    chk.rule("R02e", "an inline UnparsableSegment child result ends where its parent result ends; a Sequence.match result reaching the look-ahead bound is or contains an UnparsableSegment result up to that bound")
    _r02a(chk, repo)
    _r02b(chk, repo)
    _r02c(chk, repo)
    _r02d(chk, repo)
    _r02e(chk, repo)
    _r02f(chk, repo)
    chk.note("Partial claim: hand-over, root assembly, PRS funnel, node materialisation and the greedy give-up arms. The slice arithmetic of the match implementations and of MatchResult.apply is value-level and not decided (apply's contract 'covers matched_slice' is assumed by R02b).")


from ..selftest import Variant  # noqa: E402

ANYOF = "src/sqlfluff/core/parser/grammar/anyof.py"
SEGRAW = "src/sqlfluff/core/parser/segments/raw.py"
SEGBRK = "src/sqlfluff/core/parser/segments/bracketed.py"

_TAIL_OLD = (
    "                    child_matches += (\n"
    "                        MatchResult(\n"
    "                            # The unparsable section is just the remaining\n"
    "                            # segments we were unable to match from the\n"
    "                            # sequence.\n"
    "                            matched_slice=slice(_idx, _stop_idx),\n"
    "                            matched_class=UnparsableSegment,\n"
    "                            # TODO: We should come up with a better \"expected\" string\n"
    "                            # than this\n"
    "                            segment_kwargs={\"expected\": \"Nothing here.\"},\n"
    "                        ),\n"
    "                    )\n"
    "                    # Match up to the end.\n"
    "                    matched_idx = _stop_idx\n"
)

VARIANTS: List[Variant] = [
    Variant(
        "variant-tree-paired-with-the-root-templated-file", LINTER,
        "                ParsedVariant(\n                    variant,\n                    parsed,\n",
        "                ParsedVariant(\n                    rendered.templated_variants[0],\n                    parsed,\n",
        "R02f", "parse_rendered", "seeded C02-8 family: a tree paired with a templated file it was not lexed from",
    ),
    # behaviour-preserving refactors: must stay quiet
    Variant(
        "quiet-lex-result-kept-whole-and-indexed", LINTER,
        "            tokens, lex_errors = cls._lex_templated_file(variant, rendered.config)\n",
        "            lexed = cls._lex_templated_file(variant, rendered.config)\n            tokens = lexed[0]\n            lex_errors = lexed[1]\n",
        "QUIET", None, "the result pair is kept whole and its components are read by index",
    ),
    Variant(
        "quiet-parse-result-kept-whole-and-indexed", LINTER,
        "                parsed, parse_errors = cls._parse_tokens(\n                    tokens,\n                    rendered.config,\n                    fname=rendered.fname,\n                    parse_statistics=parse_statistics,\n                )\n",
        "                parse_result = cls._parse_tokens(\n                    tokens,\n                    rendered.config,\n                    fname=rendered.fname,\n                    parse_statistics=parse_statistics,\n                )\n                parsed = parse_result[0]\n                parse_errors = parse_result[1]\n",
        "QUIET", None, "the (tree, errors) pair is kept whole and indexed",
    ),
    Variant(
        "quiet-parsed-variant-by-keyword", LINTER,
        "                ParsedVariant(\n                    variant,\n                    parsed,\n                    lex_errors,\n                    parse_errors,\n                )\n",
        "                ParsedVariant(\n                    templated_file=variant,\n                    tree=parsed,\n                    lexing_violations=lex_errors,\n                    parsing_violations=parse_errors,\n                )\n",
        "QUIET", None, "fields passed by keyword",
    ),
    Variant(
        "quiet-empty-token-branch-first", LINTER,
        "            if tokens:\n                parsed, parse_errors = cls._parse_tokens(\n                    tokens,\n                    rendered.config,\n                    fname=rendered.fname,\n                    parse_statistics=parse_statistics,\n                )\n            else:  # pragma: no cover\n                parsed = None\n                parse_errors = []\n",
        "            if not tokens:  # pragma: no cover\n                parsed = None\n                parse_errors = []\n            else:\n                parsed, parse_errors = cls._parse_tokens(\n                    tokens=tokens,\n                    config=rendered.config,\n                    fname=rendered.fname,\n                    parse_statistics=parse_statistics,\n                )\n",
        "QUIET", None, "branches swapped, tokens passed by keyword",
    ),
    Variant(
        "quiet-parser-input-through-local-and-keyword", LINTER,
        "            parsed: Optional[BaseSegment] = parser.parse(\n                # Regardless of how the sequence was passed in, we should\n                # coerce it to a tuple here, before we head deeper into\n                # the parsing process.\n                tuple(tokens),\n",
        "            token_tuple = tuple(tokens)\n            parsed: Optional[BaseSegment] = parser.parse(\n                segments=token_tuple,\n",
        "QUIET", None, "the tuple goes through a local and is passed by keyword",
    ),
    Variant(
        "quiet-prs-error-through-local", LINTER,
        "            violations.append(\n                SQLParseError(\n                    \"Line {0[0]}, Position {0[1]}: Found unparsable section: \"\n                    \"{1!r}\".format(\n                        unparsable.pos_marker.working_loc,\n                        (\n                            unparsable.raw\n                            if len(unparsable.raw) < 40\n                            else unparsable.raw[:40] + \"...\"\n                        ),\n                    ),\n                    segment=unparsable,\n                )\n            )\n",
        "            prs_error = SQLParseError(\n                \"Line {0[0]}, Position {0[1]}: Found unparsable section: \"\n                \"{1!r}\".format(\n                    unparsable.pos_marker.working_loc,\n                    (\n                        unparsable.raw\n                        if len(unparsable.raw) < 40\n                        else unparsable.raw[:40] + \"...\"\n                    ),\n                ),\n                segment=unparsable,\n            )\n            violations.append(prs_error)\n",
        "QUIET", None, "the error is built into a local, then appended",
    ),
    Variant(
        "quiet-unparsable-loop-over-named-tree", LINTER,
        "        for unparsable in parsed.iter_unparsables():\n",
        "        tree = parsed\n        for unparsable in tree.iter_unparsables():\n",
        "QUIET", None, "the parsed tree through one more local",
    ),
    Variant(
        "quiet-parse-tokens-returns-named-tree", LINTER,
        "        return parsed, violations\n\n    @staticmethod\n    def remove_templated_errors(\n",
        "        tree = parsed\n        return tree, violations\n\n    @staticmethod\n    def remove_templated_errors(\n",
        "QUIET", None, "returned tree through a local",
    ),
    Variant(
        "quiet-parser-shares-one-tuple", PARSER,
        "        root = self.RootSegment.root_parse(\n            tuple(segments), fname=fname, parse_context=ctx\n        )\n\n        # Basic Validation, that we haven't dropped anything.\n        check_still_complete(tuple(segments), (root,), ())\n",
        "        seg_tuple = tuple(segments)\n        root = self.RootSegment.root_parse(\n            segments=seg_tuple, parse_context=ctx, fname=fname\n        )\n\n        # Basic Validation, that we haven't dropped anything.\n        check_still_complete(seg_tuple, (root,), ())\n",
        "QUIET", None, "one tuple shared, keyword argument, keywords reordered",
    ),
    Variant(
        "quiet-root-match-stop-through-local", FILESEG,
        "        _unmatched = segments[match.matched_slice.stop : _end_idx]\n",
        "        _match_stop = match.matched_slice.stop\n        _unmatched = segments[_match_stop:_end_idx]\n",
        "QUIET", None, "the end of the root match through a local",
    ),
    Variant(
        "quiet-root-nested-if-instead-of-elif", FILESEG,
        "        elif _unmatched:\n            _idx = 0\n            for _idx in range(len(_unmatched)):\n                if _unmatched[_idx].is_code:\n                    break\n            parse_context.increment_parse_nodes()\n            content = (\n                _matched\n                + _unmatched[:_idx]\n                + (\n                    UnparsableSegment(\n                        _unmatched[_idx:], expected=\"Nothing else in FileSegment.\"\n                    ),\n                )\n            )\n        else:\n            content = _matched + _unmatched\n",
        "        else:\n            if _unmatched:\n                _idx = 0\n                for _idx in range(len(_unmatched)):\n                    if _unmatched[_idx].is_code:\n                        break\n                parse_context.increment_parse_nodes()\n                content = (\n                    _matched\n                    + _unmatched[:_idx]\n                    + (\n                        UnparsableSegment(\n                            _unmatched[_idx:], expected=\"Nothing else in FileSegment.\"\n                        ),\n                    )\n                )\n            else:\n                content = _matched + _unmatched\n",
        "QUIET", None, "elif spelled as else: if",
    ),
    Variant(
        "quiet-root-pieces-named", FILESEG,
        "            content = (\n                _matched\n                + _unmatched[:_idx]\n                + (\n                    UnparsableSegment(\n                        _unmatched[_idx:], expected=\"Nothing else in FileSegment.\"\n                    ),\n                )\n            )\n",
        "            _gap = _unmatched[:_idx]\n            _rest = UnparsableSegment(\n                _unmatched[_idx:], expected=\"Nothing else in FileSegment.\"\n            )\n            content = _matched + _gap + (_rest,)\n",
        "QUIET", None, "gap and unparsable remainder named before the concatenation",
    ),
    Variant(
        "quiet-root-code-scan-reads-element-through-local", FILESEG,
        "            for _idx in range(len(_unmatched)):\n                if _unmatched[_idx].is_code:\n                    break\n",
        "            for _idx in range(len(_unmatched)):\n                _seg = _unmatched[_idx]\n                if _seg.is_code:\n                    break\n",
        "QUIET", None, "the scanned element goes through a local",
    ),
    Variant(
        "quiet-root-code-scan-with-enumerate", FILESEG,
        "            for _idx in range(len(_unmatched)):\n                if _unmatched[_idx].is_code:\n                    break\n",
        "            for _idx, _seg in enumerate(_unmatched):\n                if _seg.is_code:\n                    break\n",
        "QUIET", None, "enumerate instead of range(len()): same final index with and without a break",
    ),
    Variant(
        "quiet-root-assembly-starred", FILESEG,
        "            segments[:_start_idx] + content + segments[_end_idx:],\n",
        "            (*segments[:_start_idx], *content, *segments[_end_idx:]),\n",
        "QUIET", None, "concatenation spelled as a starred tuple display",
    ),
    Variant(
        "quiet-root-all-non-code-by-keyword", FILESEG,
        "            return cls(segments, fname=fname)\n",
        "            return cls(segments=segments, fname=fname)\n",
        "QUIET", None, "keyword argument",
    ),
    Variant(
        "quiet-root-no-match-test-by-else", FILESEG,
        "        if not match:\n            parse_context.increment_parse_nodes()\n            content = (\n                UnparsableSegment(\n                    segments[_start_idx:_end_idx], expected=str(cls.match_grammar)\n                ),\n            )\n        elif _unmatched:\n",
        "        _no_match = not match\n        if _no_match:\n            parse_context.increment_parse_nodes()\n            _whole = segments[_start_idx:_end_idx]\n            content = (UnparsableSegment(_whole, expected=str(cls.match_grammar)),)\n        elif _unmatched:\n",
        "QUIET", None, "test through a boolean local, wrapped slice through a local",
    ),
    Variant(
        "quiet-raw-retype-element-by-unpacking", SEGRAW,
        "        raw_seg = cast(\"RawSegment\", result_segments[0])\n",
        "        first = result_segments[0]\n        raw_seg = cast(\"RawSegment\", first)\n",
        "QUIET", None, "matched token through one more local",
    ),
    Variant(
        "quiet-raw-retype-fields-through-locals", SEGRAW,
        "        return cls(\n            raw=raw_seg.raw,\n            pos_marker=raw_seg.pos_marker,\n            **new_segment_kwargs,\n        )\n",
        "        raw_text = raw_seg.raw\n        marker = raw_seg.pos_marker\n        new_seg = cls(\n            raw=raw_text,\n            pos_marker=marker,\n            **new_segment_kwargs,\n        )\n        return new_seg\n",
        "QUIET", None, "copied fields through locals, result through a local",
    ),
    Variant(
        "quiet-base-node-children-through-local", SEGBASE,
        "        return cls(segments=result_segments, **segment_kwargs)\n",
        "        children = result_segments\n        node = cls(segments=children, **segment_kwargs)\n        return node\n",
        "QUIET", None, "children and node through locals",
    ),
    Variant(
        "quiet-traversal-nested-loop-yield", SEGBASE,
        "        for s in self.segments:\n            yield from s.iter_unparsables()\n",
        "        for s in self.segments:\n            for u in s.iter_unparsables():\n                yield u\n",
        "QUIET", None, "yield from spelled as an inner loop",
    ),
    Variant(
        "quiet-traversal-children-through-local", SEGBASE,
        "        for s in self.segments:\n            yield from s.iter_unparsables()\n",
        "        children = self.segments\n        for s in children:\n            yield from s.iter_unparsables()\n",
        "QUIET", None, "self.segments through a local",
    ),
    Variant(
        "quiet-seq-unstarted-unparsable-through-local", SEQ,
        "                if matched_idx == start_idx:\n                    return MatchResult(\n                        matched_slice=slice(start_idx, max_idx),\n                        matched_class=UnparsableSegment,\n",
        "                if matched_idx == start_idx:\n                    _claimed = slice(start_idx, max_idx)\n                    return MatchResult(\n                        matched_slice=_claimed,\n                        matched_class=UnparsableSegment,\n",
        "QUIET", None, "the claimed slice through a local",
    ),
    Variant(
        "quiet-seq-partial-child-built-first", SEQ,
        "                    matched_slice=slice(start_idx, max_idx),\n                    insert_segments=insert_segments,\n                    child_matches=child_matches\n                    + (\n                        MatchResult(\n                            # The unparsable section is just the remaining\n                            # segments we were unable to match from the\n                            # sequence.\n                            matched_slice=slice(_start_idx, max_idx),\n                            matched_class=UnparsableSegment,\n                            segment_kwargs={\n                                \"expected\": (\n                                    f\"{elem} after {segments[matched_idx - 1]}. \"\n                                    f\"Found {segments[_idx]}\"\n                                )\n                            },\n                        ),\n                    ),\n                )\n",
        "                    matched_slice=slice(start_idx, max_idx),\n                    insert_segments=insert_segments,\n                    child_matches=(\n                        *child_matches,\n                        MatchResult(\n                            matched_slice=slice(_start_idx, max_idx),\n                            matched_class=UnparsableSegment,\n                            segment_kwargs={\n                                \"expected\": (\n                                    f\"{elem} after {segments[matched_idx - 1]}. \"\n                                    f\"Found {segments[_idx]}\"\n                                )\n                            },\n                        ),\n                    ),\n                )\n",
        "QUIET", None, "child tuple spelled with a star instead of +",
    ),
    Variant(
        "quiet-seq-tail-conditions-merged", SEQ,
        "            if max_idx > matched_idx:\n                _idx = skip_start_index_forward_to_code(segments, matched_idx, max_idx)\n",
        "            if matched_idx < max_idx:\n                _idx = skip_start_index_forward_to_code(segments, matched_idx, max_idx)\n",
        "QUIET", None, "comparison mirrored",
    ),
    Variant(
        "quiet-seq-tail-child-through-local", SEQ,
        "                    child_matches += (\n                        MatchResult(\n                            # The unparsable section is just the remaining\n                            # segments we were unable to match from the\n                            # sequence.\n                            matched_slice=slice(_idx, _stop_idx),\n                            matched_class=UnparsableSegment,\n                            # TODO: We should come up with a better \"expected\" string\n                            # than this\n                            segment_kwargs={\"expected\": \"Nothing here.\"},\n                        ),\n                    )\n",
        "                    child_matches = child_matches + (\n                        MatchResult(\n                            matched_slice=slice(_idx, _stop_idx),\n                            matched_class=UnparsableSegment,\n                            segment_kwargs={\"expected\": \"Nothing here.\"},\n                        ),\n                    )\n",
        "QUIET", None, "+= spelled as x = x + y",
    ),
    Variant(
        "quiet-seq-final-result-through-local", SEQ,
        "        return MatchResult(\n            matched_slice=slice(start_idx, matched_idx),\n            insert_segments=insert_segments,\n            child_matches=child_matches,\n        )\n\n\nclass Bracketed(Sequence):\n",
        "        result = MatchResult(\n            matched_slice=slice(start_idx, matched_idx),\n            insert_segments=insert_segments,\n            child_matches=child_matches,\n        )\n        return result\n\n\nclass Bracketed(Sequence):\n",
        "QUIET", None, "returned result through a local",
    ),
    # breaking twins in the spellings the QUIET sweep taught the rules to read
    Variant(
        "code-scan-through-local-reads-previous-element", FILESEG,
        "            for _idx in range(len(_unmatched)):\n                if _unmatched[_idx].is_code:\n                    break\n",
        "            for _idx in range(len(_unmatched)):\n                _seg = _unmatched[_idx - 1]\n                if _seg.is_code:\n                    break\n",
        "R02b", "root_parse", "scan stops one late: the first unmatched code token is attached bare",
    ),
    Variant(
        "code-scan-enumerate-counts-from-one", FILESEG,
        "            for _idx in range(len(_unmatched)):\n                if _unmatched[_idx].is_code:\n                    break\n",
        "            for _idx, _seg in enumerate(_unmatched, 1):\n                if _seg.is_code:\n                    break\n",
        "R02b", "root_parse", "index one past the first code token: it is attached bare",
    ),
    Variant(
        "lex-result-indexed-wrong-component", LINTER,
        "            tokens, lex_errors = cls._lex_templated_file(variant, rendered.config)\n",
        "            lexed = cls._lex_templated_file(variant, rendered.config)\n            tokens = lexed[1]\n            lex_errors = lexed[0]\n",
        "R02a", "parse_rendered", "components swapped in the indexed spelling",
    ),
    Variant(
        "retyped-token-marker-from-other-element-through-locals", SEGRAW,
        "        return cls(\n            raw=raw_seg.raw,\n            pos_marker=raw_seg.pos_marker,\n            **new_segment_kwargs,\n        )\n",
        "        raw_text = raw_seg.raw\n        marker = result_segments[-1].pos_marker.start_point_marker()\n        return cls(\n            raw=raw_text,\n            pos_marker=marker,\n            **new_segment_kwargs,\n        )\n",
        "R02d", "RawSegment.from_result_segments", "position is not the matched token's, in the through-locals spelling",
    ),
    Variant(
        "traversal-through-local-skips-first-child", SEGBASE,
        "        for s in self.segments:\n            yield from s.iter_unparsables()\n",
        "        children = self.segments[1:]\n        for s in children:\n            yield from s.iter_unparsables()\n",
        "R02c", "BaseSegment.iter_unparsables", "a slice of the children in the through-local spelling",
    ),
    Variant(
        "greedy-tail-not-claimed-result-through-local", SEQ,
        "                    # Match up to the end.\n                    matched_idx = _stop_idx\n\n        return MatchResult(\n            matched_slice=slice(start_idx, matched_idx),\n            insert_segments=insert_segments,\n            child_matches=child_matches,\n        )\n",
        "\n        result = MatchResult(\n            matched_slice=slice(start_idx, matched_idx),\n            insert_segments=insert_segments,\n            child_matches=child_matches,\n        )\n        return result\n",
        "R02e", "Sequence.match", "child added, parent ends at the last element match; the result is returned through a local",
    ),
    Variant(
        "unstarted-greedy-slice-through-local-not-flagged", SEQ,
        "                if matched_idx == start_idx:\n                    return MatchResult(\n                        matched_slice=slice(start_idx, max_idx),\n                        matched_class=UnparsableSegment,\n",
        "                if matched_idx == start_idx:\n                    _claimed = slice(start_idx, max_idx)\n                    return MatchResult(\n                        matched_slice=_claimed,\n",
        "R02e", "Sequence.match", "claimed tokens without a PRS error, slice through a local",
    ),
    # ---- behaviour-preserving edits: the check must stay quiet -------------------------------
    Variant(
        "quiet-full-match-branch-without-empty-remainder", FILESEG,
        "            content = _matched + _unmatched\n",
        "            content = _matched\n",
        "QUIET", None, "on that branch _unmatched is known to be empty (else-arm of 'elif _unmatched')",
    ),
    Variant(
        "quiet-root-assembly-through-locals", FILESEG,
        "        return cls(\n            segments[:_start_idx] + content + segments[_end_idx:],\n            fname=fname,\n        )\n",
        "        head = segments[:_start_idx]\n        tail = segments[_end_idx:]\n        children = head + content + tail\n        file_segment = cls(children, fname=fname)\n        return file_segment\n",
        "QUIET", None, "pieces named, construction through a temp",
    ),
    Variant(
        "quiet-root-parse-argument-through-local", PARSER,
        "        root = self.RootSegment.root_parse(\n            tuple(segments), fname=fname, parse_context=ctx\n        )\n",
        "        seg_tuple = tuple(list(segments))\n        root_segment = self.RootSegment.root_parse(\n            seg_tuple, fname=fname, parse_context=ctx\n        )\n        root = root_segment\n",
        "QUIET", None, "argument and result through locals, an extra identity wrapper",
    ),
    Variant(
        "quiet-prs-error-built-before-append", LINTER,
        "            violations.append(\n                SQLParseError(\n                    \"Line {0[0]}, Position {0[1]}: Found unparsable section: \"\n",
        "            violations.append(\n                SQLParseError(\n                    description=\"Line {0[0]}, Position {0[1]}: Found unparsable section: \"\n",
        "QUIET", None, "description passed by keyword",
    ),
    Variant(
        "quiet-traversal-renamed-loop-variable", SEGBASE,
        "        for s in self.segments:\n            yield from s.iter_unparsables()\n",
        "        for child in self.segments:\n            yield from child.iter_unparsables()\n",
        "QUIET", None, "loop variable renamed",
    ),
    Variant(
        "quiet-greedy-tail-bound-assigned-first", SEQ,
        _TAIL_OLD,
        "                    # Match up to the end.\n                    matched_idx = _stop_idx\n" + _TAIL_OLD.replace("                    # Match up to the end.\n                    matched_idx = _stop_idx\n", ""),
        "QUIET", None, "the parent's new end is assigned before the child is added (independent statements swapped)",
    ),
    Variant(
        "quiet-unmatched-tail-tested-by-length", FILESEG,
        "        elif _unmatched:\n",
        "        elif len(_unmatched) > 0:\n",
        "QUIET", None, "the same emptiness test spelled with len()",
    ),
    Variant(
        "quiet-forward-skip-from-a-named-position", SEQ,
        "                _idx = skip_start_index_forward_to_code(segments, matched_idx, max_idx)\n                _stop_idx = skip_stop_index_backward_to_code(segments, max_idx, _idx)\n",
        "                _search_from = matched_idx\n                _idx = skip_start_index_forward_to_code(segments, _search_from, max_idx)\n                _stop_idx = skip_stop_index_backward_to_code(segments, max_idx, _idx)\n",
        "QUIET", None, "the position the skip starts from goes through a local",
    ),
    # ---- breaking edits -------------------------------------------------------------------------
    Variant(
        "unmatched-tail-of-one-token-left-bare", FILESEG,
        "        elif _unmatched:\n",
        "        elif len(_unmatched) > 1:\n",
        "R02b", "root_parse", "a single unmatched trailing token is attached to the file segment bare (seeded C02-2 has the same shape with another gate)",
    ),
    Variant(
        "partial-match-unparsable-starts-one-late", SEQ,
        "                _start_idx = skip_start_index_forward_to_code(\n                    segments, matched_idx, max_idx\n                )\n",
        "                _start_idx = skip_start_index_forward_to_code(\n                    segments, matched_idx + 1, max_idx\n                )\n",
        "R02e", "Sequence.match", "the first unmatched token is neither matched nor unparsable (seeded C02-1 does this in the greedy-tail arm)",
    ),
    Variant(
        "non-code-filtered-before-parsing", LINTER,
        "                tuple(tokens),\n                fname=fname,\n",
        "                tuple(t for t in tokens if t.is_code or t.is_meta),\n                fname=fname,\n",
        "R02a", "_parse_tokens", "whitespace and comments never reach the tree",
    ),
    Variant(
        "root-parse-gets-sliced-sequence", PARSER,
        "        root = self.RootSegment.root_parse(\n            tuple(segments), fname=fname, parse_context=ctx\n        )\n",
        "        root = self.RootSegment.root_parse(\n            tuple(segments)[: ctx.parse_node_limit or None], fname=fname, parse_context=ctx\n        )\n",
        "R02a", "Parser.parse", "over-long inputs are truncated silently",
    ),
    Variant(
        "eof-marker-popped-before-parsing", LINTER,
        "            linter_logger.info(\"Parse Rendered. Parsing Variant %s\", idx)\n            if tokens:\n",
        "            linter_logger.info(\"Parse Rendered. Parsing Variant %s\", idx)\n            if tokens and tokens[-1].is_type(\"end_of_file\"):\n                tokens.pop()\n            if tokens:\n",
        "R02a", "parse_rendered", "in-place change of the lexed list in another function",
    ),
    Variant(
        "variant-stores-no-parse-errors", LINTER,
        "                    parsed,\n                    lex_errors,\n                    parse_errors,\n",
        "                    parsed,\n                    lex_errors,\n                    [],\n",
        "R02a", "parse_rendered", "PRS errors of unparsable sections never reach the user",
    ),
    Variant(
        "trailing-piece-off-by-one", FILESEG,
        "            segments[:_start_idx] + content + segments[_end_idx:],\n",
        "            segments[:_start_idx] + content + segments[_end_idx + 1 :],\n",
        "R02b", "root_parse",
    ),
    Variant(
        "partial-match-drops-gap-before-unparsable", FILESEG,
        "                _matched\n                + _unmatched[:_idx]\n                + (\n",
        "                _matched\n                + (\n",
        "R02b", "root_parse", "whitespace/comments between the match and the unparsable tail are lost",
    ),
    Variant(
        "no-match-wraps-to-the-end", FILESEG,
        "                    segments[_start_idx:_end_idx], expected=str(cls.match_grammar)\n",
        "                    segments[_start_idx:], expected=str(cls.match_grammar)\n",
        "R02b", "root_parse", "trailing non-code appears twice",
    ),
    Variant(
        "root-match-not-limited-to-code", FILESEG,
        "                segments[:_end_idx], _start_idx, parse_context\n",
        "                segments, _start_idx, parse_context\n",
        "R02b", "root_parse", "a greedy root grammar can swallow the trailing non-code that is appended again",
    ),
    Variant(
        "root-match-started-at-zero", FILESEG,
        "                segments[:_end_idx], _start_idx, parse_context\n",
        "                segments[:_end_idx], 0, parse_context\n",
        "R02b", "root_parse", "leading non-code is matched and prepended",
    ),
    Variant(
        "unparsable-without-position-skipped", LINTER,
        "            assert unparsable.pos_marker\n",
        "            if not unparsable.pos_marker:\n                continue\n",
        "R02c", "_parse_tokens",
    ),
    Variant(
        "unparsable-yields-only-nested-ones", SEGBASE,
        "        As this is an unparsable, it should yield itself.\n        \"\"\"\n        yield self\n",
        "        As this is an unparsable, it should yield itself.\n        \"\"\"\n        yield from super().iter_unparsables()\n",
        "R02c", "UnparsableSegment.iter_unparsables",
    ),
    Variant(
        "traversal-skips-non-code-children", SEGBASE,
        "        for s in self.segments:\n            yield from s.iter_unparsables()\n",
        "        for s in self.segments:\n            if s.is_code:\n                yield from s.iter_unparsables()\n",
        "R02c", "BaseSegment.iter_unparsables",
    ),
    Variant(
        "brackets-hide-their-unparsables", SEGBRK,
        "    @classmethod\n    def from_result_segments(\n",
        "    def iter_unparsables(self):\n        \"\"\"Brackets are reported as a whole.\"\"\"\n        return iter(())\n\n    @classmethod\n    def from_result_segments(\n",
        "R02c", "BracketedSegment.iter_unparsables", "a new override in another module",
    ),
    Variant(
        "node-built-from-filtered-children", SEGBASE,
        "        return cls(segments=result_segments, **segment_kwargs)\n",
        "        return cls(segments=tuple(s for s in result_segments if not s.is_comment), **segment_kwargs)\n",
        "R02d", "BaseSegment.from_result_segments",
    ),
    Variant(
        "retyped-token-text-normalised", SEGRAW,
        "            raw=raw_seg.raw,\n            pos_marker=raw_seg.pos_marker,\n",
        "            raw=raw_seg.raw.upper(),\n            pos_marker=raw_seg.pos_marker,\n",
        "R02d", "RawSegment.from_result_segments", "keywords come out upper-cased: leaves differ from the lexed tokens",
    ),
    Variant(
        "partial-match-parent-ends-at-last-match", SEQ,
        "                    matched_slice=slice(start_idx, max_idx),\n                    insert_segments=insert_segments,\n",
        "                    matched_slice=slice(start_idx, matched_idx),\n                    insert_segments=insert_segments,\n",
        "R02e", "Sequence.match", "the unparsable child reaches past its parent: tokens duplicated",
    ),
    Variant(
        "greedy-tail-not-claimed", SEQ,
        "                    # Match up to the end.\n                    matched_idx = _stop_idx\n",
        "",
        "R02e", "Sequence.match", "child added but the parent still ends at the last element match",
    ),
    Variant(
        "partial-match-remainder-not-flagged", SEQ,
        "                            matched_slice=slice(_start_idx, max_idx),\n                            matched_class=UnparsableSegment,\n",
        "                            matched_slice=slice(_start_idx, max_idx),\n                            matched_class=None,\n",
        "R02e", "Sequence.match", "claimed tokens without a PRS error",
    ),
    Variant(
        "unstarted-greedy-sequence-not-flagged", SEQ,
        "                        matched_slice=slice(start_idx, max_idx),\n                        matched_class=UnparsableSegment,\n",
        "                        matched_slice=slice(start_idx, max_idx),\n",
        "R02e", "Sequence.match",
    ),
    # R02f re-spellings of parse_rendered
    Variant(
        "quiet-r02f-variant-built-into-local", LINTER,
        '            parsed_variants.append(\n                ParsedVariant(\n                    variant,\n                    parsed,\n                    lex_errors,\n                    parse_errors,\n                )\n            )\n',
        "            parsed_variant = ParsedVariant(\n                variant,\n                parsed,\n                lex_errors,\n                parse_errors,\n            )\n            parsed_variants.append(parsed_variant)\n",
        "QUIET", None, "the ParsedVariant is built into a local, then appended",
    ),
    Variant(
        "quiet-r02f-parse-as-conditional-expression", LINTER,
        '            if tokens:\n                parsed, parse_errors = cls._parse_tokens(\n                    tokens,\n                    rendered.config,\n                    fname=rendered.fname,\n                    parse_statistics=parse_statistics,\n                )\n            else:  # pragma: no cover\n                parsed = None\n                parse_errors = []\n',
        "            parsed, parse_errors = (\n                cls._parse_tokens(\n                    tokens,\n                    rendered.config,\n                    fname=rendered.fname,\n                    parse_statistics=parse_statistics,\n                )\n                if tokens\n                else (None, [])\n            )\n",
        "QUIET", None, "if/else spelled as a conditional expression",
    ),
    Variant(
        "quiet-r02f-defaults-before-the-test", LINTER,
        '            if tokens:\n                parsed, parse_errors = cls._parse_tokens(\n                    tokens,\n                    rendered.config,\n                    fname=rendered.fname,\n                    parse_statistics=parse_statistics,\n                )\n            else:  # pragma: no cover\n                parsed = None\n                parse_errors = []\n',
        "            parsed = None\n            parse_errors = []\n            if tokens:\n                parsed, parse_errors = cls._parse_tokens(\n                    tokens,\n                    rendered.config,\n                    fname=rendered.fname,\n                    parse_statistics=parse_statistics,\n                )\n",
        "QUIET", None, "the empty-file defaults are set before the test instead of in an else",
    ),
    Variant(
        "quiet-r02f-loop-variant-renamed-lex-by-keyword", LINTER,
        "        for idx, variant in enumerate(rendered.templated_variants):\n            t0 = time.monotonic()\n            linter_logger.info(\"Parse Rendered. Lexing Variant %s\", idx)\n            tokens, lex_errors = cls._lex_templated_file(variant, rendered.config)\n",
        "        for idx, templated_variant in enumerate(rendered.templated_variants):\n            variant = templated_variant\n            t0 = time.monotonic()\n            linter_logger.info(\"Parse Rendered. Lexing Variant %s\", idx)\n            tokens, lex_errors = cls._lex_templated_file(\n                templated_file=templated_variant, config=rendered.config\n            )\n",
        "QUIET", None, "loop variable renamed, lexed under the loop name and stored under an alias of it",
    ),
    Variant(
        "quiet-r02f-append-as-augmented-assignment", LINTER,
        '            parsed_variants.append(\n                ParsedVariant(\n                    variant,\n                    parsed,\n                    lex_errors,\n                    parse_errors,\n                )\n            )\n',
        "            parsed_variants += [\n                ParsedVariant(\n                    variant,\n                    parsed,\n                    lex_errors,\n                    parse_errors,\n                )\n            ]\n",
        "QUIET", None, "append spelled as += [one element]",
    ),
    Variant(
        "quiet-r02f-result-list-positional-through-alias", LINTER,
        "        return ParsedString(\n            parsed_variants=parsed_variants,\n",
        "        all_variants = parsed_variants\n        return ParsedString(\n            parsed_variants=all_variants,\n",
        "QUIET", None, "the list handed to ParsedString through one more local",
    ),
    # breaking twins of the R02f re-spellings above
    Variant(
        "r02f-twin-augmented-append-with-root-file", LINTER,
        '            parsed_variants.append(\n                ParsedVariant(\n                    variant,\n                    parsed,\n                    lex_errors,\n                    parse_errors,\n                )\n            )\n',
        "            parsed_variants += [\n                ParsedVariant(\n                    rendered.templated_variants[0],\n                    parsed,\n                    lex_errors,\n                    parse_errors,\n                )\n            ]\n",
        "R02f", "parse_rendered", "+= [..] spelling, tree paired with the root templated file",
    ),
    Variant(
        "r02f-twin-alias-keeps-the-first-variant", LINTER,
        '            parsed_variants.append(\n                ParsedVariant(\n                    variant,\n                    parsed,\n                    lex_errors,\n                    parse_errors,\n                )\n            )\n',
        '            if idx == 0:\n                first_variant = variant\n            parsed_variants.append(\n                ParsedVariant(\n                    first_variant,\n                    parsed,\n                    lex_errors,\n                    parse_errors,\n                )\n            )\n',
        "R02f", "parse_rendered", "alias spelling, but the alias is bound in the first iteration only and carried over",
    ),
    Variant(
        "r02f-twin-alias-bound-after-the-lex-of-the-next", LINTER,
        "            tokens, lex_errors = cls._lex_templated_file(variant, rendered.config)\n",
        "            stored_as = variant\n            for variant in rendered.templated_variants[idx:]:\n                pass\n            tokens, lex_errors = cls._lex_templated_file(variant, rendered.config)\n",
        "R02f", "parse_rendered", "lexes the last variant, stores every tree under the loop's own variant",
    ),
    Variant(
        "r02f-twin-conditional-expression-reuses-first-tree", LINTER,
        '            if tokens:\n                parsed, parse_errors = cls._parse_tokens(\n                    tokens,\n                    rendered.config,\n                    fname=rendered.fname,\n                    parse_statistics=parse_statistics,\n                )\n            else:  # pragma: no cover\n                parsed = None\n                parse_errors = []\n',
        "            parsed, parse_errors = (\n                cls._parse_tokens(\n                    tokens,\n                    rendered.config,\n                    fname=rendered.fname,\n                    parse_statistics=parse_statistics,\n                )\n                if tokens and not parsed_variants\n                else (parsed_variants[0].tree, [])\n            )\n",
        "R02a", "parse_rendered", "conditional-expression spelling; later variants reuse the first variant's tree",
    ),
    Variant(
        "r02f-twin-extend-with-relabelled-variants", LINTER,
        "        time_dict = {\n            **rendered.time_dict,\n            \"lexing\": _lexing_time,\n",
        "        all_variants = parsed_variants\n        all_variants += [pv._replace(templated_file=rendered.templated_variants[0]) for pv in parsed_variants[1:]]\n        time_dict = {\n            **rendered.time_dict,\n            \"lexing\": _lexing_time,\n",
        "R02f", "parse_rendered", "relabelled copies added through an alias of the list",
    ),
]
