"""C32 — linting is read-only and repeatable.

R32a  no file-writing function is reachable from the lint / parse / render entry
      points *under the constant flags those entry points pass* (flag-aware call
      graph reachability, see :class:`FlagReach`): a call edge is dead when it is
      dominated by a test of a parameter whose value is a known constant of the
      opposite truth value; constants are the literal arguments of the call
      chain and the defaults of parameters not passed.  Sinks: every function of
      src/ and plugins/ containing a write-capable filesystem call
      (``sa.iohelpers.write_kind``) except the writers of a user-named *output
      artefact* (table ``ARTEFACT_WRITERS``).
R32b  RS-state (``sa/state.py``): every cell of process-lifetime state that has
      a mutation site inside a function is a row of ``REVIEWED_STATE`` and every
      site is in one of the functions listed in that row; all other module- and
      class-level containers are constant tables.  Process caches
      (``functools.cache`` / ``lru_cache``) are the rows of ``REVIEWED_CACHES``;
      a cached function does not read a mutated cell (its result would depend
      on something that is not part of the key).
R32c  functions of core/linter, core/rules and core/config do not mutate objects
      they received from their caller: a mutation whose access path starts at a
      parameter (``p``, ``p.a``; through plain aliases ``x = p.a``; ``p.a[*]`` for an
      element obtained by iterating over it) is a row of ``REVIEWED_ARG_MUTATIONS``
      — keyed by function and access path, and listing the operations reviewed, so
      a new operation on a reviewed parameter is reported as well.

Accepted idioms: mutation of ``self`` / ``cls`` state is the object's own business
(class-level state reached through ``self`` is R32b's); a local that is rebound
to a fresh object before it is mutated is not an alias of the parameter (reaching
definitions).  Not decided: bit-identical violations over arbitrary histories,
writes performed by libraries outside the tree (``subprocess``, dbt), calls made
inside ``lambda`` bodies (not part of the call graph).
"""

from __future__ import annotations

import ast
from typing import Dict, List, Optional, Tuple

from ..callgraph import CallGraph, Edge, FuncInfo
from ..cfg import cfg_of, origins
from ..flow import bind_args, is_method_bound
from ..index import AnalysisError, FuncNode, calls_in, last_attr, norm, short, walk_local
from ..iohelpers import all_calls, param_of, write_kind
from ..report import construct_of
from ..state import _param_names, chain_of, inventory, mutation_shapes

CLI = "src/sqlfluff/cli/commands.py"
API = "src/sqlfluff/api/simple.py"
LINTER = "src/sqlfluff/core/linter/linter.py"

# (module, function, how the flags are known)
#   'unknown'  : arguments come from the user (click / API caller): no flag is assumed
#   'defaults' : the public method called the way "lint" / "parse" / "render" calls it,
#                i.e. every boolean parameter at its default
ENTRIES = [
    (CLI, "lint", "unknown"),
    (CLI, "parse", "unknown"),
    (CLI, "render", "unknown"),
    (API, "lint", "unknown"),
    (API, "parse", "unknown"),
    (LINTER, "Linter.lint_paths", "defaults"),
    (LINTER, "Linter.lint_path", "defaults"),
    (LINTER, "Linter.lint_string", "defaults"),
    (LINTER, "Linter.lint_string_wrapped", "defaults"),
    (LINTER, "Linter.lint", "defaults"),
    (LINTER, "Linter.parse_path", "defaults"),
    (LINTER, "Linter.parse_string", "defaults"),
    (LINTER, "Linter.render_file", "defaults"),
    (LINTER, "Linter.render_string", "defaults"),
]

# writers of a file the user named as an *output* of the command (never an input file)
ARTEFACT_WRITERS = {
    "src/sqlfluff/cli/commands.py::dump_file_payload": "--write-output file",
    "src/sqlfluff/cli/outputstream.py::FileOutput.__init__": "--write-output stream",
    "src/sqlfluff/core/linter/linting_result.py::LintingResult.persist_timing_records": "--persist-timing CSV",
}

# cell -> (why the shared state cannot change what a later lint reports, functions allowed to mutate it)
REVIEWED_STATE: Dict[str, Tuple[str, Tuple[str, ...]]] = {
    "src/sqlfluff/core/parser/lexer.py::BlockTracker._stack": (
        "class-level by accident; every top()/exit() of a file is preceded by an enter() of the same file, so entries "
        "left behind by earlier files (call blocks with output enter once per token, exit once) stay below the "
        "current file's own entries and are never read",
        ("src/sqlfluff/core/parser/lexer.py::BlockTracker.enter", "src/sqlfluff/core/parser/lexer.py::BlockTracker.exit"),
    ),
    "src/sqlfluff/core/parser/lexer.py::BlockTracker._map": (
        "class-level by accident; maps a source slice to a block uuid, uuids are only compared between segments of one tree, "
        "and two blocks of one file never share a source slice",
        ("src/sqlfluff/core/parser/lexer.py::BlockTracker.enter",),
    ),
    "src/sqlfluff/core/helpers/identity.py::_counter": (
        "monotonic id source; ids are compared for identity only, never ordered against ids of another file",
        ("src/sqlfluff/core/helpers/identity.py::get_next_id",),
    ),
    "src/sqlfluff/core/config/__init__.py::progress_bar_configuration": (
        "presentation switch set once per CLI command from its own flags before any file is processed",
        (
            "src/sqlfluff/cli/commands.py::lint", "src/sqlfluff/cli/commands.py::fix", "src/sqlfluff/cli/commands.py::cli_format",
            "src/sqlfluff/cli/commands.py::parse", "src/sqlfluff/cli/commands.py::render",
        ),
    ),
    "src/sqlfluff/core/plugin/host.py::_plugin_manager": (
        "plugin manager built once per context (ContextVar), content determined by the installed entry points",
        ("src/sqlfluff/core/plugin/host.py::get_plugin_manager", "src/sqlfluff/core/plugin/host.py::purge_plugin_manager"),
    ),
    "src/sqlfluff/core/plugin/host.py::plugins_loaded": (
        "latch of the plugin manager construction",
        ("src/sqlfluff/core/plugin/host.py::get_plugin_manager", "src/sqlfluff/core/plugin/host.py::purge_plugin_manager"),
    ),
    "src/sqlfluff/core/plugin/host.py::is_main_process": (
        "set once in a worker process initialiser, read only for plugin loading",
        ("src/sqlfluff/core/linter/runner.py::ParallelRunner._init_global",),
    ),
    "src/sqlfluff/core/parser/rust_parser.py::_PROFILE_ENABLED": (
        "tooling switch of the optional Rust parser (profiling), no effect on results",
        ("src/sqlfluff/core/parser/rust_parser.py::set_profiling",),
    ),
    "src/sqlfluff/core/parser/rust_parser.py::_PARSE_PROFILE": (
        "timing accumulator of the optional Rust parser, never read by linting",
        ("src/sqlfluff/core/parser/rust_parser.py::reset_parse_profile", "src/sqlfluff/core/parser/rust_parser.py::RustParser.parse"),
    ),
    "src/sqlfluff/core/parser/rust_parser.py::_NATIVE_AST_ENABLED": (
        "tooling switch of the optional Rust parser (tree builder selection), set explicitly by tooling only",
        ("src/sqlfluff/core/parser/rust_parser.py::set_native_ast",),
    ),
    "ext::os.environ": (
        "XDG_CONFIG_HOME is removed and restored around one platformdirs call under a lock (macOS only)",
        ("src/sqlfluff/core/config/loader.py::_get_user_config_dir_path",),
    ),
    "ext::sys.modules": (
        "user library modules of the jinja templater are registered under their own names; same path -> same modules",
        ("src/sqlfluff/core/templaters/jinja.py::JinjaTemplater._extract_libraries_from_config",),
    ),
    "ext::sys.tracebacklimit": (
        "set immediately before raising the fatal 'keyword not found in dialect' error",
        ("src/sqlfluff/core/dialects/base.py::Dialect.ref",),
    ),
    "ext::jinja2.Environment.from_string": (
        "dbt templater monkeypatch, applied and undone in try/finally around one compile",
        ("plugins/sqlfluff-templater-dbt/sqlfluff_templater_dbt/templater.py::DbtTemplater._unsafe_process",),
    ),
    "plugins/sqlfluff-templater-dbt/sqlfluff_templater_dbt/templater.py::DbtTemplater.adapters": (
        "dbt adapter registry keyed by project dir (one adapter per project for the process)",
        ("plugins/sqlfluff-templater-dbt/sqlfluff_templater_dbt/templater.py::DbtTemplater.connection",),
    ),
}

REVIEWED_CACHES = {
    "src/sqlfluff/core/config/file.py::load_config_file_as_dict": "keyed by the file path string; result never mutated by callers (C27 R27c)",
    "src/sqlfluff/core/config/file.py::load_config_string_as_dict": "keyed by (config text, working path, label); result never mutated by callers (C27 R27c)",
    "src/sqlfluff/core/config/loader.py::load_config_at_path": "keyed by the directory path string; result never mutated by callers (C27 R27c)",
    "src/sqlfluff/core/parser/rust_parser.py::RustParser._get_segment_class_by_name": "per parser instance (self is part of the key), keyed by class name; dialect fixed per instance",
}

# (function, access path from the parameter) -> (why mutating the caller's object is part of the contract, allowed operations)
#   access path: `p` the object itself, `p.a` an attribute of it, `p[*]` an element obtained by iterating
_L = "src/sqlfluff/core/linter/"
_R = "src/sqlfluff/core/rules/"
_C = "src/sqlfluff/core/config/"
REVIEWED_ARG_MUTATIONS: Dict[Tuple[str, str], Tuple[str, Tuple[str, ...]]] = {
    (_L + "linter.py::Linter.allowed_rule_ref_map", "reference_map"): (
        "inserts the three constant keys PRS/LXR/TMP into the pack's map: idempotent, and done before every read of the map in the same call", ("item-store",)),
    (_L + "linter.py::Linter.lint_parsed", "parsed.time_dict"): ("records the linting time in the timing dict of the ParsedString handed over for this one lint", ("item-store",)),
    (_L + "fix.py::apply_fixes", "fixes"): ("consumes the anchor map the caller built for this one call (compute_anchor_edit_info result)", ("call .pop()",)),
    (_L + "linted_file.py::LintedFile._slice_source_file_using_patches", "source_only_slices"): ("work list; the only caller passes a list built for the call", ("call .pop()",)),
    (_R + "base.py::BaseRule._process_lint_result", "new_lerrs"): ("explicit out-list of crawl()", ("call .append()",)),
    (_R + "base.py::BaseRule._process_lint_result", "new_fixes"): ("explicit out-list of crawl()", ("call .extend()",)),
    (_R + "base.py::BaseRule.discard_unsafe_fixes", "lint_result"): ("the result object just returned by the rule's own _eval", ("attr-store .fixes",)),
    (_R + "base.py::BaseRule._adjust_anchors_for_fixes", "lint_result.fixes[*]"): ("fixes of the result object just returned by the rule's own _eval", ("attr-store .anchor",)),
    (_R + "crawlers.py::SegmentSeekerCrawler.crawl", "context"): (
        "crawler protocol: one RuleContext per crawl, advanced in place", ("attr-store .segment_idx", "attr-store .parent_stack", "attr-store .segment", "attr-store .raw_stack")),
    (_R + "noqa.py::IgnoreMask._should_ignore_violation_line_range", "ignore_rules[*]"): ("marks directives of this file's mask as used", ("attr-store .used",)),
    (_R + "base.py::RuleMetaclass._populate_code_and_description", "class_dict"): ("class creation (import time)", ("item-store",)),
    (_R + "base.py::RuleMetaclass._populate_docstring", "class_dict"): ("class creation (import time)", ("item-store",)),
    (_R + "base.py::RuleMetaclass.__new__", "class_dict"): ("class creation (import time)", ("item-store",)),
    (_C + "file.py::_resolve_paths_in_config", "config"): ("called on the freshly parsed dict inside the cached loader, before it is returned", ("item-store",)),
    (_C + "removed.py::validate_config_dict_for_removed", "config"): ("called on the freshly parsed / merged dict before it is used (C27 R27c checks that no cached dict gets here)", ("item-del",)),
}

ARG_SCOPES = ("src/sqlfluff/core/linter/", "src/sqlfluff/core/rules/", "src/sqlfluff/core/config/")


# ---------------------------------------------------------------------------
# flag-aware reachability
# ---------------------------------------------------------------------------

UNKNOWN = object()


def _flag_const(e: Optional[ast.AST]):
    """True / False / None literal -> its value, else UNKNOWN."""
    if isinstance(e, ast.Constant) and (e.value is None or isinstance(e.value, bool)):
        return e.value
    return UNKNOWN


def default_flags(fn: ast.AST) -> Dict[str, object]:
    a = fn.args
    pos = a.posonlyargs + a.args
    out: Dict[str, object] = {}
    for p, d in list(zip(pos[len(pos) - len(a.defaults):], a.defaults)) + [(p, d) for p, d in zip(a.kwonlyargs, a.kw_defaults) if d is not None]:
        v = _flag_const(d)
        if v is not UNKNOWN:
            out[p.arg] = v
    return out


class FlagReach:
    """Reachability over ``CallGraph`` edges with one level of constant propagation
    per call: contexts are (function, {boolean parameter: constant})."""

    def __init__(self, cg: CallGraph):
        self.cg = cg
        self.dead_edges: List[Tuple[str, ast.Call, str]] = []
        self._nested: Dict[str, List[FuncInfo]] = {}

    def nested(self, fi: FuncInfo) -> List[FuncInfo]:
        """Functions defined inside ``fi`` (reachable with their parent: closures, callbacks)."""
        r = self._nested.get(fi.fq)
        if r is None:
            r = [self.cg.by_node[id(n)] for n in walk_local(fi.node) if isinstance(n, FuncNode) and id(n) in self.cg.by_node]
            self._nested[fi.fq] = r
        return r

    def _targets(self, e: Edge) -> List[FuncInfo]:
        if e.how == "by-name-ambiguous":
            # several unrelated classes define the method: keep them all (sound for "never reaches")
            return list(self.cg.methods_by_name.get(last_attr(e.call), []))
        return e.targets

    def _value(self, cfg, e: ast.AST, at, env):
        v = _flag_const(e)
        if v is not UNKNOWN:
            return v
        if isinstance(e, ast.Name):
            p = param_of(cfg, e, at)
            if p is not None and p in env:
                return env[p]
        return UNKNOWN

    def live(self, fi: FuncInfo, env: Dict[str, object], call: ast.Call) -> bool:
        if not env:
            return True
        cfg = cfg_of(fi.node)
        st = cfg.stmt_of(call)
        if st is None:
            return True
        for e, pol in cfg.conditions(st):
            v = self._value(cfg, e, st, env)
            if v is UNKNOWN and isinstance(e, ast.Compare) and len(e.ops) == 1 and isinstance(e.ops[0], (ast.Is, ast.IsNot, ast.Eq, ast.NotEq)):
                # ``flag is True`` / ``flag == False`` / ``flag is not None``: decided from the known constant
                lv, rv = self._value(cfg, e.left, st, env), _flag_const(e.comparators[0])
                if lv is not UNKNOWN and rv is not UNKNOWN:
                    same = (lv is rv) if isinstance(e.ops[0], (ast.Is, ast.IsNot)) else (lv == rv and type(lv) is type(rv))
                    v = same if isinstance(e.ops[0], (ast.Is, ast.Eq)) else not same
            if v is not UNKNOWN and bool(v) != pol:
                self.dead_edges.append((fi.fq, call, f"{norm(e)} is {v!r}"))
                return False
        return True

    def bind(self, fi: FuncInfo, env: Dict[str, object], e: Edge, t: FuncInfo) -> Dict[str, object]:
        if e.how == "callback" or (e.how == "constructor" and getattr(t.node, "name", "") != "__init__"):
            return {}
        call = e.call
        if isinstance(call.func, ast.Attribute) and isinstance(call.func.value, ast.Name) and t.cls is not None and call.func.value.id == t.cls.name:
            return {}  # ClassName.method(obj, ..): explicit receiver, positions shift
        b = bind_args(call, t.node, bound=is_method_bound(call, t.node))
        starred, dstar = "*" in b, "**" in b
        a = t.node.args
        positional = {x.arg for x in a.posonlyargs + a.args}
        dflt = default_flags(t.node)
        out: Dict[str, object] = {}
        cfg = None
        for p in [x.arg for x in a.posonlyargs + a.args + a.kwonlyargs]:
            if p in b:
                if cfg is None:
                    cfg = cfg_of(fi.node)
                v = self._value(cfg, b[p], cfg.stmt_of(call), env) if env or isinstance(b[p], ast.Constant) else UNKNOWN
                if v is not UNKNOWN:
                    out[p] = v
            elif dstar or (starred and p in positional):
                continue
            elif p in dflt:
                out[p] = dflt[p]
        return out

    def reach(self, root: FuncInfo, env: Dict[str, object], flag_aware: bool = True):
        """(function fq -> chain of fqs from the root) for everything reachable."""
        key0 = (root.fq, tuple(sorted(env.items(), key=lambda kv: kv[0])))
        seen: Dict[tuple, Optional[tuple]] = {key0: None}
        envs = {key0: env}
        infos = {key0: root}
        stack = [key0]
        while stack:
            k = stack.pop()
            fi, en = infos[k], envs[k]
            for e in self.cg.edges_from.get(fi.fq, []):
                tg = self._targets(e)
                if not tg:
                    continue
                if flag_aware and not self.live(fi, en, e.call):
                    continue
                for t in tg:
                    en2 = self.bind(fi, en, e, t) if flag_aware else {}
                    k2 = (t.fq, tuple(sorted(en2.items(), key=lambda kv: kv[0])))
                    if k2 not in seen:
                        seen[k2] = k
                        envs[k2], infos[k2] = en2, t
                        stack.append(k2)
            for t in self.nested(fi):
                k2 = (t.fq, ())
                if k2 not in seen:
                    seen[k2] = k
                    envs[k2], infos[k2] = {}, t
                    stack.append(k2)
        first: Dict[str, tuple] = {}
        for k in seen:
            first.setdefault(k[0], k)

        def chain(fq: str) -> List[str]:
            out, k = [], first[fq]
            while k is not None:
                flags = ", ".join(f"{a}={b!r}" for a, b in k[1])
                out.append(k[0].replace("sqlfluff.", "", 1) + (f"[{flags}]" if flags else ""))
                k = seen[k]
            return list(reversed(out))

        return first, chain


def _short_entry(rel: str, q: str) -> str:
    return ("cli." if rel == CLI else "api." if rel == API else "") + q


def _write_sinks(repo) -> Tuple[Dict[str, List[str]], List[ast.Call]]:
    import re

    from ..iohelpers import PATH_WRITE_METHODS

    # textual pre-filter, a superset of what write_kind can match (keeps the big dialect modules out of the walk)
    rx = re.compile(r"\bopen\s*\(|tempfile|shutil|\bos\b|\bio\b|codecs|logging|pathlib|Path\b|\.(?:%s)\s*\(" % "|".join(sorted(PATH_WRITE_METHODS)))
    sinks: Dict[str, List[str]] = {}
    loose: List[ast.Call] = []
    for m in repo.modules.values():
        if not rx.search(m.text):
            continue
        for c in all_calls(m):
            k = write_kind(c)
            if not k:
                continue
            cons = construct_of(c)
            if cons.endswith("::<module>"):
                loose.append(c)
            sinks.setdefault(cons, []).append(k)
    return sinks, loose


def _r32a(chk) -> None:
    repo = chk.repo
    cg = CallGraph(repo)
    st = cg.stats()
    chk.count("R32a.callgraph_functions", st["functions"])
    chk.floor("R32a.callgraph_functions", 1000)
    chk.note(f"R32a call graph: {st['functions']} functions, {st['calls']} calls, {st['resolved_ratio']:.0%} resolved (by-name edges kept, ambiguous ones expanded to every candidate).")
    sinks, loose = _write_sinks(repo)
    chk.count("R32a.write_capable_functions", len(sinks))
    chk.floor("R32a.write_capable_functions", 4)
    for c in loose:
        chk.fail("R32a", c, f"write-capable call {write_kind(c)} at import time (module level): executed by every command, including lint/parse/render", detail=f"module-level {write_kind(c)}")
    forbidden = {}
    for cons in sinks:
        if cons in ARTEFACT_WRITERS or cons.endswith("::<module>"):
            continue
        rel, q = cons.split("::", 1)
        fq = f"{repo.mod(rel).dotted}.{q}"
        if fq in cg.funcs:
            forbidden[fq] = cons
    chk.count("R32a.forbidden_sinks", len(forbidden))
    chk.floor("R32a.forbidden_sinks", 1)
    fr = FlagReach(cg)
    flag_decided = 0
    for rel, q, mode in ENTRIES:
        root = cg.fn(rel, q)  # AnalysisError if the entry point vanished
        env = default_flags(root.node) if mode == "defaults" else {}
        first, chain = fr.reach(root, env)
        plain, _ = fr.reach(root, {}, flag_aware=False)
        chk.count("R32a.entry_points")
        chk.count(f"R32a.reachable_from[{_short_entry(rel, q)}]", len(first))
        n_plain = sum(1 for fq in forbidden if fq in plain)
        chk.count("R32a.writers_reachable_ignoring_flags", n_plain)
        for fq, cons in sorted(forbidden.items()):
            hit = fq in first
            if fq in plain and not hit:
                flag_decided += 1
            kinds = ", ".join(sorted(set(sinks[cons])))
            chk.require(
                not hit, "R32a", cg.funcs[fq].node if hit else root.node,
                f"file-writing function {cons} ({kinds}) is reachable from {q}"
                + (" called with its default flags" if mode == "defaults" else "")
                + (": " + " -> ".join(chain(fq)) if hit else ""),
                detail=f"{q} reaches {cons.split('::', 1)[1]}",
                construct=f"{rel}::{q}",
            )
        chk.sample({"rule": "R32a", "entry": f"{rel}::{q}", "flags": {k: v for k, v in env.items()}, "reachable_functions": len(first), "writers_reachable_ignoring_flags": n_plain, "writers_reachable": sum(1 for fq in forbidden if fq in first)}, limit=20)
        # artefact writers must stay what they are: reached only from the CLI
        if mode == "defaults":
            for cons in ARTEFACT_WRITERS:
                r2, q2 = cons.split("::", 1)
                fq2 = f"{repo.mod(r2).dotted}.{q2}" if r2 in repo.modules else None
                if fq2 and fq2 in first and not q2.startswith("LintingResult."):
                    chk.fail("R32a", root.node, f"output-artefact writer {cons} is reachable from the library entry point {q}", detail=f"{q} reaches artefact writer {q2}", construct=f"{rel}::{q}")
    chk.count("R32a.paths_decided_by_flags", flag_decided)
    # anchor: a writer is reachable when flags are ignored, i.e. it is the flag analysis that decides
    chk.floor("R32a.writers_reachable_ignoring_flags", 1)
    chk.floor("R32a.entry_points", len(ENTRIES))
    chk.floor("R32a.reachable_from[cli.lint]", 100)
    chk.floor("R32a.reachable_from[Linter.lint_paths]", 100)
    chk.note(f"R32a: {len(fr.dead_edges)} call edge traversals were cut by a constant flag (e.g. " + "; ".join(sorted({f'{a.rsplit(chr(46), 1)[-1]}: {short(c, 40)} [{w}]' for a, c, w in fr.dead_edges})[:3]) + ").")


# ---------------------------------------------------------------------------
# R32b
# ---------------------------------------------------------------------------


def check_state(chk, rule: str, state, reviewed: Dict[str, Tuple[str, Tuple[str, ...]]], select=None, what: str = "a later lint in the same process") -> Tuple[int, int]:
    """Shared by C21: every mutated cell (optionally filtered by ``select(cell, site)``)
    must be a reviewed row and every site must be in a function of that row."""
    n_cells = n_sites = 0
    seen_rows = set()
    for key, sites in sorted(state.mutated_cells().items()):
        sites = [s for s in sites if select is None or select(s.cell, s)]
        if not sites:
            continue
        n_cells += 1
        row = reviewed.get(key)
        for s in sites:
            n_sites += 1
            hows = s.how.split(" via ")[0]
            if row is None:
                chk.fail(
                    rule, s.node,
                    f"process-lifetime state {key} ({'container' if s.cell.container else s.cell.kind + ' cell'}) is mutated here ({s.how}) and is not in the reviewed "
                    f"state table: what this leaves behind is visible to {what}",
                    detail=f"mutates {key}: {hows}", construct=s.construct,
                )
            elif s.construct not in row[1]:
                chk.fail(
                    rule, s.node,
                    f"new mutation site of reviewed shared state {key} ({s.how}); reviewed writers are {', '.join(x.split('::')[1] for x in row[1])} — the review ('{row[0][:80]}…') does not cover this one",
                    detail=f"mutates {key}: {hows}", construct=s.construct,
                )
            else:
                seen_rows.add(key)
                chk.ok(rule, s.construct, f"reviewed: {key} {hows}")
    return n_cells, n_sites


def _r32b(chk) -> None:
    repo = chk.repo
    st = inventory(repo)
    conts = st.containers()
    chk.count("R32b.functions_scanned", st.n_functions)
    chk.count("R32b.mutation_shapes_classified", st.n_shapes)
    chk.count("R32b.shared_containers", len(conts))
    chk.floor("R32b.functions_scanned", 1000)
    chk.floor("R32b.shared_containers", 60)
    mutated = st.mutated_cells()
    n_cells, n_sites = check_state(chk, "R32b", st, REVIEWED_STATE)
    chk.count("R32b.mutated_cells", n_cells)
    chk.count("R32b.mutation_sites", n_sites)
    n_const = 0
    for c in conts:
        if c.key not in mutated:
            n_const += 1
            chk.ok("R32b", c.key, "constant table (no mutation site in any function)")
    chk.count("R32b.constant_tables", n_const)
    for key in REVIEWED_STATE:
        if key not in mutated:
            chk.note(f"R32b: reviewed state row without a mutation site (stale, harmless): {key}")
    for k, ss in list(mutated.items())[:6]:
        chk.sample({"rule": "R32b", "cell": k, "kind": ss[0].cell.kind, "sites": [f"{s.construct.split('::')[1]}:{s.node.lineno} {s.how}" for s in ss]})
    # global statements are covered as 'global-rebind' sites; nonlocal is closure state (per call)
    chk.count("R32b.global_statements", len(st.globals_decl))
    chk.count("R32b.nonlocal_statements", len(st.nonlocals_decl))
    # caches
    mutated_keys = set(mutated)
    for c in st.caches:
        chk.count("R32b.process_caches")
        if not chk.require(
            c.key in REVIEWED_CACHES, "R32b", c.func,
            f"{c.key.split('::')[1]} is memoised for the process ({c.decorator}) and is not in the reviewed cache table: its first answer is served to every later lint",
            detail=f"process cache {c.key.split('::')[1]}", construct=c.key,
        ):
            continue
        # the cached result may only depend on the key
        m = c.module
        for n in walk_local(c.func):
            if isinstance(n, ast.Name) and isinstance(n.ctx, ast.Load):
                r = st.resolve_global(m, n.id, []) if n.id not in _bound_names(c.func) else None
                if r and r[0] == "cell" and r[1].key in mutated_keys:
                    chk.fail("R32b", n, f"memoised function reads mutable shared state {r[1].key}: the cached answer depends on something that is not part of the key", detail=f"cache reads {r[1].key}", construct=c.key)
    chk.floor("R32b.process_caches", 3)
    for key in REVIEWED_CACHES:
        if key not in {c.key for c in st.caches}:
            chk.note(f"R32b: reviewed cache row without a cached function (stale, harmless): {key}")


def _bound_names(f) -> set:
    from ..state import _own_locals

    return _own_locals(f)[0]


# ---------------------------------------------------------------------------
# R32c
# ---------------------------------------------------------------------------


def _path_text(param: str, path: List[str]) -> str:
    out = param
    for p in path:
        out += "[*]" if p == "[*]" else ("[]" if p == "[]" else f".{p}")
    return out


def param_roots(f: ast.AST, recv: ast.AST, node: ast.AST) -> List[Tuple[str, str]]:
    """Parameters of ``f`` the mutated object ``recv`` is reached from, with the access
    path: ('p', 'p.a') for ``p.a`` / a plain alias of it, ('p', 'p.a[*]') for an element
    obtained by iterating over ``p.a``."""
    root, path = chain_of(recv)
    if not isinstance(root, ast.Name):
        return []
    skip = set()
    if f.args.args and f.args.args[0].arg in ("self", "cls") and isinstance(getattr(f, "_parent", None), ast.ClassDef):
        skip.add(f.args.args[0].arg)
    cfg = cfg_of(f)
    st = node if isinstance(node, ast.stmt) else cfg.stmt_of(node)
    out: List[Tuple[str, str]] = []

    def params_of_name(nm: ast.Name, at) -> List[str]:
        return [o.expr.arg for o in origins(cfg, nm, at) if o.kind == "param" and not o.path and o.expr.arg not in skip]

    try:
        os_ = origins(cfg, root, st)
    except Exception:  # pragma: no cover
        return []
    for o in os_:
        if o.kind == "param":
            if o.expr.arg not in skip and not o.path:
                out.append((o.expr.arg, _path_text(o.expr.arg, path)))
        elif o.kind == "for":
            it = o.expr
            while isinstance(it, ast.Call) and isinstance(it.func, ast.Name) and it.func.id in ("enumerate", "reversed", "sorted", "list", "tuple", "iter", "zip") and it.args:
                it = it.args[0]
            r2, p2 = chain_of(it)
            if isinstance(r2, ast.Name):
                for p in params_of_name(r2, o.stmt):
                    out.append((p, _path_text(p, p2 + ["[*]"] + path)))
        elif o.kind == "expr" and isinstance(o.expr, (ast.Attribute, ast.Subscript)) and not o.path:
            # alias of something reached from a parameter: x = p.attr ; x.append(..)
            r2, p2 = chain_of(o.expr)
            if isinstance(r2, ast.Name) and r2.id != root.id:
                for p in params_of_name(r2, o.stmt):
                    out.append((p, _path_text(p, p2 + path)))
    return sorted(set(out))


def _augassign_in_place(f: ast.AST, sh) -> bool:
    """``x += v`` mutates the object ``x`` names (instead of rebinding ``x``) when that
    object is a list / set / dict: decided from the annotation of ``x`` (parameter or
    annotated assignment) or, failing that, from ``v`` being a list / set display."""
    name = sh.recv.id if isinstance(sh.recv, ast.Name) else None
    if name is None:
        return False
    anns = [a.annotation for a in f.args.posonlyargs + f.args.args + f.args.kwonlyargs if a.arg == name and a.annotation is not None]
    anns += [n.annotation for n in walk_local(f) if isinstance(n, ast.AnnAssign) and isinstance(n.target, ast.Name) and n.target.id == name]
    for a in anns:
        t = norm(a).lower().replace("typing.", "")
        for wrap in ("optional[",):
            if t.startswith(wrap):
                t = t[len(wrap):]
        if t.startswith(("list", "dict", "set", "mutable", "defaultdict", "deque")):
            return True
    if anns:
        return False
    v = sh.node.value if isinstance(sh.node, ast.AugAssign) else None
    return isinstance(v, (ast.List, ast.ListComp, ast.Set, ast.SetComp)) or (isinstance(v, ast.Call) and norm(v.func) in ("list", "set"))


_OP_CLASSES = {
    "adds-keys": ("item-store", "call .update()", "call .setdefault()"),
    "adds-elements": ("call .append()", "call .extend()", "call .insert()", "call .add()"),
    "removes-elements": ("call .pop()", "call .remove()", "call .discard()", "call .popitem()", "item-del"),
}


def _op_class(sh, how: str) -> Optional[str]:
    """Effect class of a mutation spelling; an augmented assignment is classified by its operator."""
    for k, members in _OP_CLASSES.items():
        if how in members:
            return k
    if how == "augassign" and sh is not None and isinstance(sh.node, ast.AugAssign):
        if isinstance(sh.node.op, ast.BitOr):
            return "adds-keys"
        if isinstance(sh.node.op, ast.Add):
            return "adds-elements"
    return None


def _r32c(chk) -> None:
    repo = chk.repo
    n_fn = n_sites = 0
    seen_rows = set()
    for pref in ARG_SCOPES:
        mods = list(repo.iter_modules(pref))
        if not mods:
            raise AnalysisError(f"R32c: no module under {pref}")
        for m in mods:
            for q, f in m.functions():
                n_fn += 1
                if not _param_names(f):
                    continue
                cons = f"{m.relpath}::{q}"
                for sh in mutation_shapes(f):
                    if sh.how in ("global-rebind", "global-del", "next()"):
                        continue
                    for p, path in param_roots(f, sh.recv, sh.node):
                        if sh.how == "augassign" and not _augassign_in_place(f, sh):
                            continue  # x += v rebinds the local unless x is a list / dict / set
                        n_sites += 1
                        how = sh.how.split(" via ")[0]
                        row = REVIEWED_ARG_MUTATIONS.get((cons, path))
                        # a reviewed operation covers the other spellings of the same effect (adds keys / adds
                        # elements / removes elements): ``m[k] = v`` ~ ``m.update({k: v})``, ``xs.append(x)`` ~ ``xs += [x]``
                        ok = row is not None and (how in row[1] or (_op_class(sh, how) is not None and _op_class(sh, how) in {_op_class(None, r) for r in row[1]}))
                        if ok:
                            seen_rows.add((cons, path))
                        chk.require(
                            ok, "R32c", sh.node,
                            f"{q} mutates an object owned by its caller ({path}: {short(sh.node, 70)})"
                            + (f" in a way the review of this parameter does not cover (reviewed: {', '.join(row[1])})" if row is not None else "")
                            + "; on the lint path the caller's object may be shared between files or passes (rule pack, reference map, config, parsed file), so the change is visible to whatever uses it next",
                            detail=f"mutates {path}: {how}", construct=cons,
                        )
                        if ok and len(chk.samples) < 18:
                            chk.sample({"rule": "R32c", "site": f"{m.relpath}:{sh.node.lineno}", "function": q, "object": path, "how": how, "reviewed": row[0][:60]}, limit=18)
    chk.count("R32c.functions_scanned", n_fn)
    chk.count("R32c.argument_mutation_sites", n_sites)
    chk.floor("R32c.functions_scanned", 150)
    chk.floor("R32c.argument_mutation_sites", 10)
    for row in REVIEWED_ARG_MUTATIONS:
        if row not in seen_rows:
            chk.note(f"R32c: reviewed row without a site (stale, harmless): {row[0].split('::')[1]} / {row[1]}")


def run(chk) -> None:
    chk.rule("R32a", "no file-writing function (other than the writers of a user-named output artefact) is reachable from the lint / parse / render entry points under the constant flags they pass")
    chk.rule("R32b", "every module-/class-level object mutated inside a function, every `global` rebinding and every process cache is a reviewed row (cell, writers); all other shared containers are constant tables")
    chk.rule("R32c", "functions of core/linter, core/rules and core/config mutate caller-owned arguments only at the reviewed (function, parameter) rows")
    _r32a(chk)
    _r32b(chk)
    _r32c(chk)
    chk.rule("R32d", "a templater object (one per Linter, reused for every file) keeps nothing derived from one file: core templater classes store to / mutate self-owned objects only in __init__, also through local aliases")
    _r32d(chk)
    chk.rule("R32e", "a keyed memo (`if k in c: v = c[k] else: v = f(..); c[k] = v`) identifies every input of the memoised computation that varies with what the key is derived from")
    _r32e(chk)
    chk.rule("R32f", "in the templaters, attributes are set dynamically (setattr) only on objects created for the call: the receiver of every setattr(..) in core/templaters is a fresh instance, not a class object or another value that outlives the call")
    _r32f(chk)
    chk.rule("R32g", "every call of a process-wide memoised config loader that is keyed on a path (load_config_file_as_dict, load_config_at_path) passes a path that is absolute by construction (resolve() / abspath() / expanduser('~..') / a reviewed absolute source, kept through str / Path / join / `/` / dirname, through locals, element-wise through comprehensions and loops over such values, through the parameters and the return values of module-level helpers): the key identifies the file whatever the working directory")
    _r32g(chk)
    chk.exhaustive = True
    chk.assumptions.append("CPython ast gives the program's syntax faithfully; the reviewed tables (ARTEFACT_WRITERS, REVIEWED_STATE, REVIEWED_CACHES, REVIEWED_ARG_MUTATIONS in sa/rules/c32.py) were reviewed by hand")
    chk.assumptions.append("calls through values the call graph cannot type are resolved by method name over the whole tree (over-approximation); calls inside lambda bodies and calls made by libraries outside the tree are not followed")


_R32G_ABS_MAKERS = ("resolve", "abspath", "realpath", "absolute", "home", "cwd", "getcwd")
_R32G_ABS_KEEPERS = ("str", "Path", "expanduser", "dirname", "normpath", "fspath")
_R32G_SEQ_KEEPERS = ("list", "tuple", "sorted", "reversed", "set", "frozenset", "iter")
# functions whose return value is an absolute path (read by hand)
_R32G_REVIEWED_ABS = {"_get_user_config_dir_path": "platformdirs' user config directory (or ~/.config expanded): absolute"}
_R32G_COMPS = (ast.ListComp, ast.SetComp, ast.GeneratorExp, ast.DictComp)


def _r32g_comp_iter(name: ast.Name):
    """The iterable a comprehension variable ranges over, when ``name`` is one (innermost binding)."""
    child, p = name, getattr(name, "_parent", None)
    while p is not None and not isinstance(p, (ast.FunctionDef, ast.AsyncFunctionDef, ast.Lambda, ast.ClassDef)):
        if isinstance(p, _R32G_COMPS):
            for g in p.generators:
                if isinstance(g.target, ast.Name) and g.target.id == name.id and child is not g.iter:
                    return g.iter
        child, p = p, getattr(p, "_parent", None)
    return None


def _r32g_elems_abs(repo, m, f, cfg, e, at, depth: int) -> bool:
    """Every element ``e`` yields is an absolute path by construction: a comprehension / generator whose
    element is, a display of such, ``list()/tuple()/sorted()/..`` or a slice of such, a local holding one."""
    if depth > 14 or e is None:
        return False
    if isinstance(e, (ast.ListComp, ast.SetComp, ast.GeneratorExp)):
        return _r32g_abs(repo, m, f, cfg, e.elt, at, depth + 1)
    if isinstance(e, (ast.Tuple, ast.List, ast.Set)):
        return bool(e.elts) and all(not isinstance(x, ast.Starred) and _r32g_abs(repo, m, f, cfg, x, at, depth + 1) for x in e.elts)
    if isinstance(e, ast.Call) and isinstance(e.func, ast.Name) and e.func.id in _R32G_SEQ_KEEPERS and len(e.args) == 1:
        return _r32g_elems_abs(repo, m, f, cfg, e.args[0], at, depth + 1)
    if isinstance(e, ast.Subscript) and isinstance(e.slice, ast.Slice):
        return _r32g_elems_abs(repo, m, f, cfg, e.value, at, depth + 1)
    if isinstance(e, ast.Name):
        it = _r32g_comp_iter(e)
        if it is not None:
            return False  # a sequence of sequences: not read
        os_ = origins(cfg, e, at)
        return bool(os_) and all(
            o.kind == "expr" and isinstance(o.expr, ast.AST) and not o.path and _r32g_elems_abs(repo, m, f, cfg, o.expr, o.stmt if o.stmt is not None else at, depth + 1)
            for o in os_
        )
    return False


def _r32g_abs(repo, m, f, cfg, e, at, depth: int = 0) -> bool:
    """``e`` is an absolute path by construction (never relative to the current directory)."""
    if depth > 14 or e is None:
        return False
    if isinstance(e, ast.BinOp) and isinstance(e.op, ast.Div):
        return _r32g_abs(repo, m, f, cfg, e.left, at, depth + 1)  # pathlib `a / b`: as os.path.join(a, b)
    if isinstance(e, ast.Call):
        la = last_attr(e)
        if la in _R32G_ABS_MAKERS:
            return True
        if la in _R32G_REVIEWED_ABS:
            return True
        if la in _R32G_ABS_KEEPERS and e.args:
            a = e.args[0]
            if la == "expanduser" and isinstance(a, ast.Constant) and isinstance(a.value, str) and a.value.startswith("~"):
                return True
            return _r32g_abs(repo, m, f, cfg, a, at, depth + 1)
        if la == "join" and e.args:
            return _r32g_abs(repo, m, f, cfg, e.args[0], at, depth + 1)
        if isinstance(e.func, ast.Name):
            # a plain module-level helper of this module: absolute when every value it returns is
            helper = next((f2 for q2, f2 in m.functions() if q2 == e.func.id and not f2.decorator_list and isinstance(f2, ast.FunctionDef)), None)
            if helper is not None and helper is not f:
                rets = [r for r in walk_local(helper) if isinstance(r, ast.Return)]
                if rets and not any(isinstance(n, (ast.Yield, ast.YieldFrom)) for n in walk_local(helper)):
                    cfg2 = cfg_of(helper)
                    return all(r.value is not None and _r32g_abs(repo, m, helper, cfg2, r.value, r, depth + 1) for r in rets)
        return False
    if isinstance(e, ast.Name):
        it = _r32g_comp_iter(e)
        if it is not None:
            return _r32g_elems_abs(repo, m, f, cfg, it, at, depth + 1)
        os_ = origins(cfg, e, at)
        if not os_:
            return False
        for o in os_:
            if o.kind == "expr" and isinstance(o.expr, ast.AST) and not o.path:
                if not _r32g_abs(repo, m, f, cfg, o.expr, o.stmt if o.stmt is not None else at, depth + 1):
                    return False
            elif o.kind == "for" and not o.path and isinstance(o.stmt, ast.For) and isinstance(o.stmt.target, ast.Name):
                if not _r32g_elems_abs(repo, m, f, cfg, o.stmt.iter, o.stmt, depth + 1):
                    return False
            elif o.kind == "param":
                pname = o.expr.arg if isinstance(getattr(o, "expr", None), ast.arg) else e.id
                params = [a.arg for a in f.args.posonlyargs + f.args.args + f.args.kwonlyargs]
                if pname not in params:
                    return False
                idx = params.index(pname)
                sites = []
                for q2, f2 in m.functions():
                    for c in calls_in(f2):
                        if isinstance(c.func, ast.Name) and c.func.id == f.name:
                            sites.append((f2, c))
                if not sites:
                    return False
                for f2, c in sites:
                    a = next((k.value for k in c.keywords if k.arg == pname), None)
                    if a is None and len(c.args) > idx and not any(isinstance(x, ast.Starred) for x in c.args[: idx + 1]):
                        a = c.args[idx]
                    cfg2 = cfg_of(f2)
                    if a is None or not _r32g_abs(repo, m, f2, cfg2, a, cfg2.stmt_of(c), depth + 1):
                        return False
            else:
                return False
        return True
    return False


def _r32g(chk) -> None:
    repo = chk.repo
    cached = {}
    for m in repo.iter_modules("src/sqlfluff/core/config/"):
        for q, f in m.functions():
            decos = [norm(d) for d in f.decorator_list]
            if any(d.split("(")[0].split(".")[-1] in ("cache", "lru_cache") for d in decos):
                params = [a.arg for a in f.args.posonlyargs + f.args.args]
                if params and any(k in params[0].lower() for k in ("path", "file", "dir")):
                    cached[f.name] = (m, f, params[0])
    if "load_config_file_as_dict" not in cached:
        raise AnalysisError("R32g: load_config_file_as_dict is no longer a memoised function of core/config taking a path (anchor refactored)")
    n = 0
    for m in repo.iter_modules("src/sqlfluff/"):
        if not any(name in m.text for name in cached):
            continue
        for q, f in m.functions():
            for c in calls_in(f):
                name = c.func.id if isinstance(c.func, ast.Name) else (c.func.attr if isinstance(c.func, ast.Attribute) else None)
                if name not in cached or (isinstance(c.func, ast.Attribute) and c.func.attr in ("cache_clear", "cache_info")):
                    continue
                pname = cached[name][2]
                a = next((k.value for k in c.keywords if k.arg == pname), None) or (c.args[0] if c.args else None)
                if a is None:
                    continue
                n += 1
                cfg = cfg_of(f)
                ok = _r32g_abs(repo, m, f, cfg, a, cfg.stmt_of(c))
                chk.require(
                    ok, "R32g", c,
                    f"{q} calls the process-wide memoised {name}() with `{short(a, 60)}`, which is not an absolute path by construction (no resolve() / abspath() on the way): the cache key "
                    "then depends on the working directory of the moment, and a later lint from another directory that spells its file the same way is served the first file's config",
                    detail=f"{q}: memoised {name} keyed on an absolute path",
                )
    chk.count("R32g.memoised_path_functions", len(cached))
    chk.count("R32g.call_sites", n)
    chk.floor("R32g.call_sites", 5)


def _r32f(chk) -> None:
    """`libraries = self.Libraries` (the class, not an instance) followed by setattr(libraries, name, module): the
    imported modules of one file's library_path stay on the class and are served to every later file."""
    repo = chk.repo
    n = 0
    for m in repo.iter_modules("src/sqlfluff/core/templaters/"):
        if "setattr" not in m.text:
            continue
        for q, f in m.functions():
            cs = [c for c in calls_in(f) if isinstance(c.func, ast.Name) and c.func.id == "setattr" and c.args]
            if not cs:
                continue
            cfg = cfg_of(f)
            for c in cs:
                n += 1
                recv = c.args[0]
                exprs = [recv]
                if isinstance(recv, ast.Name):
                    os_ = origins(cfg, recv, cfg.stmt_of(c))
                    exprs = [o.expr if o.kind == "expr" else None for o in os_]
                def fresh(e) -> bool:
                    if e is None:
                        return False
                    if isinstance(e, ast.Call):
                        return True  # constructed (or returned) for this call
                    if isinstance(e, ast.Attribute) and isinstance(e.value, ast.Name) and not e.attr[:1].isupper() and e.value.id not in ("self", "cls"):
                        return True  # an attribute of a local object
                    return False
                bad = [short(e, 40) if e is not None else "a parameter / loop value" for e in exprs if not fresh(e)]
                chk.require(
                    not bad, "R32f", c,
                    f"{q}: `{short(c, 50)}` sets attributes on {bad}, which is not an object created for this call (a class object keeps what one file's configuration put "
                    "there for every later file of the process)",
                    detail=f"{q}: setattr only on an object created for the call",
                )
    chk.count("R32f.setattr_sites", n)
    chk.floor("R32f.setattr_sites", 1)


def _r32d(chk) -> None:
    """One templater is created per Linter and process() is called once per file with that file's
    config.  Writing into an object the templater owns (self.default_context, self.override_context, a
    memo attribute) from process()/get_context() carries one file's configuration into the next."""
    repo = chk.repo
    MUT = ("update", "setdefault", "append", "add", "pop", "popitem", "clear", "extend", "insert", "remove", "__setitem__")
    n_cls = n_bad = 0
    for m in repo.iter_modules("src/sqlfluff/core/templaters/"):
        for qc, c in m.classes():
            if not any(cc.name == "RawTemplater" for _, cc in repo.mro(m, c)):
                continue
            n_cls += 1
            for item in c.body:
                if not isinstance(item, FuncNode) or item.name == "__init__":
                    continue
                cfg = cfg_of(item)

                def owned(e, at, depth=0) -> Optional[str]:
                    """`self.<attr>` or a local that is (on some path) a plain alias of it."""
                    if isinstance(e, ast.Attribute) and isinstance(e.value, ast.Name) and e.value.id == "self":
                        return f"self.{e.attr}"
                    if isinstance(e, ast.Name) and depth < 3:
                        for o in origins(cfg, e, at):
                            if o.kind == "expr" and not o.path and o.expr is not None:
                                r = owned(o.expr, o.stmt, depth + 1)
                                if r:
                                    return r
                    return None

                for n in walk_local(item):
                    hits = []
                    if isinstance(n, (ast.Assign, ast.AugAssign, ast.AnnAssign)):
                        tgs = n.targets if isinstance(n, ast.Assign) else [n.target]
                        for t in tgs:
                            if isinstance(t, ast.Attribute) and isinstance(t.value, ast.Name) and t.value.id == "self":
                                hits.append(f"store to self.{t.attr}")
                            if isinstance(t, ast.Subscript):
                                o_ = owned(t.value, n)
                                if o_:
                                    hits.append(f"item store into {o_}")
                    if isinstance(n, ast.Call) and isinstance(n.func, ast.Attribute) and n.func.attr in MUT:
                        o_ = owned(n.func.value, cfg.stmt_of(n) or n)
                        if o_:
                            hits.append(f".{n.func.attr}() on {o_}")
                    for h in hits:
                        n_bad += 1
                        chk.fail(
                            "R32d", n,
                            f"{c.name}.{item.name}: {h} (`{short(n, 70)}`): the templater object outlives the file, so this file's configuration or text leaks into "
                            "every later file linted by the same Linter (the result of a file then depends on which files were linted before it)",
                            detail=f"{c.name}.{item.name}: {h}",
                        )
    chk.count("R32d.templater_classes", n_cls)
    chk.count("R32d.state_writes_outside_init", n_bad)
    chk.floor("R32d.templater_classes", 4)
    if not n_bad:
        chk.ok("R32d", "core templater classes", "no write to templater-owned objects outside __init__")


def _r32e(chk) -> None:
    repo = chk.repo
    n = 0
    for m in repo.iter_modules("src/sqlfluff/"):
        if m.relpath.startswith("src/sqlfluff/utils/testing/"):
            continue
        for q, f in m.functions():
            stores = [(st, t) for st in walk_local(f) if isinstance(st, ast.Assign) for t in st.targets
                      if isinstance(t, ast.Subscript) and isinstance(t.value, ast.Name) and isinstance(t.slice, ast.Name)]
            for st, t in stores:
                cname, kname = t.value.id, t.slice.id
                reads = [x for x in walk_local(f) if isinstance(x, ast.Subscript) and isinstance(x.ctx, ast.Load) and norm(x.value) == cname and norm(x.slice) == kname]
                tests = [x for x in walk_local(f) if isinstance(x, ast.Compare) and len(x.ops) == 1 and isinstance(x.ops[0], (ast.In, ast.NotIn))
                         and norm(x.comparators[0]) == cname and norm(x.left) == kname]
                if not reads or not tests:
                    continue
                n += 1
                cfg = cfg_of(f)
                params = {a.arg for a in f.args.args + f.args.kwonlyargs}

                def cone(e, at, depth=0, acc=None):
                    """expressions a value derives from, through plain locals"""
                    acc = acc if acc is not None else []
                    if any(e is y for y in acc) or depth > 6:
                        return acc
                    acc.append(e)
                    for sub in ast.walk(e):
                        if isinstance(sub, ast.Name) and sub.id not in params:
                            for o in origins(cfg, sub, at):
                                if o.kind == "expr" and o.expr is not None:
                                    cone(o.expr, o.stmt, depth + 1, acc)
                    return acc

                def paths(exprs):
                    """(root parameter, access-path text, whole?) for every parameter-rooted chain; whole = the object itself
                    is used (passed on, id()-ed), not just one named read of it"""
                    out = set()
                    for e in exprs:
                        for sub in ast.walk(e):
                            if isinstance(sub, (ast.Attribute, ast.Name)):
                                par = getattr(sub, "_parent", None)
                                if isinstance(par, ast.Attribute) and par.value is sub:
                                    continue  # not the top of its chain
                                r_ = sub
                                while isinstance(r_, ast.Attribute):
                                    r_ = r_.value
                                if not (isinstance(r_, ast.Name) and r_.id in params):
                                    continue
                                # `<chain>.get("name")` is a named read; anything else uses the object as a whole
                                if isinstance(par, ast.Call) and par.func is sub and isinstance(sub, ast.Attribute) and sub.attr in ("get", "get_section") and par.args and isinstance(par.args[0], ast.Constant):
                                    out.add((r_.id, norm(sub.value) + f".get({par.args[0].value!r})", False))
                                elif isinstance(par, ast.Call) and par.func is sub:
                                    out.add((r_.id, norm(sub.value) if isinstance(sub, ast.Attribute) else norm(sub), True))
                                else:
                                    out.add((r_.id, norm(sub), True))
                    return out

                kp = paths(cone(t.slice, st))
                vp = paths(cone(st.value, st))
                key_roots = {r for r, _, _ in kp}
                key_whole = {p_ for _, p_, w in kp if w}
                key_reads = {p_ for _, p_, w in kp if not w}
                missing = []
                for r, p_, w in sorted(vp):
                    if r not in key_roots:
                        continue  # does not vary with what the key was derived from (same object for the whole run)
                    covered = any(p_ == kw or p_.startswith(kw + ".") for kw in key_whole) or (not w and p_ in key_reads)
                    if not covered:
                        missing.append(p_)
                chk.require(
                    not missing, "R32e", st,
                    f"{q}: the memo `{cname}` is keyed on {sorted(key_whole | key_reads)} but the stored value also depends on {missing}: two calls that agree on the key "
                    "and differ there get each other's result (what is reported for a file depends on which files came before it)",
                    detail=f"{q}: memo key of {cname} covers the inputs of the stored value",
                )
    chk.count("R32e.keyed_memos", n)
    chk.floor("R32e.keyed_memos", 1)


from ..selftest import Variant  # noqa: E402

LEXER = "src/sqlfluff/core/parser/lexer.py"
BASE = "src/sqlfluff/core/rules/base.py"
PLACEHOLDER = "src/sqlfluff/core/templaters/placeholder.py"
CONFIG_INFO = "src/sqlfluff/core/rules/config_info.py"

VARIANTS: List[Variant] = [
    Variant(
        "extra-config-cached-under-its-spelling", "src/sqlfluff/core/config/loader.py",
        "                str(Path(expanded_config_path).resolve())\n",
        "                os.path.normpath(expanded_config_path)\n",
        "R32g", "load_config_up_to_path", "seeded C32-7: the same relative --config from two directories shares a cache entry",
    ),
    Variant(
        "home-config-loaded-from-a-relative-spelling", "src/sqlfluff/core/config/loader.py",
        '        user_config = load_config_at_path(os.path.expanduser("~"))\n',
        '        user_config = load_config_at_path(os.path.relpath(os.path.expanduser("~")))\n',
        "R32g", "load_config_up_to_path", "a relative key for the memoised directory loader",
    ),
    Variant(
        "quiet-extra-config-resolved-through-a-local", "src/sqlfluff/core/config/loader.py",
        "            extra_config = load_config_file_as_dict(\n                str(Path(expanded_config_path).resolve())\n            )\n",
        "            resolved_extra = os.path.abspath(expanded_config_path)\n            extra_config = load_config_file_as_dict(resolved_extra)\n",
        "QUIET", None, "abspath through a local",
    ),
    # behaviour-preserving refactors: must stay quiet (R32g)
    Variant(
        'quiet-r32g-stack-built-in-a-loop', "src/sqlfluff/core/config/loader.py",
        '        config_stack = [load_config_at_path(str(p.resolve())) for p in config_paths]\n',
        '        config_stack = []\n        for cfg_dir in config_paths:\n            resolved_dir = cfg_dir.resolve()\n            config_stack.append(load_config_at_path(path=str(resolved_dir)))\n',
        "QUIET", None, 'comprehension as a loop, resolved path through a local, keyword argument',
    ),
    Variant(
        'quiet-r32g-paths-resolved-first', "src/sqlfluff/core/config/loader.py",
        '        config_stack = [load_config_at_path(str(p.resolve())) for p in config_paths]\n',
        '        resolved_paths = [str(p.resolve()) for p in config_paths]\n        config_stack = [load_config_at_path(rp) for rp in resolved_paths]\n',
        "QUIET", None, 'all paths resolved in a first comprehension, loaded in a second',
    ),
    Variant(
        'quiet-r32g-parents-resolved-then-looped', "src/sqlfluff/core/config/loader.py",
        '        parent_config_stack = [\n            load_config_at_path(str(p.resolve())) for p in list(parent_config_paths)\n        ]\n',
        '        resolved_parents = [p.resolve() for p in parent_config_paths]\n        parent_config_stack = []\n        for parent in resolved_parents:\n            parent_config_stack.append(load_config_at_path(str(parent)))\n',
        "QUIET", None, 'list of resolved paths walked by a for loop',
    ),
    Variant(
        'quiet-r32g-resolve-in-module-helper', "src/sqlfluff/core/config/loader.py",
        '            extra_config = load_config_file_as_dict(\n                str(Path(expanded_config_path).resolve())\n            )\n        except FileNotFoundError:\n            raise SQLFluffUserError(\n                f"Extra config path \'{extra_config_path}\' does not exist."\n            )\n\n    return nested_combine(\n        user_appdir_config,\n        user_config,\n        *parent_config_stack,\n        *config_stack,\n        extra_config,\n    )\n',
        '            extra_config = load_config_file_as_dict(_cache_key(expanded_config_path))\n        except FileNotFoundError:\n            raise SQLFluffUserError(\n                f"Extra config path \'{extra_config_path}\' does not exist."\n            )\n\n    return nested_combine(\n        user_appdir_config,\n        user_config,\n        *parent_config_stack,\n        *config_stack,\n        extra_config,\n    )\n\n\ndef _cache_key(some_path: str) -> str:\n    """The spelling of a path the memoised loaders are keyed on."""\n    return str(Path(some_path).resolve())\n',
        "QUIET", None, 'str(Path(..).resolve()) extracted into a module-level helper',
    ),
    Variant(
        'quiet-r32g-home-from-pathlib', "src/sqlfluff/core/config/loader.py",
        '        user_config = load_config_at_path(os.path.expanduser("~"))\n',
        '        home_dir = str(Path.home())\n        user_config = load_config_at_path(home_dir)\n',
        "QUIET", None, "the home directory from Path.home() (= expanduser('~')) through a local",
    ),
    Variant(
        'quiet-r32g-discovery-pathlib-join', "src/sqlfluff/core/linter/discovery.py",
        '    filepath = os.path.join(dirpath, filename)\n    # Use normalised path to ensure reliable caching.\n    config_dict = load_config_file_as_dict(Path(filepath).resolve())\n',
        '    filepath = os.path.join(dirpath, filename)\n    config_file = Path(dirpath) / filename\n    # Use normalised path to ensure reliable caching.\n    config_dict = load_config_file_as_dict(filepath=config_file.resolve())\n',
        "QUIET", None, 'os.path.join as pathlib `/`, keyword argument',
    ),
    Variant(
        'quiet-r32g-load-config-file-pathlib-join', "src/sqlfluff/core/config/loader.py",
        '    file_path = os.path.join(file_dir, file_name)\n    raw_config = load_config_file_as_dict(file_path)\n',
        '    config_file = Path(file_dir) / file_name\n    raw_config = load_config_file_as_dict(str(config_file))\n',
        "QUIET", None, 'directory / name with pathlib; the directory parameter is absolute at every call site',
    ),
    # ---- breaking twins of the R32g spellings above
    Variant(
        'r32g-paths-made-relative-first', "src/sqlfluff/core/config/loader.py",
        '        config_stack = [load_config_at_path(str(p.resolve())) for p in config_paths]\n',
        '        shown_paths = [os.path.relpath(p) for p in config_paths]\n        config_stack = [load_config_at_path(rp) for rp in shown_paths]\n',
        "R32g", 'load_config_up_to_path', 'twin of quiet-r32g-paths-resolved-first: keys relative to the working directory',
    ),
    Variant(
        'r32g-parents-looped-unresolved', "src/sqlfluff/core/config/loader.py",
        '        parent_config_stack = [\n            load_config_at_path(str(p.resolve())) for p in list(parent_config_paths)\n        ]\n',
        '        parent_names = [os.path.relpath(p) for p in parent_config_paths]\n        parent_config_stack = []\n        for parent in parent_names:\n            parent_config_stack.append(load_config_at_path(str(parent)))\n',
        "R32g", 'load_config_up_to_path', 'twin of quiet-r32g-parents-resolved-then-looped',
    ),
    Variant(
        'r32g-module-helper-only-normalises', "src/sqlfluff/core/config/loader.py",
        '            extra_config = load_config_file_as_dict(\n                str(Path(expanded_config_path).resolve())\n            )\n        except FileNotFoundError:\n            raise SQLFluffUserError(\n                f"Extra config path \'{extra_config_path}\' does not exist."\n            )\n\n    return nested_combine(\n        user_appdir_config,\n        user_config,\n        *parent_config_stack,\n        *config_stack,\n        extra_config,\n    )\n',
        '            extra_config = load_config_file_as_dict(_cache_key(expanded_config_path))\n        except FileNotFoundError:\n            raise SQLFluffUserError(\n                f"Extra config path \'{extra_config_path}\' does not exist."\n            )\n\n    return nested_combine(\n        user_appdir_config,\n        user_config,\n        *parent_config_stack,\n        *config_stack,\n        extra_config,\n    )\n\n\ndef _cache_key(some_path: str) -> str:\n    """The spelling of a path the memoised loaders are keyed on."""\n    return os.path.normpath(some_path)\n',
        "R32g", 'load_config_up_to_path', 'twin of quiet-r32g-resolve-in-module-helper: the helper does not make the path absolute (seeded C32-7 through a helper)',
    ),
    Variant(
        'r32g-pathlib-join-of-a-relative-directory', "src/sqlfluff/core/linter/discovery.py",
        '    filepath = os.path.join(dirpath, filename)\n    # Use normalised path to ensure reliable caching.\n    config_dict = load_config_file_as_dict(Path(filepath).resolve())\n',
        '    filepath = os.path.join(dirpath, filename)\n    config_file = Path(dirpath) / filename\n    config_dict = load_config_file_as_dict(config_file)\n',
        "R32g", '_load_configfile', 'twin of quiet-r32g-discovery-pathlib-join: resolve() dropped, dirpath is whatever the walk was started with',
    ),
    Variant(
        "libraries-namespace-is-the-class-object", "src/sqlfluff/core/templaters/jinja.py",
        "        libraries = JinjaTemplater.Libraries()\n",
        "        libraries = self.Libraries\n",
        "R32f", "_extract_libraries_from_config", "seeded C32-6: modules of an earlier file's library_path are served to later files",
    ),
    Variant(
        "templater-context-layered-onto-the-default-context", "src/sqlfluff/core/templaters/base.py",
        "        live_context = {}\n        live_context.update(self.default_context)\n",
        "        live_context = self.default_context\n",
        "R32d", "RawTemplater.get_context", "seeded C32-1: context keys of an earlier file stay defined for later files",
    ),
    Variant(
        "parse-noqa-memo-keyed-on-rule-selection-only", "src/sqlfluff/cli/commands.py",
        "    cache_key = id(parsed_string.config)\n",
        "    cache_key = (\",\".join(parsed_string.config.get(\"rule_allowlist\") or []), \",\".join(parsed_string.config.get(\"rule_denylist\") or []))\n",
        "R32e", "_get_filtered_parse_violations", "seeded C32-2: the first file's noqa policy is reused for files with the same rule selection",
    ),
    Variant(
        "quiet-parse-noqa-memo-key-through-local", "src/sqlfluff/cli/commands.py",
        "    cache_key = id(parsed_string.config)\n",
        "    file_config = parsed_string.config\n    cache_key = id(file_config)\n",
        "QUIET", None, "config object through a local before id()",
    ),
    # ---- behaviour-preserving edits: the check must stay quiet -------------------------
    Variant(
        "quiet-persist-flag-through-a-local", LINTER,
        "                if apply_fixes:\n",
        "                write_back = apply_fixes\n                if write_back:\n",
        "QUIET", None, "the gate of persist_tree spelled through a local copy of the flag",
    ),
    Variant(
        "quiet-lint-passes-the-flag-explicitly", CLI,
        "                retain_files=False,\n            )\n\n    # Output the final stats",
        "                retain_files=False,\n                apply_fixes=False,\n            )\n\n    # Output the final stats",
        "QUIET", None, "lint passes apply_fixes=False instead of relying on the default",
    ),
    Variant(
        "quiet-block-stack-through-alias", LEXER,
        "        self._stack.append(uuid)\n",
        "        stack = self._stack\n        stack.append(uuid)\n",
        "QUIET", None, "reviewed writer of the reviewed cell, spelled through an alias",
    ),
    Variant(
        "quiet-out-lists-through-aliases", BASE,
        "        new_lerrs.append(lerr)\n        new_fixes.extend(res.fixes)\n",
        "        errs_out, fixes_out = new_lerrs, new_fixes\n        errs_out.append(lerr)\n        fixes_out.extend(res.fixes)\n",
        "QUIET", None, "reviewed out-parameters written through tuple-unpacked aliases",
    ),
    Variant(
        "quiet-violations-copied-differently", LINTER,
        "        violations: list[SQLBaseError] = list(parsed.templating_violations)\n",
        "        violations: list[SQLBaseError] = [*parsed.templating_violations]\n",
        "QUIET", None, "another way of copying the caller's list before extending it",
    ),
    # ---- R32a ---------------------------------------------------------------------------
    # behaviour-preserving refactors: must stay quiet
    Variant(
        "quiet-special-codes-update", LINTER,
        '        for special_rule in ["PRS", "LXR", "TMP"]:\n            output_map[special_rule] = {special_rule}\n',
        '        output_map.update({code: {code} for code in ("PRS", "LXR", "TMP")})\n',
        "QUIET", None, 'three item stores as one update()',
    ),
    Variant(
        "quiet-special-codes-setdefault-free", LINTER,
        '        output_map = reference_map\n        # Add the special rules so they can be excluded for `disable_noqa_except` usage\n        for special_rule in ["PRS", "LXR", "TMP"]:\n            output_map[special_rule] = {special_rule}\n',
        '        # Add the special rules so they can be excluded for `disable_noqa_except` usage\n        for special_rule in ["PRS", "LXR", "TMP"]:\n            reference_map[special_rule] = {special_rule}\n        output_map = reference_map\n',
        "QUIET", None, 'stores through the parameter itself, alias bound afterwards',
    ),
    Variant(
        "quiet-out-lists-plus-eq", BASE,
        '        new_lerrs.append(lerr)\n        new_fixes.extend(res.fixes)\n',
        '        new_lerrs += [lerr]\n        new_fixes += res.fixes\n',
        "QUIET", None, 'append/extend spelled +=',
    ),
    Variant(
        "quiet-out-lists-extend-one", BASE,
        '        new_lerrs.append(lerr)\n',
        '        new_lerrs.extend([lerr])\n',
        "QUIET", None, 'append spelled extend([x])',
    ),
    Variant(
        "quiet-time-dict-direct", LINTER,
        '        time_dict["linting"] = time.monotonic() - t0\n',
        '        parsed.time_dict["linting"] = time.monotonic() - t0\n',
        "QUIET", None, 'item store through the attribute instead of the alias',
    ),
    Variant(
        "quiet-time-dict-update", LINTER,
        '        time_dict["linting"] = time.monotonic() - t0\n',
        '        time_dict.update(linting=time.monotonic() - t0)\n',
        "QUIET", None, 'item store spelled update()',
    ),
    Variant(
        "quiet-so-slices-del", "src/sqlfluff/core/linter/linted_file.py",
        '                source_only_slices.pop(0)\n',
        '                del source_only_slices[0]\n',
        "QUIET", None, 'pop(0) whose result is unused spelled del xs[0]',
    ),
    Variant(
        "quiet-used-setattr-loop-var", "src/sqlfluff/core/rules/noqa.py",
        '        for idx, ignore_rule in enumerate(ignore_rules):\n',
        '        for ignore_rule in ignore_rules:\n',
        "QUIET", None, 'enumerate dropped (index unused)',
    ),
    Variant(
        "quiet-persist-gate-inverted", LINTER,
        '                if apply_fixes:\n                    num_tmp_prs_errors',
        '                if not apply_fixes:\n                    continue\n                if True:\n                    num_tmp_prs_errors',
        "QUIET", None, 'gate as an early continue',
    ),
    Variant(
        "quiet-persist-gate-pass-else", LINTER,
        '                if apply_fixes:\n                    num_tmp_prs_errors',
        '                if not apply_fixes:\n                    pass\n                else:\n                    num_tmp_prs_errors',
        "QUIET", None, 'gate as the else arm of the negated test',
    ),
    Variant(
        "quiet-persist-gate-is-true", LINTER,
        '                if apply_fixes:\n                    num_tmp_prs_errors',
        '                if apply_fixes is True:\n                    num_tmp_prs_errors',
        "QUIET", None, '`apply_fixes is True` (the parameter is a bool)',
    ),
    Variant(
        "quiet-live-context-dict-call", "src/sqlfluff/core/templaters/base.py",
        '        live_context = {}\n        live_context.update(self.default_context)\n',
        '        live_context = dict(self.default_context)\n',
        "QUIET", None, 'fresh dict by dict(..)',
    ),
    Variant(
        "quiet-live-context-star", "src/sqlfluff/core/templaters/base.py",
        '        live_context = {}\n        live_context.update(self.default_context)\n        live_context.update(loaded_context)\n        live_context.update(self.override_context)\n',
        '        live_context = {**self.default_context, **loaded_context, **self.override_context}\n',
        "QUIET", None, 'fresh dict by ** unpacking',
    ),
    Variant(
        "quiet-discard-fixes-clear-free", BASE,
        '                lint_result.fixes = []\n',
        '                lint_result.fixes = list()\n',
        "QUIET", None, '[] spelled list()',
    ),
    # ---- breaking twins of the quiet spellings above ---------------------------------------------
    Variant(
        "reference-map-cleared", LINTER,
        '        output_map = reference_map\n        # Add the special rules',
        '        reference_map.clear()\n        output_map = reference_map\n        # Add the special rules',
        "R32c", "allowed_rule_ref_map", 'twin of quiet-special-codes-update: another class of operation on the reviewed parameter',
    ),
    Variant(
        "out-list-reset", BASE,
        '        new_lerrs.append(lerr)\n',
        '        new_lerrs.clear()\n        new_lerrs.append(lerr)\n',
        "R32c", "_process_lint_result", 'twin of quiet-out-lists-plus-eq',
    ),
    Variant(
        "out-list-minus", BASE,
        '        new_lerrs.append(lerr)\n',
        '        new_lerrs *= 1\n        new_lerrs.append(lerr)\n',
        "R32c", "_process_lint_result", 'twin: an augmented assignment that is not an addition',
    ),
    Variant(
        "work-list-appended", "src/sqlfluff/core/linter/linted_file.py",
        '                source_only_slices.pop(0)\n',
        '                source_only_slices.pop(0)\n                source_only_slices.append(next_so_slice)\n',
        "R32c", "_slice_source_file_using_patches", 'twin of quiet-so-slices-del: the work list grows',
    ),
    Variant(
        "gate-is-false", LINTER,
        '                if apply_fixes:\n                    num_tmp_prs_errors',
        '                if apply_fixes is False:\n                    num_tmp_prs_errors',
        "R32a", "lint", 'twin of quiet-persist-gate-is-true',
    ),
    Variant(
        "apply-fixes-defaults-to-true", LINTER,
        "        apply_fixes: bool = False,\n",
        "        apply_fixes: bool = True,\n",
        "R32a", "_safe_create_replace_file", "`sqlfluff lint` does not pass the flag: it would rewrite the files it lints",
    ),
    Variant(
        "persist-gate-dropped", LINTER,
        "                if apply_fixes:\n                    num_tmp_prs_errors",
        "                if True:\n                    num_tmp_prs_errors",
        "R32a", "_safe_create_replace_file",
    ),
    Variant(
        "lint-command-persists-result", CLI,
        "                retain_files=False,\n            )\n\n    # Output the final stats",
        "                retain_files=False,\n            )\n            result.persist_changes(formatter=formatter)\n\n    # Output the final stats",
        "R32a", "cli/commands.py::lint",
    ),
    Variant(
        "parse-string-dumps-rendered-sql", LINTER,
        "        rendered = self.render_string(in_str, fname, config, encoding)\n        violations += rendered.templater_violations\n",
        "        rendered = self.render_string(in_str, fname, config, encoding)\n        with open(fname + \".rendered\", \"w\", encoding=encoding) as fh:\n            fh.write(rendered.templated_variants[0].templated_str)\n        violations += rendered.templater_violations\n",
        "R32a", "parse_string", "a new writer on the parse path",
    ),
    Variant(
        "render-file-normalises-newlines-on-disk", LINTER,
        "        raw_file, config, encoding = self.load_raw_file_and_config(fname, root_config)\n        # Render the file\n",
        "        raw_file, config, encoding = self.load_raw_file_and_config(fname, root_config)\n        __import__(\"pathlib\").Path(fname).write_text(self._normalise_newlines(raw_file), encoding=encoding)\n        # Render the file\n",
        "R32a", "render_file", "the input file itself is rewritten by lint and render",
    ),
    # ---- R32b ---------------------------------------------------------------------------
    Variant(
        "rulepack-memoised-on-the-linter-class", LINTER,
        "    def get_rulepack(self, config: Optional[FluffConfig] = None) -> RulePack:\n        \"\"\"Get hold of a set of rules.\"\"\"\n        rs = get_ruleset()\n        # Register any user rules\n        for rule in self.user_rules:\n            rs.register(rule)\n        cfg = config or self.config\n        return rs.get_rulepack(config=cfg)\n",
        "    _packs: dict = {}\n\n    def get_rulepack(self, config: Optional[FluffConfig] = None) -> RulePack:\n        \"\"\"Get hold of a set of rules.\"\"\"\n        rs = get_ruleset()\n        # Register any user rules\n        for rule in self.user_rules:\n            rs.register(rule)\n        cfg = config or self.config\n        key = str(cfg.get(\"rule_allowlist\"))\n        if key not in self._packs:\n            self._packs[key] = rs.get_rulepack(config=cfg)\n        return self._packs[key]\n",
        "R32b", "get_rulepack", "rule objects (and their reference map, which allowed_rule_ref_map mutates) shared by every later file with the same selection",
    ),
    Variant(
        "config-info-memoised", CONFIG_INFO,
        "def get_config_info() -> dict[str, ConfigInfo]:\n",
        "@__import__(\"functools\").lru_cache(maxsize=None)\ndef get_config_info() -> dict[str, ConfigInfo]:\n",
        "R32b", "get_config_info", "a new process cache whose (mutable) answer is handed to every caller",
    ),
    Variant(
        "param-style-table-extended-at-run-time", PLACEHOLDER,
        "            live_context[\"__bind_param_regex\"] = regex.compile(\n                live_context[\"param_regex\"]\n            )\n",
        "            KNOWN_STYLES[\"custom\"] = regex.compile(live_context[\"param_regex\"])\n            live_context[\"__bind_param_regex\"] = KNOWN_STYLES[\"custom\"]\n",
        "R32b", "KNOWN_STYLES", "one file's param_regex becomes a selectable style for every later file",
    ),
    Variant(
        "lint-counter-global", LINTER,
        "        # Sort out config, defaulting to the built in config if no override\n",
        "        global _strings_linted\n        _strings_linted = globals().get(\"_strings_linted\", 0) + 1\n        # Sort out config, defaulting to the built in config if no override\n",
        "R32b", "_strings_linted",
    ),
    Variant(
        "block-map-cleared-by-second-writer", LEXER,
        "    block_stack = BlockTracker()\n    templated_file_slices = templated_file.sliced_file\n",
        "    block_stack = BlockTracker()\n    BlockTracker._stack.append(uuid4())\n    templated_file_slices = templated_file.sliced_file\n",
        "R32b", "_iter_segments", "a second writer of reviewed state, outside the reviewed functions",
    ),
    # ---- R32c ---------------------------------------------------------------------------
    Variant(
        "templating-violations-extended-in-place", LINTER,
        "        violations: list[SQLBaseError] = list(parsed.templating_violations)\n",
        "        violations: list[SQLBaseError] = parsed.templating_violations\n",
        "R32c", "lint_parsed", "the copy is dropped: `violations += ...` now grows the ParsedString's own list, so linting the same ParsedString again reports everything twice",
    ),
    Variant(
        "non-fixing-rules-pruned-from-the-pack", LINTER,
        "                        and not crawler.is_fix_compatible\n                    ):\n                        continue\n",
        "                        and not crawler.is_fix_compatible\n                    ):\n                        rule_pack.rules.remove(crawler)\n                        continue\n",
        "R32c", "lint_fix_parsed", "the caller's pack loses rules: the alternate variants of the file are linted with fewer rules",
    ),
    Variant(
        "templated-errors-removed-in-place", LINTER,
        "            else:\n                # If it's another type, just keep it. (E.g. SQLParseError from\n                # malformed \"noqa\" comment).\n                result.append(e)\n        return result\n",
        "            else:\n                # If it's another type, just keep it. (E.g. SQLParseError from\n                # malformed \"noqa\" comment).\n                result.append(e)\n        linting_errors.clear()\n        linting_errors.extend(result)\n        return result\n",
        "R32c", "remove_templated_errors",
    ),
    Variant(
        "ref-map-keys-dropped-for-noqa", LINTER,
        "        # Return a new map with only the excluded rules\n",
        "        for k in [k for k, v in output_map.items() if not v & noqa_set]:\n            del reference_map[k]\n        # Return a new map with only the excluded rules\n",
        "R32c", "allowed_rule_ref_map", "a different operation on a reviewed parameter: keys vanish from the pack's reference map for every later use of the pack",
    ),
]
