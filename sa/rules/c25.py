"""C25 — file discovery honours ignore files regardless of path spelling.

R25a  path-spelling (kind) coherence of every comparison in discovery (RQ-path)
R25b  no call-time value frozen in a default argument (discovery/linter/loader)
R25c  every ignore spec is matched against the file path *relative to the
      directory of the same record* (def-use inside the checking function)
R25d  a file is yielded/returned only after the extension test and both the
      outer and the inner ignore test (must-guard)
R25e  ignore files found while walking are loaded through the loader table and
      appended to the inner spec list under the ``ignore_files`` switch only
R25f  directory containment is decided on whole path components: no
      ``os.path.commonprefix`` (character-wise) on paths, and a ``startswith``
      between two paths has a separator-terminated prefix
R25g  nothing in discovery is memoised on a caller-spelled path (the key would
      depend on the spelling and on the working directory at the time of the call)

Spellings read as the same facts (QUIET sweep): a record unpacked by the ``for`` target, by a
statement, or indexed (``rec[0]`` / ``rec[2]``); tests held in a boolean local; keyword arguments of
``_check_ignore_specs``; ``abspath`` in place or in a local; ``x is None`` for ``not x`` on the
checker's result; the loader fetched from the table into a local before the call; pruning as one
``or`` or as if/elif arms each testing one list; comprehension filters are comparisons too (R25a);
a separator-terminated prefix held in a local (R25f).
"""

from __future__ import annotations

import ast

from ..cfg import cfg_of, origins
from ..idioms import component_origins, conditions_at
from ..index import AnalysisError, FuncNode, arg_of, call_name, last_attr, norm, short, walk_local, calls_in
from ..quals import KindInterp, NEUTRAL, TOP, BOT, Seq, Tup, combine, is_known, join

DISC = "src/sqlfluff/core/linter/discovery.py"
HFILE = "src/sqlfluff/core/helpers/file.py"
ABS, GIVEN, REL = "ABS", "GIVEN", "REL"


class Fns:
    """Abstract value of ``TABLE[k]`` for a module-level dispatch table: one of these functions."""

    def __init__(self, names):
        self.names = tuple(names)

    def __eq__(self, o):
        return isinstance(o, Fns) and self.names == o.names

    def __hash__(self):
        return hash(("Fns", self.names))

    def __repr__(self):
        return "Fns" + repr(self.names)


class PathKinds(KindInterp):
    def _eval(self, e, env, func):
        if isinstance(e, ast.Constant) and e.value is None:
            return BOT
        if isinstance(e, (ast.ListComp, ast.GeneratorExp, ast.SetComp, ast.DictComp)):
            # the filters of a comprehension are comparisons like any other test
            for g in e.generators:
                for cond in g.ifs:
                    self._eval(cond, env, func)
        return super()._eval(e, env, func)

    def index_of(self, e, base, env, func):
        # ``loader = TABLE[key]`` : the loader fetched into a local before it is called
        if isinstance(e.value, ast.Name) and e.value.id in self.tables and e.value.id not in env.get("__assigned__", ()):
            return Fns(self.tables[e.value.id])
        return super().index_of(e, base, env, func)

    def attr_kind(self, node, base):
        if norm(node) in ("os.sep", "os.path.sep", "os.altsep", "os.curdir"):
            return NEUTRAL
        if node.attr in ("parent",):
            return base
        if node.attr in ("name", "suffix", "stem", "parts"):
            return NEUTRAL
        return None

    def binop(self, e, l, r, func):
        if isinstance(e.op, ast.Div):  # pathlib join
            if r == ABS:
                return ABS
            return combine([l, r])
        return super().binop(e, l, r, func)

    def call_kind(self, call, name, args, ev):
        last = last_attr(call)
        if isinstance(call.func, ast.Name):
            fv = ev(call.func)
            if isinstance(fv, Fns):
                v = BOT
                for fn in fv.names:
                    v = join(v, self._call_local(fn, args)) if fn in self.functions else TOP
                return v
        if name in ("os.path.abspath", "os.path.realpath") or last in ("absolute", "resolve"):
            return ABS
        if name == "os.getcwd" or name.endswith("Path.cwd"):
            return ABS
        if name == "os.path.join":
            if any(a == ABS for a in args[1:]):
                return ABS
            return combine(args)
        if name in ("os.path.normpath", "os.path.dirname", "os.path.normcase", "os.fspath", "Path", "pathlib.Path", "str"):
            return args[0] if args and isinstance(args[0], str) else TOP
        if name == "os.path.relpath":
            return REL
        if name in ("os.path.basename",):
            return NEUTRAL
        if name == "os.walk":
            k = args[0] if args and isinstance(args[0], str) else TOP
            return Seq(Tup([k, Seq(NEUTRAL), Seq(NEUTRAL)]))
        if name in ("os.listdir",):
            return Seq(NEUTRAL)
        if isinstance(call.func, ast.Attribute) and last in (
            "lower", "upper", "strip", "rstrip", "lstrip", "replace", "as_posix", "expanduser",
        ):
            r = ev(call.func.value)
            return r if isinstance(r, str) else TOP
        if name in ("os.path.exists", "os.path.isfile", "os.path.isdir"):
            return NEUTRAL
        return None


CFILE = "src/sqlfluff/core/config/file.py"


def _r25k(chk, repo) -> None:
    """Writer/reader table agreement: the config loader rewrites the *value* of every key whose name ends in one
    of RESOLVE_PATH_SUFFIXES (or is listed in COMMA_SEPARATED_PATH_KEYS) into an absolute filesystem path; the
    discovery code reads the keys below from the same loaded dict as gitignore-style *patterns*."""
    cm = repo.mod(CFILE)
    consts = {}
    for st in cm.tree.body:
        tgt = st.targets[0] if isinstance(st, ast.Assign) and len(st.targets) == 1 else (st.target if isinstance(st, ast.AnnAssign) else None)
        if isinstance(tgt, ast.Name) and tgt.id in ("RESOLVE_PATH_SUFFIXES", "COMMA_SEPARATED_PATH_KEYS") and st.value is not None:
            try:
                consts[tgt.id] = tuple(ast.literal_eval(st.value))
            except Exception:
                raise AnalysisError(f"R25k: {tgt.id} in config/file.py is no longer a literal; re-confirm the anchor by hand")
    if set(consts) != {"RESOLVE_PATH_SUFFIXES", "COMMA_SEPARATED_PATH_KEYS"}:
        raise AnalysisError("R25k: RESOLVE_PATH_SUFFIXES / COMMA_SEPARATED_PATH_KEYS not found in config/file.py; re-confirm the anchor by hand")
    uses = [n for n in ast.walk(cm.tree) if isinstance(n, ast.Name) and n.id in consts and isinstance(n.ctx, ast.Load)]
    chk.count("R25k.table_uses", len(uses))
    dm = repo.mod(DISC)
    keys = []
    for fn in [f for f in ast.walk(dm.tree) if isinstance(f, FuncNode)]:
        if not any(isinstance(c, ast.Call) and last_attr(c) == "load_config_file_as_dict" for c in ast.walk(fn)):
            continue
        for c in ast.walk(fn):
            if isinstance(c, ast.Call) and isinstance(c.func, ast.Attribute) and c.func.attr == "get" and c.args and isinstance(c.args[0], ast.Constant) and isinstance(c.args[0].value, str):
                keys.append((c.args[0].value, c))
            elif isinstance(c, ast.Subscript) and isinstance(c.slice, ast.Constant) and isinstance(c.slice.value, str) and isinstance(c.ctx, ast.Load):
                keys.append((c.slice.value, c))
    chk.count("R25k.pattern_keys", len(keys))
    sfx = tuple(x.lower() for x in consts["RESOLVE_PATH_SUFFIXES"])
    listed = {x.lower() for x in consts["COMMA_SEPARATED_PATH_KEYS"]}
    for k, node in keys:
        hit = next((x for x in sfx if k.lower().endswith(x)), None) or (k.lower() if k.lower() in listed else None)
        chk.require(
            hit is None, "R25k", node,
            f"file discovery reads the config key '{k}' as ignore patterns, but the config loader treats it as a path to resolve (it matches {hit!r} of RESOLVE_PATH_SUFFIXES / "
            "COMMA_SEPARATED_PATH_KEYS in config/file.py): a pattern that names something existing next to the config file is replaced by an absolute path, which no relative "
            "path ever matches -- the files it names are linted under every spelling",
            detail=f"discovery key '{k}' is not path-resolved by the loader", construct=f"{DISC}::config key '{k}'",
        )
    chk.floor("R25k.pattern_keys", 2)
    chk.floor("R25k.table_uses", 2)


def run(chk) -> None:
    repo = chk.repo
    chk.rule("R25k", "the config keys file discovery reads as ignore patterns are none of the keys whose values the config loader rewrites into resolved filesystem paths (RESOLVE_PATH_SUFFIXES / COMMA_SEPARATED_PATH_KEYS of config/file.py, evaluated from their literals)")
    _r25k(chk, repo)
    disc = repo.mod(DISC)
    hfile = repo.mod(HFILE)
    chk.rule("R25a", "no comparison (==, !=, in, startswith, remove/index) in file discovery mixes an absolutised path with a path in the caller's spelling")
    chk.rule("R25b", "no parameter default in discovery/linter/config-loader is a call evaluated at import time")
    chk.rule("R25c", "each ignore spec is matched against relpath(file, <directory of the same record>)")
    chk.rule("R25d", "a discovered file is only produced after the extension test and the outer and inner ignore tests")
    chk.rule("R25e", "ignore files met during the walk are loaded via the loader table under the ignore_files switch and kept in the inner list")

    entry = repo.fn(DISC, "paths_from_path")
    functions = {q: n for q, n in disc.functions() if "." not in q}
    functions["iter_intermediate_paths"] = repo.fn(HFILE, "iter_intermediate_paths")
    # table dispatch: module-level dict literal whose values are local function names
    tables = {}
    for node in disc.tree.body:
        tgt = val = None
        if isinstance(node, ast.Assign) and len(node.targets) == 1:
            tgt, val = node.targets[0], node.value
        elif isinstance(node, ast.AnnAssign):
            tgt, val = node.target, node.value
        if isinstance(tgt, ast.Name) and isinstance(val, ast.Dict):
            names = [v.id for v in val.values if isinstance(v, ast.Name) and v.id in functions]
            if names and len(names) == len(val.values):
                tables[tgt.id] = names
    if not tables:
        from ..index import AnalysisError

        raise AnalysisError("R25a: loader dispatch table not found in discovery.py")

    # ---- R25a -----------------------------------------------------------
    interp = PathKinds(functions, tables)
    params = [a.arg for a in entry.args.args]
    if not params:
        from ..index import AnalysisError

        raise AnalysisError("paths_from_path has no parameters")
    # fact: the first parameter is the path as supplied by the user (GIVEN);
    # everything else carries no path kind we can name.
    args = [GIVEN] + [TOP] * (len(params) - 1)
    interp.analyse("paths_from_path", args)
    seen_nodes = set()
    for node, l, r in interp.sites:
        if id(node) in seen_nodes:
            continue
        seen_nodes.add(id(node))
        chk.count("R25a.kinded_comparison_sites")
    reported = set()
    for rep in interp.reports:
        if id(rep.node) in reported:
            continue
        reported.add(id(rep.node))
        chk.fail(
            "R25a",
            rep.node,
            f"comparison '{rep.what}' mixes path spellings: left is {rep.left}, right is {rep.right}; "
            f"for a relative path argument the two sides can never agree, so the selection depends on how the path was spelled",
        )
    for nid in seen_nodes - reported:
        chk.obligations += 1
        chk.discharged += 1
    for node, l, r in interp.sites[:6]:
        chk.sample({"rule": "R25a", "site": f"{DISC}:{node.lineno}", "expr": short(node, 90), "left": repr(l), "right": repr(r)})
    for node, l, r in interp.sites:
        chk.constructs.add(("R25a", DISC, short(node, 120)))
    chk.count("R25a.functions_analysed", len(interp.memo))
    chk.floor("R25a.kinded_comparison_sites", 2)
    chk.floor("R25a.functions_analysed", 6)

    # ---- R25f: component-aware containment ---------------------------------
    chk.rule("R25f", "directory containment is decided on whole path components (no character-wise prefix tests between paths)")
    for m in (disc, hfile):
        for q, f in m.functions():
            for c in calls_in(f):
                if call_name(c) in ("os.path.commonprefix", "commonprefix"):
                    chk.fail("R25f", c, "os.path.commonprefix compares character by character: 'a/mart' is a prefix of 'a/mart_v2', so an ignore file of one "
                             "directory stays active in a sibling whose name merely starts with the same characters", detail="commonprefix on paths")
    seen_sw = set()
    for node, l, r in interp.sites:
        if isinstance(node, ast.Call) and last_attr(node) == "startswith" and id(node) not in seen_sw and is_known(l) and is_known(r):
            seen_sw.add(id(node))
            arg = node.args[0] if node.args else None
            # the prefix may be held in a local: every value it can have must be separator-terminated
            fn_ = _enclosing_def(node)
            if isinstance(arg, ast.Name) and fn_ is not None:
                cfg_ = cfg_of(fn_)
                os_ = origins(cfg_, arg, cfg_.stmt_of(node))
                sep_ok = bool(os_) and all(o.kind == "expr" and not o.path and _sep_terminated(o.expr) for o in os_)
            else:
                sep_ok = _sep_terminated(arg)
            chk.require(sep_ok, "R25f", node, "prefix test between two paths without a trailing separator on the prefix: sibling directories sharing a name prefix are confused",
                        detail="startswith prefix separator-terminated")
    chk.count("R25f.path_startswith_sites", len(seen_sw))

    # ---- R25g: no memoisation on caller-spelled paths ------------------------
    chk.rule("R25g", "no function of file discovery that receives a caller-spelled path is memoised (lru_cache/cache)")
    CACHE_DECOS = ("cache", "lru_cache", "functools.cache", "functools.lru_cache", "cached", "memoize")
    for (fname, argkinds), _res in interp.memo.items():
        fnode = functions.get(fname)
        if fnode is None:
            continue
        decos = [norm(d.func) if isinstance(d, ast.Call) else norm(d) for d in fnode.decorator_list]
        cached = [d for d in decos if d in CACHE_DECOS or d.split(".")[-1] in ("cache", "lru_cache")]
        chk.count("R25g.functions_checked")
        if cached and any(k == GIVEN for k in argkinds):
            chk.fail("R25g", fnode, f"{fname} is memoised ({cached[0]}) but is called with a path in the caller's spelling: the cache key depends on how the path was "
                     "spelled and on the working directory of an earlier call, so a relative spelling can select different files than the absolute one",
                     detail=f"memoised on caller-spelled path: {fname}")
        else:
            chk.ok("R25g", f"{DISC}::{fname}", "not memoised on a caller-spelled path")

    # ---- R25b -----------------------------------------------------------
    for rel in (DISC, "src/sqlfluff/core/linter/linter.py", "src/sqlfluff/core/config/loader.py"):
        m = repo.mod(rel)
        for q, f in m.functions():
            a = f.args
            for d in list(a.defaults) + [x for x in a.kw_defaults if x is not None]:
                chk.count("R25b.defaults")
                if any(isinstance(n, ast.Call) for n in ast.walk(d)):
                    name = call_name(next(n for n in ast.walk(d) if isinstance(n, ast.Call)))
                    envish = name.startswith("os.") or "cwd" in name or "environ" in name or "time" in name
                    if envish:
                        chk.fail(
                            "R25b",
                            f,
                            f"default argument {norm(d)!r} is evaluated once at import time; a later change of working directory "
                            f"makes discovery use a stale directory",
                            detail=f"default {norm(d)}",
                        )
                    else:
                        chk.ok("R25b", f"{rel}::{q}", norm(d))
                else:
                    chk.ok("R25b", f"{rel}::{q}", norm(d))
    chk.floor("R25b.defaults", 20)

    # ---- R25c -----------------------------------------------------------
    n_match = 0
    for q, f in disc.functions():
        for call in calls_in(f):
            if last_attr(call) != "match_file":
                continue
            n_match += 1
            chk.count("R25c.match_file_sites")
            ok = False
            why = "argument is not os.path.relpath(<file>, <record directory>)"
            arg = call.args[0] if call.args else None
            cfg = cfg_of(f)
            cands = [arg] if not isinstance(arg, ast.Name) else [o.expr for o in origins(cfg, arg)]
            call_at = cfg.stmt_of(call)
            for c in cands:
                if isinstance(c, ast.Call) and call_name(c) == "os.path.relpath" and len(c.args) == 2:
                    base = c.args[1]
                    # the base directory and the spec must come from the same record (unpacked or indexed)
                    spec_recv = call.func.value if isinstance(call.func, ast.Attribute) else None
                    if isinstance(base, (ast.Name, ast.Subscript)) and isinstance(spec_recv, (ast.Name, ast.Subscript)):
                        bo = component_origins(cfg, base, cfg.stmt_of(call))
                        so = component_origins(cfg, spec_recv, cfg.stmt_of(call))
                        if (
                            len(bo) == 1 and len(so) == 1 and bo[0].kind == "for" and so[0].kind == "for"
                            and bo[0].stmt is so[0].stmt and bo[0].path == (0,) and so[0].path and so[0].path != (0,)
                        ):
                            # and the file path is the function's path parameter
                            fo = origins(cfg, c.args[0], cfg.stmt_of(call)) if isinstance(c.args[0], ast.Name) else []
                            if fo and all(o.kind == "param" for o in fo):
                                ok = True
                            else:
                                why = "first relpath argument is not the file path parameter"
                        else:
                            why = "relpath base and the spec do not come from the same (dir, file, spec) record"
            chk.require(ok, "R25c", call, f"ignore spec matched against something other than the path relative to its own directory: {why}")
    chk.floor("R25c.match_file_sites", 1)

    # ---- R25d -----------------------------------------------------------
    _r25d(chk, repo)

    # ---- R25h: every ignore source of an outer directory is honoured --------
    chk.rule("R25h", "every ignore source of a directory between the working directory and the target is honoured: the loop over the loader table in _iter_config_files tries every entry (no break / return)")
    g = repo.fn(DISC, "_iter_config_files")
    n_tab = 0
    for l in [l for l in walk_local(g) if isinstance(l, ast.For)]:
        it = l.iter
        if isinstance(it, ast.Call) and last_attr(it) in ("keys", "items") and isinstance(it.func, ast.Attribute):
            it = it.func.value
        if not (isinstance(it, ast.Name) and it.id in tables):
            continue
        n_tab += 1
        early = [b for x in l.body for b in ast.walk(x) if isinstance(b, (ast.Break, ast.Return))]
        inner = [x for b in l.body for x in ast.walk(b) if isinstance(x, (ast.For, ast.While))]
        early = [b for b in early if not any(b is y for i_ in inner for y in ast.walk(i_) if isinstance(b, ast.Break))]
        chk.require(
            not early, "R25h", early[0] if early else l,
            "the loop over the ignore-file loaders of a directory is left early: a directory that holds two ignore sources (.sqlfluffignore next to a pyproject.toml / .sqlfluff with "
            "ignore_paths) contributes only the first, so `lint sub` and `lint .` disagree about the same files",
            detail="_iter_config_files tries every loader at every level",
        )
    chk.count("R25h.loader_table_loops", n_tab)
    chk.floor("R25h.loader_table_loops", 1)

    # ---- R25i: the path entry points hand their own switches on under their own names -------------
    chk.rule("R25i", "the Linter's path entry points forward each option to the callee's parameter of the same name: where caller and callee both have a parameter called X, the callee's X is not fed from a different parameter of the caller (ignore_files must not receive ignore_non_existent_files)")
    LINTER_ = "src/sqlfluff/core/linter/linter.py"
    lcls = repo.cls(LINTER_, "Linter")
    methods = {x.name: x for x in lcls.body if isinstance(x, ast.FunctionDef)}
    n_fw = 0
    for mname, mf in methods.items():
        cparams = [a.arg for a in mf.args.args + mf.args.kwonlyargs if a.arg != "self"]
        mcfg = None
        for c in calls_in(mf):
            if not (isinstance(c.func, ast.Attribute) and isinstance(c.func.value, ast.Name) and c.func.value.id in ("self", "cls") and c.func.attr in methods):
                continue
            callee = methods[c.func.attr]
            kparams = [a.arg for a in callee.args.args if a.arg not in ("self", "cls")]
            bound = {}
            for i, a in enumerate(c.args):
                if isinstance(a, ast.Starred) or i >= len(kparams):
                    break
                bound[kparams[i]] = a
            for k in c.keywords:
                if k.arg:
                    bound[k.arg] = k.value
            mcfg = mcfg or cfg_of(mf)
            for kp, a in bound.items():
                if not isinstance(a, ast.Name) or kp not in cparams:
                    continue
                os_ = origins(mcfg, a, mcfg.stmt_of(c))
                if not os_ or not all(o.kind == "param" for o in os_):
                    continue
                src = {o.expr.arg for o in os_}
                n_fw += 1
                chk.require(
                    src == {kp}, "R25i", c,
                    f"Linter.{mname} passes its parameter {sorted(src)} as `{kp}` of {c.func.attr}() although it has a parameter `{kp}` of its own: the option the caller set is ignored and "
                    "another one decides (ignore files are not honoured when `ignore_files` receives `ignore_non_existent_files`)",
                    detail=f"Linter.{mname} -> {c.func.attr}: {kp} forwarded from the parameter of the same name",
                )
    chk.count("R25i.same_name_forwardings", n_fw)
    chk.floor("R25i.same_name_forwardings", 6)

    # ---- R25e -----------------------------------------------------------
    f = repo.fn(DISC, "_iter_files_in_path")
    checker = repo.fn(DISC, "_check_ignore_specs")
    cfg = cfg_of(f)
    walk_for = None
    for n in walk_local(f):
        if isinstance(n, ast.For) and isinstance(n.iter, ast.Call) and call_name(n.iter) == "os.walk":
            walk_for = n
    if walk_for is None:
        from ..index import AnalysisError

        raise AnalysisError("R25e: os.walk loop not found in _iter_files_in_path")
    topdown = None
    for k in walk_for.iter.keywords:
        if k.arg == "topdown":
            topdown = k.value
    chk.require(
        topdown is None or (isinstance(topdown, ast.Constant) and topdown.value is True),
        "R25e", walk_for, "os.walk must be top-down, otherwise ignore files of a directory are read after its children were visited",
        detail="os.walk topdown",
    )
    appends = [c for c in calls_in(f) if last_attr(c) == "append" and isinstance(c.func, ast.Attribute)]
    inner_appends = []
    for c in appends:
        if not c.args:
            continue
        os_ = origins(cfg, c.args[0]) if isinstance(c.args[0], ast.Name) else []
        for o in os_:
            if isinstance(o.expr, ast.Call) and o.stmt is not None and _table_loader_call(cfg, o.expr, o.stmt, tables):
                inner_appends.append((c, o.expr))
    chk.count("R25e.loader_appends", len(inner_appends))
    chk.floor("R25e.loader_appends", 1)
    for c, loader_call in inner_appends:
        conds = cfg.conditions(cfg.stmt_of(c))
        sw = [e for e, pol in conds if pol and isinstance(e, ast.Name) and (lambda os_: bool(os_) and all(o.kind == "param" for o in os_))(origins(cfg, e, cfg.stmt_of(c)))]
        chk.require(bool(sw), "R25e", c, "inner ignore spec appended outside the ignore_files switch", detail="append under switch")
        # ... and under nothing else that depends on WHICH directory is being walked: the ignore files of the
        # root of the walk are honoured like those of every directory below it
        walk_vars = {x.id for x in ast.walk(walk_for.target) if isinstance(x, ast.Name)}
        narrowing = []
        for e, pol in conditions_at(cfg, cfg.stmt_of(c)):
            names = {x.id for x in ast.walk(e) if isinstance(x, ast.Name)}
            if not (names & walk_vars):
                continue
            # allowed: the truthiness of the loaded spec, membership of the file name in the directory listing
            if e is loader_call or norm(e) == norm(loader_call):
                continue
            if isinstance(e, ast.Name) and all(o.kind == "expr" and o.expr is loader_call for o in origins(cfg, e, cfg.stmt_of(c))):
                continue
            dirvar = [x for x in ast.walk(walk_for.target) if isinstance(x, ast.Name)][0].id if walk_vars else None
            if dirvar in names:
                narrowing.append(short(e, 50))
        chk.require(
            not narrowing, "R25e", c,
            f"ignore files met during the walk are loaded only under {narrowing}, a test on the directory being walked: the ignore file of that directory (e.g. the root of the walk, "
            "which reaches the walk under the spelling the caller used) is then not applied to the paths as the walk spells them",
            detail="inner ignore files loaded for every walked directory",
        )
        # loader is called with the walked directory and the file name found there
        a0 = loader_call.args[0] if loader_call.args else None
        o0 = origins(cfg, a0, cfg.stmt_of(c)) if isinstance(a0, ast.Name) else []
        chk.require(
            bool(o0) and all(o.kind == "for" and o.stmt is walk_for and o.path == (0,) for o in o0),
            "R25e", loader_call, "ignore file loader is not called with the directory currently being walked", detail="loader dir = walked dir",
        )
        # the list appended to is the one consulted for files and sub-directories
        lst = c.func.value
        uses = [x for x in calls_in(f) if call_name(x) == "_check_ignore_specs" and (lambda a: a is not None and norm(a) == norm(lst))(_ignore_call_args(x, checker)[1])]
        in_file_loop = [x for x in uses if any(isinstance(y, ast.Yield) for y in ast.walk(_enclosing_for(x, walk_for) or ast.Pass()))]
        chk.require(
            len(uses) >= 2 and len(in_file_loop) >= 1 and len(in_file_loop) < len(uses), "R25e", c,
            "the inner ignore list must be consulted both when pruning sub-directories and when selecting files",
            detail="inner list consulted for sub-directories and files",
        )
    # pruning: sub-directories are removed from the list os.walk recurses on
    removes = [c for c in calls_in(f) if last_attr(c) == "remove" and isinstance(c.func, ast.Attribute) and isinstance(c.func.value, ast.Name)]
    pruned = False
    prune_sites = []
    for c in removes:
        o = origins(cfg, c.func.value, cfg.stmt_of(c))
        if o and all(x.kind == "for" and x.stmt is walk_for and x.path == (1,) for x in o):
            pruned = True
            conds = conditions_at(cfg, cfg.stmt_of(c))
            callsc = [call_name(x) for e, pol in conds if pol for x in ast.walk(e) if isinstance(x, ast.Call)]
            # a remove reached under exactly one positive ignore test (``if A: remove  elif B: remove``):
            # which list that test consults, provided nothing else narrows the arm
            single = None
            pos = [e for e, pol in conds if pol]
            neg = [e for e, pol in conds if not pol]
            if (
                len(pos) == 1 and isinstance(pos[0], ast.Call) and call_name(pos[0]) == "_check_ignore_specs"
                and all(isinstance(e, ast.Call) and call_name(e) == "_check_ignore_specs" for e in neg)
            ):
                lst_ = _ignore_call_args(pos[0], checker)[1]
                single = norm(lst_) if lst_ is not None else None
            prune_sites.append((c, callsc.count("_check_ignore_specs") >= 2, single))
    # the other spelling the os.walk documentation suggests: subdirs[:] = [d for d in subdirs if not <ignored>]
    filter_prunes = []
    for n in walk_local(walk_for):
        if not (isinstance(n, ast.Assign) and len(n.targets) == 1 and isinstance(n.targets[0], ast.Subscript) and isinstance(n.targets[0].slice, ast.Slice)
                and n.targets[0].slice.lower is None and n.targets[0].slice.upper is None and n.targets[0].slice.step is None and isinstance(n.targets[0].value, ast.Name)):
            continue
        o = origins(cfg, n.targets[0].value, n)
        if not (o and all(x.kind == "for" and x.stmt is walk_for and tuple(x.path) == (1,) for x in o)):
            continue
        v = n.value
        if not (isinstance(v, ast.ListComp) and len(v.generators) == 1 and isinstance(v.generators[0].target, ast.Name) and isinstance(v.elt, ast.Name) and v.elt.id == v.generators[0].target.id):
            continue
        g = v.generators[0]
        it = g.iter.args[0] if isinstance(g.iter, ast.Call) and call_name(g.iter) in ("list", "tuple", "sorted") and g.iter.args else g.iter
        oi = origins(cfg, it, n) if isinstance(it, ast.Name) else []
        if not (oi and all(x.kind == "for" and x.stmt is walk_for and tuple(x.path) == (1,) for x in oi)):
            continue
        # every keep-condition must be the negation of ignore tests and nothing else
        tests, clean = [], bool(g.ifs)
        for t in g.ifs:
            parts = t.values if isinstance(t, ast.BoolOp) and isinstance(t.op, ast.And) else [t]
            for p_ in parts:
                if not (isinstance(p_, ast.UnaryOp) and isinstance(p_.op, ast.Not)):
                    clean = False
                    continue
                inner = p_.operand.values if isinstance(p_.operand, ast.BoolOp) and isinstance(p_.operand.op, ast.Or) else [p_.operand]
                for q_ in inner:
                    if isinstance(q_, ast.Call) and call_name(q_) == "_check_ignore_specs":
                        tests.append(q_)
                    else:
                        clean = False
        if not clean:
            continue  # a filter that is not purely the ignore test: left to R25j, which reports it
        lists = {norm(_ignore_call_args(t, checker)[1]) for t in tests if _ignore_call_args(t, checker)[1] is not None}
        fp = _param_names(f)
        filter_prunes.append(n)
        pruned = True
        chk.require(
            any(x in fp for x in lists) and any(x not in fp for x in lists), "R25e", n,
            "sub-directory pruning is not guarded by both the outer and the inner ignore test", detail="prune guard",
        )
    both_in_one = [c for c, both, _ in prune_sites if both]
    singles = {single for _, both, single in prune_sites if not both and single is not None}
    fparams = _param_names(f)
    split_ok = any(x in fparams for x in singles) and any(x not in fparams for x in singles)
    for c, both, single in prune_sites:
        chk.require(
            both or (split_ok and single is not None), "R25e", c,
            "sub-directory pruning is not guarded by both the outer and the inner ignore test", detail="prune guard",
        )
    chk.require(pruned, "R25e", f, "ignored sub-directories are not pruned from the walk (subdirs list of os.walk)", detail="prune present")

    # ---- R25j: what the walk prunes, and which path it tests ----------------
    chk.rule("R25j", "the walk drops a sub-directory only through the ignore test (no other filter on os.walk's subdirs list), and every path handed to _check_ignore_specs inside the walk is built from the directory currently being walked and the entry being considered")
    # decided on what a name derives from (never on its spelling): component k of the triple os.walk yields, whether it
    # is unpacked in the ``for`` target or in the body, and read through any number of locals
    def _walk_component(e, at, k) -> bool:
        if not isinstance(e, ast.Name):
            return False
        os_ = origins(cfg, e, at)
        return bool(os_) and all(o.kind == "for" and o.stmt is walk_for and tuple(o.path) == (k,) for o in os_)

    def _stmt_at(n):
        return n if isinstance(n, ast.stmt) else cfg.stmt_of(n)

    prune_calls = {id(c) for c, _, _ in prune_sites}
    n_mut = 0
    for n in walk_local(walk_for):
        tgt = None
        if isinstance(n, ast.Call) and isinstance(n.func, ast.Attribute) and n.func.attr in ("remove", "pop", "clear", "__delitem__") and _walk_component(n.func.value, _stmt_at(n), 1):
            if id(n) in prune_calls:
                continue
            tgt = n
        elif isinstance(n, (ast.Assign, ast.AugAssign, ast.Delete)):
            tg = n.targets if isinstance(n, (ast.Assign, ast.Delete)) else [n.target]
            for t in tg:
                if isinstance(t, ast.Subscript) and _walk_component(t.value, n, 1) and not any(n is fp_ for fp_ in filter_prunes):
                    tgt = n
                if isinstance(t, ast.Name) and isinstance(n, ast.AugAssign) and _walk_component(ast.Name(id=t.id, ctx=ast.Load()), n, 1):
                    tgt = n
        if tgt is not None:
            n_mut += 1
            chk.fail(
                "R25j", tgt,
                f"the sub-directory list os.walk recurses on is narrowed by `{short(tgt, 70)}`, not by an ignore test: directories no ignore file mentions are silently left out of "
                "`lint <dir>` (while naming them directly still lints them), and ignore files inside them are never read",
                detail="_iter_files_in_path: subdirs narrowed outside the ignore test",
            )
    chk.count("R25j.other_subdir_filters", n_mut)
    tested = 0
    for c in calls_in(walk_for):
        if call_name(c) != "_check_ignore_specs":
            continue
        a0 = _ignore_call_args(c, checker)[0]
        if a0 is None:
            continue
        loop = _enclosing_for(c, walk_for)
        comp = None
        pp = getattr(c, "_parent", None)
        while pp is not None and pp is not walk_for and not isinstance(pp, ast.stmt):
            if isinstance(pp, (ast.ListComp, ast.GeneratorExp, ast.SetComp)):
                comp = pp
                break
            pp = getattr(pp, "_parent", None)
        if comp is None and (loop is None or loop is walk_for):
            continue
        st = cfg.stmt_of(c)
        lv = {x.id for x in ast.walk((comp.generators[0] if comp is not None else loop).target) if isinstance(x, ast.Name)}
        names = set()
        facts = {"dir": False, "entry": False}

        def _collect(e, at, depth=0):
            for x in ast.walk(e):
                if isinstance(x, ast.Name) and isinstance(x.ctx, ast.Load):
                    os_ = origins(cfg, x, at)
                    if _walk_component(x, at, 0):
                        facts["dir"] = True
                    if comp is None and os_ and all(o.kind == "for" and o.stmt is loop for o in os_):
                        facts["entry"] = True
                    if comp is not None and x.id in lv:
                        facts["entry"] = True
                    if depth < 4 and os_ and all(o.kind == "expr" and isinstance(o.expr, ast.AST) for o in os_):
                        for o in os_:
                            _collect(o.expr, o.stmt if o.stmt is not None else at, depth + 1)
                    else:
                        names.add(x.id)

        _collect(a0, st)
        tested += 1
        chk.require(
            facts["dir"] and facts["entry"], "R25j", c,
            f"the path tested against the ignore specs is built from {sorted(names) or 'nothing'}, not from the directory being walked and the entry considered ({sorted(lv)}): "
            "below the first level the test then speaks about a different path than the one walked (a same-named directory elsewhere is pruned or kept in its place)",
            detail=f"_iter_files_in_path: ignore test on the walked entry ({'/'.join(sorted(lv))})",
        )
    chk.count("R25j.ignore_tests_in_walk", tested)
    chk.floor("R25j.ignore_tests_in_walk", 3)


def _sep_terminated(arg) -> bool:
    """``<path> + os.sep`` / ``<path> + "/"`` / ``os.path.join(<path>, "")``."""
    return (
        isinstance(arg, ast.BinOp) and isinstance(arg.op, ast.Add)
        and (norm(arg.right) in ("os.sep", "os.path.sep") or (isinstance(arg.right, ast.Constant) and arg.right.value in ("/", "\\")))
    ) or (isinstance(arg, ast.Call) and call_name(arg) == "os.path.join" and bool(arg.args) and isinstance(arg.args[-1], ast.Constant) and arg.args[-1].value == "")


def _enclosing_def(node):
    p = getattr(node, "_parent", None)
    while p is not None and not isinstance(p, (ast.FunctionDef, ast.AsyncFunctionDef)):
        p = getattr(p, "_parent", None)
    return p


def _param_names(fn):
    return [a.arg for a in fn.args.posonlyargs + fn.args.args]


def _ignore_call_args(call, checker):
    """(tested path, spec list) of a ``_check_ignore_specs`` call, by position or keyword."""
    names = _param_names(checker)
    a0 = arg_of(call, 0, names[0]) if names else None
    a1 = arg_of(call, 1, names[1]) if len(names) > 1 else None
    return a0, a1


def _is_abspath_value(cfg, e, at) -> bool:
    """``os.path.abspath(...)`` written in place or held in a local (every reaching value)."""
    if isinstance(e, ast.Call):
        return call_name(e) == "os.path.abspath"
    if isinstance(e, ast.Name):
        o = origins(cfg, e, at)
        return bool(o) and all(isinstance(x.expr, ast.Call) and call_name(x.expr) == "os.path.abspath" for x in o)
    return False


def _table_loader_call(cfg, call, at, tables) -> bool:
    """``TABLE[k](...)`` or ``loader = TABLE[k]; loader(...)`` for a module-level loader table."""
    f = call.func
    if isinstance(f, ast.Subscript):
        return norm(f.value) in tables
    if isinstance(f, ast.Name):
        os_ = origins(cfg, f, at)
        return bool(os_) and all(o.kind == "expr" and not o.path and isinstance(o.expr, ast.Subscript) and norm(o.expr.value) in tables for o in os_)
    return False


def _enclosing_for(node, stop):
    """Innermost ``for`` loop around node that is nested in ``stop``."""
    p = getattr(node, "_parent", None)
    while p is not None and p is not stop:
        if isinstance(p, ast.For):
            return p
        p = getattr(p, "_parent", None)
    return None


def _r25d(chk, repo) -> None:
    """Each produced file path is guarded by ext test + outer + inner ignore tests."""
    f = repo.fn(DISC, "_iter_files_in_path")
    cfg = cfg_of(f)
    yields = [n for n in walk_local(f) if isinstance(n, ast.Yield)]
    chk.count("R25d.yield_sites", len(yields))
    chk.floor("R25d.yield_sites", 1)
    params = [a.arg for a in f.args.args]
    checker = repo.fn(DISC, "_check_ignore_specs")
    for y in yields:
        st = cfg.stmt_of(y)
        conds = conditions_at(cfg, st)
        ext_ok = any(
            pol and isinstance(e, ast.Call) and call_name(e) == "_match_file_extension" for e, pol in conds
        )
        ign_false = [e for e, pol in conds if not pol and isinstance(e, ast.Call) and call_name(e) == "_check_ignore_specs"]
        lists = set()
        for e in ign_false:
            lst_ = _ignore_call_args(e, checker)[1]
            if lst_ is not None:
                lists.add(norm(lst_))
        outer = any(l in params for l in lists)
        inner = any(l not in params for l in lists)
        chk.require(ext_ok, "R25d", y, "file yielded without a dominating extension test", detail="yield: extension test")
        chk.require(outer, "R25d", y, "file yielded without a dominating (negative) outer ignore-spec test", detail="yield: outer ignore test")
        chk.require(inner, "R25d", y, "file yielded without a dominating (negative) inner ignore-spec test", detail="yield: inner ignore test")
        # the tested path must be the yielded file, absolutised
        for e in ign_false:
            a0 = _ignore_call_args(e, checker)[0]
            good = a0 is not None and _is_abspath_value(cfg, a0, cfg.stmt_of(e) or st)
            chk.require(good, "R25d", e, "ignore test is not applied to the absolutised file path", detail=f"tested path of {short(e, 60)}")
    g = repo.fn(DISC, "_process_exact_path")
    cfg = cfg_of(g)
    rets = [n for n in walk_local(g) if isinstance(n, ast.Return) and n.value is not None and not (isinstance(n.value, ast.List) and not n.value.elts)]
    chk.count("R25d.exact_returns", len(rets))
    chk.floor("R25d.exact_returns", 1)
    for r in rets:
        conds = conditions_at(cfg, r)
        ext_ok = any(pol and isinstance(e, ast.Call) and call_name(e) == "_match_file_extension" for e, pol in conds)
        ign_ok = False
        for e, pol in conds:
            # ``x is None`` true / ``x is not None`` false say the same as ``x`` false: the checker
            # returns the (non-empty) path of the ignore file or None
            if isinstance(e, ast.Compare) and len(e.ops) == 1 and isinstance(e.comparators[0], ast.Constant) and e.comparators[0].value is None:
                if isinstance(e.ops[0], ast.Is) and pol:
                    e, pol = e.left, False
                elif isinstance(e.ops[0], ast.IsNot) and not pol:
                    e, pol = e.left, False
            if not pol and isinstance(e, ast.Name):
                os_ = origins(cfg, e, r)
                if os_ and all(isinstance(o.expr, ast.Call) and call_name(o.expr) == "_check_ignore_specs" for o in os_):
                    ign_ok = True
            if not pol and isinstance(e, ast.Call) and call_name(e) == "_check_ignore_specs":
                ign_ok = True
        chk.require(ext_ok, "R25d", r, "exact path returned without the extension test", detail="exact: extension test")
        chk.require(ign_ok, "R25d", r, "exact path returned without the (negative) outer ignore test", detail="exact: ignore test")
    # paths_from_path loads outer specs from every config file between working dir and path
    e = repo.fn(DISC, "paths_from_path")
    cfg = cfg_of(e)
    loads = [c for c in calls_in(e) if isinstance(c.func, ast.Subscript)]
    ok = False
    for c in loads:
        st = cfg.stmt_of(c)
        p = st
        while p is not None and not isinstance(p, ast.For):
            p = getattr(p, "_parent", None)
        if isinstance(p, ast.For) and isinstance(p.iter, ast.Call) and call_name(p.iter) == "_iter_config_files":
            ok = True
    chk.require(ok, "R25d", e, "outer ignore specs are not loaded from the config files between working directory and path", detail="outer specs loaded")


from ..selftest import Variant  # noqa: E402

VARIANTS = [
    Variant(
        "r25k-plural-suffix-resolved", CFILE,
        'RESOLVE_PATH_SUFFIXES = ("_path", "_dir")\n',
        'RESOLVE_PATH_SUFFIXES = ("_path", "_paths", "_dir", "_dirs")\n',
        "R25k", "config key 'ignore_paths'", "seeded C25-9",
    ),
    Variant(
        "r25k-ignore-paths-listed-as-path-key", CFILE,
        '    "exclude_macros_from_path",\n)\n',
        '    "exclude_macros_from_path",\n    "ignore_paths",\n)\n',
        "R25k", "config key 'ignore_paths'", "each comma-separated pattern resolved against the config directory",
    ),
    Variant(
        "quiet-r25k-another-path-suffix", CFILE,
        'RESOLVE_PATH_SUFFIXES = ("_path", "_dir")\n',
        'RESOLVE_PATH_SUFFIXES = ("_path", "_dir", "_directory")\n',
        "QUIET", None, "R25k: a suffix that no discovery key carries",
    ),
    Variant(
        "quiet-prune-by-slice-assigned-filter", DISC,
        "        for subdir in subdirs[:]:  # slice it so that we can modify it in the process.\n            # NOTE: The \"*\" in this next section is a bit of a hack, but pathspec\n            # doesn't like matching _directories_ directly, but if we instead match\n            # `directory/*` we get the same effect.\n            absolute_path = os.path.abspath(os.path.join(dirname, subdir, \"*\"))\n            if _check_ignore_specs(\n                absolute_path, outer_ignore_specs\n            ) or _check_ignore_specs(absolute_path, inner_ignore_specs):\n                subdirs.remove(subdir)\n                continue\n",
        "        subdirs[:] = [\n            subdir\n            for subdir in subdirs\n            if not (\n                _check_ignore_specs(os.path.abspath(os.path.join(dirname, subdir, \"*\")), outer_ignore_specs)\n                or _check_ignore_specs(os.path.abspath(os.path.join(dirname, subdir, \"*\")), inner_ignore_specs)\n            )\n        ]\n",
        "QUIET", None, "the pruning idiom of the os.walk documentation",
    ),
    Variant(
        "prune-by-filter-that-also-drops-hidden-directories", DISC,
        "        for subdir in subdirs[:]:  # slice it so that we can modify it in the process.\n            # NOTE: The \"*\" in this next section is a bit of a hack, but pathspec\n            # doesn't like matching _directories_ directly, but if we instead match\n            # `directory/*` we get the same effect.\n            absolute_path = os.path.abspath(os.path.join(dirname, subdir, \"*\"))\n            if _check_ignore_specs(\n                absolute_path, outer_ignore_specs\n            ) or _check_ignore_specs(absolute_path, inner_ignore_specs):\n                subdirs.remove(subdir)\n                continue\n",
        "        subdirs[:] = [\n            subdir\n            for subdir in subdirs\n            if not subdir.startswith(\".\") and not (\n                _check_ignore_specs(os.path.abspath(os.path.join(dirname, subdir, \"*\")), outer_ignore_specs)\n                or _check_ignore_specs(os.path.abspath(os.path.join(dirname, subdir, \"*\")), inner_ignore_specs)\n            )\n        ]\n",
        "R25j", "_iter_files_in_path", "the same idiom with one more condition",
    ),
    Variant(
        "prune-by-filter-on-the-outer-specs-only", DISC,
        "        for subdir in subdirs[:]:  # slice it so that we can modify it in the process.\n            # NOTE: The \"*\" in this next section is a bit of a hack, but pathspec\n            # doesn't like matching _directories_ directly, but if we instead match\n            # `directory/*` we get the same effect.\n            absolute_path = os.path.abspath(os.path.join(dirname, subdir, \"*\"))\n            if _check_ignore_specs(\n                absolute_path, outer_ignore_specs\n            ) or _check_ignore_specs(absolute_path, inner_ignore_specs):\n                subdirs.remove(subdir)\n                continue\n",
        "        subdirs[:] = [\n            subdir\n            for subdir in subdirs\n            if not _check_ignore_specs(os.path.abspath(os.path.join(dirname, subdir, \"*\")), outer_ignore_specs)\n        ]\n",
        "R25e", "_iter_files_in_path", "ignore files found during the walk no longer prune",
    ),
    Variant(
        "prune-test-built-on-the-walk-root", DISC,
        '            absolute_path = os.path.abspath(os.path.join(dirname, subdir, "*"))\n',
        '            absolute_path = os.path.abspath(os.path.join(path, subdir, "*"))\n',
        "R25j", "_iter_files_in_path", "seeded C25-7: below the first level another directory is tested",
    ),
    Variant(
        "hidden-directories-dropped-from-the-walk", DISC,
        "        # Then look for any relevant sql files in the path.\n",
        "        subdirs[:] = [subdir for subdir in subdirs if not subdir.startswith(\".\")]\n        # Then look for any relevant sql files in the path.\n",
        "R25j", "_iter_files_in_path", "seeded C25-8",
    ),
    Variant(
        "quiet-prune-path-joined-in-a-local", DISC,
        '            absolute_path = os.path.abspath(os.path.join(dirname, subdir, "*"))\n',
        '            joined = os.path.join(dirname, subdir, "*")\n            absolute_path = os.path.abspath(joined)\n',
        "QUIET", None, "same path through a local",
    ),
    # behaviour-preserving refactors: must stay quiet (R25j sweep)
    Variant(
        'quiet-walk-variables-renamed', DISC,
        '    for dirname, subdirs, filenames in os.walk(path, topdown=True):\n        # Before adding new ignore specs, remove any which are no longer relevant\n        # as indicated by us no longer being in a subdirectory of them.\n        # NOTE: Slice so we can modify as we go.\n        for inner_dirname, inner_file, inner_spec in inner_ignore_specs[:]:\n            if not (\n                dirname == inner_dirname\n                or os.path.abspath(dirname).startswith(\n                    os.path.abspath(inner_dirname) + os.sep\n                )\n            ):\n                inner_ignore_specs.remove((inner_dirname, inner_file, inner_spec))\n\n        # Then look for any ignore files in the path (if ignoring files), add them\n        # to the inner buffer if found.\n        if ignore_files:\n            for ignore_file in set(filenames) & ignore_filename_set:\n                ignore_spec = ignore_file_loaders[ignore_file](dirname, ignore_file)\n                if ignore_spec:\n                    inner_ignore_specs.append(ignore_spec)\n\n        # Then prune any subdirectories which are ignored (by modifying `subdirs`)\n        # https://docs.python.org/3/library/os.html#os.walk\n        for subdir in subdirs[:]:  # slice it so that we can modify it in the process.\n            # NOTE: The "*" in this next section is a bit of a hack, but pathspec\n            # doesn\'t like matching _directories_ directly, but if we instead match\n            # `directory/*` we get the same effect.\n            absolute_path = os.path.abspath(os.path.join(dirname, subdir, "*"))\n            if _check_ignore_specs(\n                absolute_path, outer_ignore_specs\n            ) or _check_ignore_specs(absolute_path, inner_ignore_specs):\n                subdirs.remove(subdir)\n                continue\n\n        # Then look for any relevant sql files in the path.\n        for filename in filenames:\n            relative_path = os.path.join(dirname, filename)\n            absolute_path = os.path.abspath(relative_path)\n\n            # Check file extension is relevant\n            if not _match_file_extension(filename, lower_file_exts):\n                continue\n            # Check not ignored by outer & inner ignore specs\n            if _check_ignore_specs(absolute_path, outer_ignore_specs):\n                continue\n            if _check_ignore_specs(absolute_path, inner_ignore_specs):\n                continue\n\n            # If we get here, it\'s one we want. Yield it.\n            yield os.path.normpath(relative_path)\n',
        '    for walked_dir, child_dirs, entries in os.walk(path, topdown=True):\n        # Before adding new ignore specs, remove any which are no longer relevant\n        # as indicated by us no longer being in a subdirectory of them.\n        # NOTE: Slice so we can modify as we go.\n        for inner_dirname, inner_file, inner_spec in inner_ignore_specs[:]:\n            if not (\n                walked_dir == inner_dirname\n                or os.path.abspath(walked_dir).startswith(\n                    os.path.abspath(inner_dirname) + os.sep\n                )\n            ):\n                inner_ignore_specs.remove((inner_dirname, inner_file, inner_spec))\n\n        # Then look for any ignore files in the path (if ignoring files), add them\n        # to the inner buffer if found.\n        if ignore_files:\n            for ignore_file in set(entries) & ignore_filename_set:\n                ignore_spec = ignore_file_loaders[ignore_file](walked_dir, ignore_file)\n                if ignore_spec:\n                    inner_ignore_specs.append(ignore_spec)\n\n        # Then prune any subdirectories which are ignored (by modifying `child_dirs`)\n        # https://docs.python.org/3/library/os.html#os.walk\n        for subdir in child_dirs[:]:  # slice it so that we can modify it in the process.\n            # NOTE: The "*" in this next section is a bit of a hack, but pathspec\n            # doesn\'t like matching _directories_ directly, but if we instead match\n            # `directory/*` we get the same effect.\n            absolute_path = os.path.abspath(os.path.join(walked_dir, subdir, "*"))\n            if _check_ignore_specs(\n                absolute_path, outer_ignore_specs\n            ) or _check_ignore_specs(absolute_path, inner_ignore_specs):\n                child_dirs.remove(subdir)\n                continue\n\n        # Then look for any relevant sql files in the path.\n        for filename in entries:\n            relative_path = os.path.join(walked_dir, filename)\n            absolute_path = os.path.abspath(relative_path)\n\n            # Check file extension is relevant\n            if not _match_file_extension(filename, lower_file_exts):\n                continue\n            # Check not ignored by outer & inner ignore specs\n            if _check_ignore_specs(absolute_path, outer_ignore_specs):\n                continue\n            if _check_ignore_specs(absolute_path, inner_ignore_specs):\n                continue\n\n            # If we get here, it\'s one we want. Yield it.\n            yield os.path.normpath(relative_path)\n',
        'QUIET', None, "R25j: os.walk's three variables renamed throughout",
    ),
    Variant(
        'quiet-walk-triple-kept-whole-then-unpacked', DISC,
        '    for dirname, subdirs, filenames in os.walk(path, topdown=True):\n',
        '    for walked in os.walk(path, topdown=True):\n        dirname, subdirs, filenames = walked\n',
        'QUIET', None, 'R25j: the triple of os.walk unpacked in the body',
    ),
    Variant(
        'quiet-prune-loop-variable-through-a-local', DISC,
        '        for subdir in subdirs[:]:  # slice it so that we can modify it in the process.\n',
        '        for entry in list(subdirs):\n            subdir = entry\n',
        'QUIET', None, 'R25j: a copy by list(), the loop variable through a local',
    ),
    Variant(
        'quiet-prune-path-as-an-fstring', DISC,
        '            absolute_path = os.path.abspath(os.path.join(dirname, subdir, "*"))\n',
        '            pattern = f"{dirname}{os.sep}{subdir}{os.sep}*"\n            absolute_path = os.path.abspath(pattern)\n',
        'QUIET', None, 'R25j: abspath normalises a doubled separator, so this is the joined path',
    ),
    Variant(
        'quiet-file-test-by-keyword-and-merged', DISC,
        '            if _check_ignore_specs(absolute_path, outer_ignore_specs):\n                continue\n            if _check_ignore_specs(absolute_path, inner_ignore_specs):\n                continue\n',
        '            if _check_ignore_specs(\n                absolute_filepath=absolute_path, ignore_specs=outer_ignore_specs\n            ) or _check_ignore_specs(absolute_path, ignore_specs=inner_ignore_specs):\n                continue\n',
        'QUIET', None, 'R25j: two early continues as one `or`, arguments by keyword',
    ),
    Variant(
        'quiet-file-loop-by-index', DISC,
        '        for filename in filenames:\n            relative_path = os.path.join(dirname, filename)\n',
        '        for idx in range(len(filenames)):\n            filename = filenames[idx]\n            relative_path = os.path.join(dirname, filename)\n',
        'QUIET', None, 'R25j: the file loop by index',
    ),
    Variant(
        'quiet-subdirs-through-an-alias', DISC,
        '                subdirs.remove(subdir)\n                continue\n',
        '                recurse_into = subdirs\n                recurse_into.remove(subdir)\n                continue\n',
        'QUIET', None, 'R25j: the pruned list through an alias (same list object)',
    ),
    Variant(
        'quiet-file-path-through-a-nested-helper', DISC,
        '            relative_path = os.path.join(dirname, filename)\n            absolute_path = os.path.abspath(relative_path)\n',
        '            def _under(directory, name):\n                return os.path.join(directory, name)\n\n            relative_path = _under(dirname, filename)\n            absolute_path = os.path.abspath(relative_path)\n',
        'QUIET', None, 'R25j: the join in a nested helper',
    ),
    # breaking twins of the spellings above
    Variant(
        'prune-test-on-the-walk-root-after-unpacking-in-the-body', DISC,
        '    for dirname, subdirs, filenames in os.walk(path, topdown=True):\n        # Before adding new ignore specs, remove any which are no longer relevant\n        # as indicated by us no longer being in a subdirectory of them.\n        # NOTE: Slice so we can modify as we go.\n        for inner_dirname, inner_file, inner_spec in inner_ignore_specs[:]:\n            if not (\n                dirname == inner_dirname\n                or os.path.abspath(dirname).startswith(\n                    os.path.abspath(inner_dirname) + os.sep\n                )\n            ):\n                inner_ignore_specs.remove((inner_dirname, inner_file, inner_spec))\n\n        # Then look for any ignore files in the path (if ignoring files), add them\n        # to the inner buffer if found.\n        if ignore_files:\n            for ignore_file in set(filenames) & ignore_filename_set:\n                ignore_spec = ignore_file_loaders[ignore_file](dirname, ignore_file)\n                if ignore_spec:\n                    inner_ignore_specs.append(ignore_spec)\n\n        # Then prune any subdirectories which are ignored (by modifying `subdirs`)\n        # https://docs.python.org/3/library/os.html#os.walk\n        for subdir in subdirs[:]:  # slice it so that we can modify it in the process.\n            # NOTE: The "*" in this next section is a bit of a hack, but pathspec\n            # doesn\'t like matching _directories_ directly, but if we instead match\n            # `directory/*` we get the same effect.\n            absolute_path = os.path.abspath(os.path.join(dirname, subdir, "*"))\n            if _check_ignore_specs(\n                absolute_path, outer_ignore_specs\n            ) or _check_ignore_specs(absolute_path, inner_ignore_specs):\n                subdirs.remove(subdir)\n                continue\n\n        # Then look for any relevant sql files in the path.\n        for filename in filenames:\n            relative_path = os.path.join(dirname, filename)\n            absolute_path = os.path.abspath(relative_path)\n\n            # Check file extension is relevant\n            if not _match_file_extension(filename, lower_file_exts):\n                continue\n            # Check not ignored by outer & inner ignore specs\n            if _check_ignore_specs(absolute_path, outer_ignore_specs):\n                continue\n            if _check_ignore_specs(absolute_path, inner_ignore_specs):\n                continue\n\n            # If we get here, it\'s one we want. Yield it.\n            yield os.path.normpath(relative_path)\n',
        '    for walked in os.walk(path, topdown=True):\n        dirname, subdirs, filenames = walked\n        # Before adding new ignore specs, remove any which are no longer relevant\n        # as indicated by us no longer being in a subdirectory of them.\n        # NOTE: Slice so we can modify as we go.\n        for inner_dirname, inner_file, inner_spec in inner_ignore_specs[:]:\n            if not (\n                dirname == inner_dirname\n                or os.path.abspath(dirname).startswith(\n                    os.path.abspath(inner_dirname) + os.sep\n                )\n            ):\n                inner_ignore_specs.remove((inner_dirname, inner_file, inner_spec))\n\n        # Then look for any ignore files in the path (if ignoring files), add them\n        # to the inner buffer if found.\n        if ignore_files:\n            for ignore_file in set(filenames) & ignore_filename_set:\n                ignore_spec = ignore_file_loaders[ignore_file](dirname, ignore_file)\n                if ignore_spec:\n                    inner_ignore_specs.append(ignore_spec)\n\n        # Then prune any subdirectories which are ignored (by modifying `subdirs`)\n        # https://docs.python.org/3/library/os.html#os.walk\n        for subdir in subdirs[:]:  # slice it so that we can modify it in the process.\n            # NOTE: The "*" in this next section is a bit of a hack, but pathspec\n            # doesn\'t like matching _directories_ directly, but if we instead match\n            # `directory/*` we get the same effect.\n            absolute_path = os.path.abspath(os.path.join(path, subdir, "*"))\n            if _check_ignore_specs(\n                absolute_path, outer_ignore_specs\n            ) or _check_ignore_specs(absolute_path, inner_ignore_specs):\n                subdirs.remove(subdir)\n                continue\n\n        # Then look for any relevant sql files in the path.\n        for filename in filenames:\n            relative_path = os.path.join(dirname, filename)\n            absolute_path = os.path.abspath(relative_path)\n\n            # Check file extension is relevant\n            if not _match_file_extension(filename, lower_file_exts):\n                continue\n            # Check not ignored by outer & inner ignore specs\n            if _check_ignore_specs(absolute_path, outer_ignore_specs):\n                continue\n            if _check_ignore_specs(absolute_path, inner_ignore_specs):\n                continue\n\n            # If we get here, it\'s one we want. Yield it.\n            yield os.path.normpath(relative_path)\n',
        'R25j', '_iter_files_in_path', 'twin of seeded C25-7 with the triple unpacked in the body',
    ),
    Variant(
        'hidden-directories-dropped-through-an-alias', DISC,
        '        # Then look for any relevant sql files in the path.\n',
        '        recurse_into = subdirs\n        recurse_into[:] = [d for d in recurse_into if not d.startswith(".")]\n        # Then look for any relevant sql files in the path.\n',
        'R25j', '_iter_files_in_path', 'twin of seeded C25-8 through an alias of the list',
    ),
    Variant(
        'hidden-directories-dropped-after-unpacking-in-the-body', DISC,
        '    for dirname, subdirs, filenames in os.walk(path, topdown=True):\n        # Before adding new ignore specs, remove any which are no longer relevant\n        # as indicated by us no longer being in a subdirectory of them.\n        # NOTE: Slice so we can modify as we go.\n        for inner_dirname, inner_file, inner_spec in inner_ignore_specs[:]:\n            if not (\n                dirname == inner_dirname\n                or os.path.abspath(dirname).startswith(\n                    os.path.abspath(inner_dirname) + os.sep\n                )\n            ):\n                inner_ignore_specs.remove((inner_dirname, inner_file, inner_spec))\n\n        # Then look for any ignore files in the path (if ignoring files), add them\n        # to the inner buffer if found.\n        if ignore_files:\n            for ignore_file in set(filenames) & ignore_filename_set:\n                ignore_spec = ignore_file_loaders[ignore_file](dirname, ignore_file)\n                if ignore_spec:\n                    inner_ignore_specs.append(ignore_spec)\n\n        # Then prune any subdirectories which are ignored (by modifying `subdirs`)\n        # https://docs.python.org/3/library/os.html#os.walk\n        for subdir in subdirs[:]:  # slice it so that we can modify it in the process.\n            # NOTE: The "*" in this next section is a bit of a hack, but pathspec\n            # doesn\'t like matching _directories_ directly, but if we instead match\n            # `directory/*` we get the same effect.\n            absolute_path = os.path.abspath(os.path.join(dirname, subdir, "*"))\n            if _check_ignore_specs(\n                absolute_path, outer_ignore_specs\n            ) or _check_ignore_specs(absolute_path, inner_ignore_specs):\n                subdirs.remove(subdir)\n                continue\n\n        # Then look for any relevant sql files in the path.\n        for filename in filenames:\n            relative_path = os.path.join(dirname, filename)\n            absolute_path = os.path.abspath(relative_path)\n\n            # Check file extension is relevant\n            if not _match_file_extension(filename, lower_file_exts):\n                continue\n            # Check not ignored by outer & inner ignore specs\n            if _check_ignore_specs(absolute_path, outer_ignore_specs):\n                continue\n            if _check_ignore_specs(absolute_path, inner_ignore_specs):\n                continue\n\n            # If we get here, it\'s one we want. Yield it.\n            yield os.path.normpath(relative_path)\n',
        '    for walked in os.walk(path, topdown=True):\n        dirname, subdirs, filenames = walked\n        # Before adding new ignore specs, remove any which are no longer relevant\n        # as indicated by us no longer being in a subdirectory of them.\n        # NOTE: Slice so we can modify as we go.\n        for inner_dirname, inner_file, inner_spec in inner_ignore_specs[:]:\n            if not (\n                dirname == inner_dirname\n                or os.path.abspath(dirname).startswith(\n                    os.path.abspath(inner_dirname) + os.sep\n                )\n            ):\n                inner_ignore_specs.remove((inner_dirname, inner_file, inner_spec))\n\n        # Then look for any ignore files in the path (if ignoring files), add them\n        # to the inner buffer if found.\n        if ignore_files:\n            for ignore_file in set(filenames) & ignore_filename_set:\n                ignore_spec = ignore_file_loaders[ignore_file](dirname, ignore_file)\n                if ignore_spec:\n                    inner_ignore_specs.append(ignore_spec)\n\n        # Then prune any subdirectories which are ignored (by modifying `subdirs`)\n        # https://docs.python.org/3/library/os.html#os.walk\n        for subdir in subdirs[:]:  # slice it so that we can modify it in the process.\n            # NOTE: The "*" in this next section is a bit of a hack, but pathspec\n            # doesn\'t like matching _directories_ directly, but if we instead match\n            # `directory/*` we get the same effect.\n            absolute_path = os.path.abspath(os.path.join(dirname, subdir, "*"))\n            if _check_ignore_specs(\n                absolute_path, outer_ignore_specs\n            ) or _check_ignore_specs(absolute_path, inner_ignore_specs):\n                subdirs.remove(subdir)\n                continue\n\n        subdirs[:] = [d for d in subdirs if not d.startswith(".")]\n        # Then look for any relevant sql files in the path.\n        for filename in filenames:\n            relative_path = os.path.join(dirname, filename)\n            absolute_path = os.path.abspath(relative_path)\n\n            # Check file extension is relevant\n            if not _match_file_extension(filename, lower_file_exts):\n                continue\n            # Check not ignored by outer & inner ignore specs\n            if _check_ignore_specs(absolute_path, outer_ignore_specs):\n                continue\n            if _check_ignore_specs(absolute_path, inner_ignore_specs):\n                continue\n\n            # If we get here, it\'s one we want. Yield it.\n            yield os.path.normpath(relative_path)\n',
        'R25j', '_iter_files_in_path', 'twin of seeded C25-8 with the triple unpacked in the body',
    ),
    Variant(
        "lint-path-crosses-two-switches", "src/sqlfluff/core/linter/linter.py",
        "            (path,), fix, ignore_non_existent_files, ignore_files, processes\n",
        "            (path,), fix=fix, ignore_non_existent_files=ignore_non_existent_files, ignore_files=ignore_non_existent_files, processes=processes\n",
        "R25i", "lint_path", "seeded C25-6",
    ),
    Variant(
        "quiet-lint-path-by-keyword", "src/sqlfluff/core/linter/linter.py",
        "            (path,), fix, ignore_non_existent_files, ignore_files, processes\n",
        "            (path,), fix=fix, ignore_non_existent_files=ignore_non_existent_files, ignore_files=ignore_files, processes=processes\n",
        "QUIET", None, "R25i: the same call by keyword",
    ),
    Variant(
        "outer-ignore-sources-first-one-wins", DISC,
        "                yield str(search_path), _filename\n",
        "                yield str(search_path), _filename\n                break\n",
        "R25h", "_iter_config_files", "seeded C25-3",
    ),
    Variant(
        "root-of-walk-ignore-files-not-reloaded", DISC,
        "        if ignore_files:\n            for ignore_file in set(filenames) & ignore_filename_set:\n",
        "        if ignore_files and dirname != path:\n            for ignore_file in set(filenames) & ignore_filename_set:\n",
        "R25e", "_iter_files_in_path", "seeded C25-4: a directory named through a symlink loses its anchored patterns",
    ),
    # behaviour-preserving edits: the check must stay quiet (selftest.QUIET)
    Variant(
        "quiet-hoist-abspath-of-walk-dirname", DISC,
        "        for inner_dirname, inner_file, inner_spec in inner_ignore_specs[:]:\n            if not (\n                dirname == inner_dirname\n                or os.path.abspath(dirname).startswith(\n",
        "        here = os.path.abspath(dirname)\n        for inner_dirname, inner_file, inner_spec in inner_ignore_specs[:]:\n            if not (\n                dirname == inner_dirname\n                or here.startswith(\n",
        "QUIET", None, "absolutised walk directory hoisted into a local",
    ),
    Variant(
        "quiet-rename-locals-and-early-continue", DISC,
        "            relative_path = os.path.join(dirname, filename)\n            absolute_path = os.path.abspath(relative_path)\n",
        "            rel = os.path.join(dirname, filename)\n            relative_path = rel\n            absolute_path = os.path.abspath(rel)\n",
        "QUIET", None, "join result passed through a second local",
    ),
    # behaviour-preserving refactors: must stay quiet
    Variant(
        "quiet-relpath-through-local", DISC,
        "        if spec.match_file(os.path.relpath(absolute_filepath, dirname)):\n",
        "        rel_to_spec_dir = os.path.relpath(absolute_filepath, dirname)\n        if spec.match_file(rel_to_spec_dir):\n",
        "QUIET", None, "relative path held in a local before matching",
    ),
    Variant(
        "quiet-record-unpacked-in-body", DISC,
        "    for dirname, filename, spec in ignore_specs:\n        if spec.match_file(",
        "    for record in ignore_specs:\n        dirname, filename, spec = record\n        if spec.match_file(",
        "QUIET", None, "record unpacked by a statement instead of the for target",
    ),
    Variant(
        "quiet-record-indexed", DISC,
        "    for dirname, filename, spec in ignore_specs:\n        if spec.match_file(os.path.relpath(absolute_filepath, dirname)):\n            return os.path.join(dirname, filename)\n",
        "    for record in ignore_specs:\n        if record[2].match_file(os.path.relpath(absolute_filepath, record[0])):\n            return os.path.join(record[0], record[1])\n",
        "QUIET", None, "record indexed instead of unpacked",
    ),
    Variant(
        "quiet-yield-under-nested-positive-ifs", DISC,
        "            if not _match_file_extension(filename, lower_file_exts):\n                continue\n            # Check not ignored by outer & inner ignore specs\n            if _check_ignore_specs(absolute_path, outer_ignore_specs):\n                continue\n            if _check_ignore_specs(absolute_path, inner_ignore_specs):\n                continue\n\n            # If we get here, it's one we want. Yield it.\n            yield os.path.normpath(relative_path)\n",
        "            if _match_file_extension(filename, lower_file_exts):\n                if not _check_ignore_specs(absolute_path, outer_ignore_specs):\n                    if not _check_ignore_specs(absolute_path, inner_ignore_specs):\n                        yield os.path.normpath(relative_path)\n",
        "QUIET", None, "early continues turned into nested positive ifs",
    ),
    Variant(
        "quiet-ignore-tests-merged-with-or", DISC,
        "            if _check_ignore_specs(absolute_path, outer_ignore_specs):\n                continue\n            if _check_ignore_specs(absolute_path, inner_ignore_specs):\n                continue\n",
        "            if _check_ignore_specs(absolute_path, outer_ignore_specs) or _check_ignore_specs(absolute_path, inner_ignore_specs):\n                continue\n",
        "QUIET", None, "two early continues merged into one `or`",
    ),
    Variant(
        "quiet-yield-single-conjunction", DISC,
        "            if not _match_file_extension(filename, lower_file_exts):\n                continue\n            # Check not ignored by outer & inner ignore specs\n            if _check_ignore_specs(absolute_path, outer_ignore_specs):\n                continue\n            if _check_ignore_specs(absolute_path, inner_ignore_specs):\n                continue\n\n            # If we get here, it's one we want. Yield it.\n            yield os.path.normpath(relative_path)\n",
        "            wanted = (\n                _match_file_extension(filename, lower_file_exts)\n                and not _check_ignore_specs(absolute_path, outer_ignore_specs)\n                and not _check_ignore_specs(absolute_path, inner_ignore_specs)\n            )\n            if wanted:\n                yield os.path.normpath(relative_path)\n",
        "QUIET", None, "the three tests as one conjunction held in a boolean local",
    ),
    Variant(
        "quiet-ignore-tests-keyword-arguments", DISC,
        "            if _check_ignore_specs(absolute_path, outer_ignore_specs):\n                continue\n            if _check_ignore_specs(absolute_path, inner_ignore_specs):\n                continue\n",
        "            if _check_ignore_specs(absolute_filepath=absolute_path, ignore_specs=outer_ignore_specs):\n                continue\n            if _check_ignore_specs(absolute_path, ignore_specs=inner_ignore_specs):\n                continue\n",
        "QUIET", None, "keyword arguments instead of positional",
    ),
    Variant(
        "quiet-abspath-inlined-in-ignore-tests", DISC,
        "            relative_path = os.path.join(dirname, filename)\n            absolute_path = os.path.abspath(relative_path)\n\n            # Check file extension is relevant\n            if not _match_file_extension(filename, lower_file_exts):\n                continue\n            # Check not ignored by outer & inner ignore specs\n            if _check_ignore_specs(absolute_path, outer_ignore_specs):\n                continue\n            if _check_ignore_specs(absolute_path, inner_ignore_specs):\n                continue\n",
        "            relative_path = os.path.join(dirname, filename)\n\n            # Check file extension is relevant\n            if not _match_file_extension(filename, lower_file_exts):\n                continue\n            # Check not ignored by outer & inner ignore specs\n            if _check_ignore_specs(os.path.abspath(relative_path), outer_ignore_specs):\n                continue\n            if _check_ignore_specs(os.path.abspath(relative_path), inner_ignore_specs):\n                continue\n",
        "QUIET", None, "abspath computed inline at each ignore test",
    ),
    Variant(
        "quiet-abspath-after-extension-test", DISC,
        "            absolute_path = os.path.abspath(relative_path)\n\n            # Check file extension is relevant\n            if not _match_file_extension(filename, lower_file_exts):\n                continue\n",
        "\n            # Check file extension is relevant\n            if not _match_file_extension(filename, lower_file_exts):\n                continue\n            absolute_path = os.path.abspath(relative_path)\n",
        "QUIET", None, "independent statements reordered",
    ),
    Variant(
        "quiet-exact-path-inverted-branch", DISC,
        "    if not ignore_file:\n        # If not ignored, just return the file.\n        return [os.path.normpath(path)]\n\n    ignore_rel_path = os.path.relpath(ignore_file, working_path)\n    linter_logger.warning(\n        f\"Exact file path {path} was given but it was \"\n        f\"ignored by an ignore pattern set in {ignore_rel_path}, \"\n        \"re-run with `--disregard-sqlfluffignores` to not process \"\n        \"ignore files.\"\n    )\n    # Return no match, because the file is ignored.\n    return []\n",
        "    if ignore_file:\n        ignore_rel_path = os.path.relpath(ignore_file, working_path)\n        linter_logger.warning(\n            f\"Exact file path {path} was given but it was \"\n            f\"ignored by an ignore pattern set in {ignore_rel_path}, \"\n            \"re-run with `--disregard-sqlfluffignores` to not process \"\n            \"ignore files.\"\n        )\n        # Return no match, because the file is ignored.\n        return []\n    return [os.path.normpath(path)]\n",
        "QUIET", None, "ignored branch first, hit returned at the end",
    ),
    Variant(
        "quiet-exact-path-is-none-test", DISC,
        "    if not ignore_file:\n        # If not ignored",
        "    if ignore_file is None:\n        # If not ignored",
        "QUIET", None, "_check_ignore_specs returns a non-empty joined path or None: `is None` is the same test",
    ),
    Variant(
        "quiet-exact-path-result-through-local", DISC,
        "        return [os.path.normpath(path)]\n",
        "        found = [os.path.normpath(path)]\n        return found\n",
        "QUIET", None, "returned list through a local",
    ),
    Variant(
        "quiet-loader-through-local", DISC,
        "                ignore_spec = ignore_file_loaders[ignore_file](dirname, ignore_file)\n                if ignore_spec:\n                    inner_ignore_specs.append(ignore_spec)\n",
        "                loader = ignore_file_loaders[ignore_file]\n                ignore_spec = loader(dirname, ignore_file)\n                if ignore_spec:\n                    inner_ignore_specs.append(ignore_spec)\n",
        "QUIET", None, "loader looked up into a local before the call",
    ),
    Variant(
        "quiet-walk-default-topdown", DISC,
        "os.walk(path, topdown=True)",
        "os.walk(path)",
        "QUIET", None, "topdown=True is the default of os.walk",
    ),
    Variant(
        "quiet-prune-if-elif", DISC,
        "            if _check_ignore_specs(\n                absolute_path, outer_ignore_specs\n            ) or _check_ignore_specs(absolute_path, inner_ignore_specs):\n                subdirs.remove(subdir)\n                continue\n",
        "            if _check_ignore_specs(absolute_path, outer_ignore_specs):\n                subdirs.remove(subdir)\n            elif _check_ignore_specs(absolute_path, inner_ignore_specs):\n                subdirs.remove(subdir)\n",
        "QUIET", None, "`or` split into if/elif with the same action",
    ),
    Variant(
        "quiet-prune-test-in-boolean-local", DISC,
        "            if _check_ignore_specs(\n                absolute_path, outer_ignore_specs\n            ) or _check_ignore_specs(absolute_path, inner_ignore_specs):\n                subdirs.remove(subdir)\n                continue\n",
        "            pruned_by = _check_ignore_specs(\n                absolute_path, outer_ignore_specs\n            ) or _check_ignore_specs(absolute_path, inner_ignore_specs)\n            if pruned_by:\n                subdirs.remove(subdir)\n",
        "QUIET", None, "prune test held in a local",
    ),
    Variant(
        "quiet-containment-de-morgan", DISC,
        "            if not (\n                dirname == inner_dirname\n                or os.path.abspath(dirname).startswith(\n                    os.path.abspath(inner_dirname) + os.sep\n                )\n            ):\n",
        "            if dirname != inner_dirname and not os.path.abspath(dirname).startswith(\n                os.path.abspath(inner_dirname) + os.sep\n            ):\n",
        "QUIET", None, "De Morgan on the containment test",
    ),
    Variant(
        "quiet-containment-prefix-via-join-empty", DISC,
        "                    os.path.abspath(inner_dirname) + os.sep\n",
        "                    os.path.join(os.path.abspath(inner_dirname), \"\")\n",
        "QUIET", None, "os.path.join(p, '') is p + os.sep for an absolute non-root directory",
    ),
    Variant(
        "quiet-containment-prefix-in-local", DISC,
        "            if not (\n                dirname == inner_dirname\n                or os.path.abspath(dirname).startswith(\n                    os.path.abspath(inner_dirname) + os.sep\n                )\n            ):\n",
        "            inner_prefix = os.path.abspath(inner_dirname) + os.sep\n            if not (\n                dirname == inner_dirname\n                or os.path.abspath(dirname).startswith(inner_prefix)\n            ):\n",
        "QUIET", None, "separator-terminated prefix held in a local",
    ),
    Variant(
        "quiet-stale-specs-filtered-by-comprehension", DISC,
        "        for inner_dirname, inner_file, inner_spec in inner_ignore_specs[:]:\n            if not (\n                dirname == inner_dirname\n                or os.path.abspath(dirname).startswith(\n                    os.path.abspath(inner_dirname) + os.sep\n                )\n            ):\n                inner_ignore_specs.remove((inner_dirname, inner_file, inner_spec))\n",
        "        inner_ignore_specs = [\n            (inner_dirname, inner_file, inner_spec)\n            for inner_dirname, inner_file, inner_spec in inner_ignore_specs\n            if dirname == inner_dirname\n            or os.path.abspath(dirname).startswith(os.path.abspath(inner_dirname) + os.sep)\n        ]\n",
        "QUIET", None, "stale inner specs dropped by a comprehension",
    ),
    Variant(
        "comprehension-abs-prefix-vs-walk-dirname", DISC,
        "        for inner_dirname, inner_file, inner_spec in inner_ignore_specs[:]:\n            if not (\n                dirname == inner_dirname\n                or os.path.abspath(dirname).startswith(\n                    os.path.abspath(inner_dirname) + os.sep\n                )\n            ):\n                inner_ignore_specs.remove((inner_dirname, inner_file, inner_spec))\n",
        "        inner_ignore_specs = [\n            (inner_dirname, inner_file, inner_spec)\n            for inner_dirname, inner_file, inner_spec in inner_ignore_specs\n            if dirname == inner_dirname\n            or dirname.startswith(os.path.abspath(inner_dirname) + os.sep)\n        ]\n",
        "R25a", "_iter_files_in_path", "breaking twin of the comprehension spelling",
    ),
    Variant(
        "containment-prefix-in-local-without-separator", DISC,
        "            if not (\n                dirname == inner_dirname\n                or os.path.abspath(dirname).startswith(\n                    os.path.abspath(inner_dirname) + os.sep\n                )\n            ):\n",
        "            inner_prefix = os.path.abspath(inner_dirname)\n            if not (\n                dirname == inner_dirname\n                or os.path.abspath(dirname).startswith(inner_prefix)\n            ):\n",
        "R25f", "_iter_files_in_path", "breaking twin of the prefix-in-local spelling",
    ),
    Variant(
        "record-indexed-wrong-component", DISC,
        "    for dirname, filename, spec in ignore_specs:\n        if spec.match_file(os.path.relpath(absolute_filepath, dirname)):\n            return os.path.join(dirname, filename)\n",
        "    for record in ignore_specs:\n        if record[2].match_file(os.path.relpath(absolute_filepath, record[1])):\n            return os.path.join(record[0], record[1])\n",
        "R25c", "_check_ignore_specs", "breaking twin of the indexed-record spelling: relative to the file name, not the directory",
    ),
    Variant(
        "prune-if-without-elif", DISC,
        "            if _check_ignore_specs(\n                absolute_path, outer_ignore_specs\n            ) or _check_ignore_specs(absolute_path, inner_ignore_specs):\n                subdirs.remove(subdir)\n                continue\n",
        "            if _check_ignore_specs(absolute_path, outer_ignore_specs):\n                subdirs.remove(subdir)\n            elif _check_ignore_specs(absolute_path, inner_ignore_specs):\n                pass\n",
        "R25e", "_iter_files_in_path", "breaking twin of the if/elif spelling: the inner arm no longer prunes",
    ),
    Variant(
        "loader-through-local-gets-root-path", DISC,
        "                ignore_spec = ignore_file_loaders[ignore_file](dirname, ignore_file)\n                if ignore_spec:\n                    inner_ignore_specs.append(ignore_spec)\n",
        "                loader = ignore_file_loaders[ignore_file]\n                ignore_spec = loader(path, ignore_file)\n                if ignore_spec:\n                    inner_ignore_specs.append(ignore_spec)\n",
        "R25e", "_iter_files_in_path", "breaking twin of the loader-in-a-local spelling",
    ),
    Variant(
        "exact-path-is-not-none-test", DISC,
        "    if not ignore_file:\n        # If not ignored",
        "    if ignore_file is not None:\n        # If not ignored",
        "R25d", "_process_exact_path", "breaking twin of the `is None` spelling: returns the file when it IS ignored",
    ),
    Variant(
        "yield-conjunction-without-inner-test", DISC,
        "            if not _match_file_extension(filename, lower_file_exts):\n                continue\n            # Check not ignored by outer & inner ignore specs\n            if _check_ignore_specs(absolute_path, outer_ignore_specs):\n                continue\n            if _check_ignore_specs(absolute_path, inner_ignore_specs):\n                continue\n\n            # If we get here, it's one we want. Yield it.\n            yield os.path.normpath(relative_path)\n",
        "            wanted = (\n                _match_file_extension(filename, lower_file_exts)\n                and not _check_ignore_specs(absolute_path, outer_ignore_specs)\n            )\n            if wanted:\n                yield os.path.normpath(relative_path)\n",
        "R25d", "_iter_files_in_path", "breaking twin of the conjunction-in-a-local spelling",
    ),
    Variant(
        "containment-by-commonprefix", DISC,
        "                or os.path.abspath(dirname).startswith(\n                    os.path.abspath(inner_dirname) + os.sep\n                )\n",
        "                or os.path.commonprefix([os.path.abspath(dirname), os.path.abspath(inner_dirname)])\n                == os.path.abspath(inner_dirname)\n",
        "R25f", "_iter_files_in_path", "seeded C25-1",
    ),
    Variant(
        "containment-prefix-without-separator", DISC,
        "                    os.path.abspath(inner_dirname) + os.sep\n",
        "                    os.path.abspath(inner_dirname)\n",
        "R25f", "_iter_files_in_path",
    ),
    Variant(
        "ignorefile-loader-memoised", DISC,
        "def _load_ignorefile(dirpath: str, filename: str) -> IgnoreSpecRecord:",
        "@__import__('functools').lru_cache(maxsize=None)\ndef _load_ignorefile(dirpath: str, filename: str) -> IgnoreSpecRecord:",
        "R25g", "_load_ignorefile", "seeded C25-2",
    ),
    Variant(
        "abs-prefix-vs-walk-dirname", DISC,
        "                or os.path.abspath(dirname).startswith(\n",
        "                or dirname.startswith(\n",
        "R25a", "_iter_files_in_path", "re-introduces the original defect",
    ),
    Variant(
        "equality-mixed-spelling", DISC,
        "                dirname == inner_dirname\n",
        "                os.path.abspath(dirname) == inner_dirname\n",
        "R25a", "_iter_files_in_path",
    ),
    Variant(
        "frozen-cwd-default", DISC,
        "    working_path: Optional[str] = None,\n",
        "    working_path: Optional[str] = os.getcwd(),\n",
        "R25b", "paths_from_path",
    ),
    Variant(
        "match-absolute-path", DISC,
        "spec.match_file(os.path.relpath(absolute_filepath, dirname))",
        "spec.match_file(absolute_filepath)",
        "R25c", "_check_ignore_specs",
    ),
    Variant(
        "inner-ignore-test-dropped", DISC,
        "            if _check_ignore_specs(absolute_path, inner_ignore_specs):\n                continue\n",
        "",
        "R25d", "_iter_files_in_path",
    ),
    Variant(
        "exact-path-ignore-test-dropped", DISC,
        "    if not ignore_file:\n        # If not ignored",
        "    if True:\n        # If not ignored",
        "R25d", "_process_exact_path",
    ),
    Variant(
        "extension-test-dropped", DISC,
        "            if not _match_file_extension(filename, lower_file_exts):\n                continue\n",
        "",
        "R25d", "_iter_files_in_path",
    ),
    Variant(
        "prune-only-outer", DISC,
        "            if _check_ignore_specs(\n                absolute_path, outer_ignore_specs\n            ) or _check_ignore_specs(absolute_path, inner_ignore_specs):",
        "            if _check_ignore_specs(\n                absolute_path, outer_ignore_specs\n            ):",
        "R25e", "_iter_files_in_path",
    ),
    Variant(
        "walk-bottom-up", DISC,
        "os.walk(path, topdown=True)",
        "os.walk(path, topdown=False)",
        "R25e", "_iter_files_in_path",
    ),
    Variant(
        "loader-gets-root-path", DISC,
        "ignore_file_loaders[ignore_file](dirname, ignore_file)",
        "ignore_file_loaders[ignore_file](path, ignore_file)",
        "R25e", "_iter_files_in_path",
    ),
]
