"""C06 — parsing is deterministic and unaffected by parser optimisations (decided clauses only).

R06a  the parse cache is per-parse and its key identifies what a match depends on:
      * the cache dict of ``ParseContext`` is created in ``__init__`` (fresh dict), never
        rebound or mutated anywhere else in the tree and never touched outside the class;
      * the look-up method indexes the dict with a key made of *all* its parameters, the
        store method with the same parameters and stores its remaining parameter;
      * at every call site of those two methods the key has, as whole components
        (``sa.keyflow.flatten``: through locals, tuple displays, ``+``, a same-module helper):
        the position of the token at ``segments[idx]``, a discriminator of that token (raw or
        type), ``len(segments)`` and ``<matcher>.cache_key()``, where ``<matcher>``,
        ``segments``, ``idx`` are the receiver and arguments of the ``.match(...)`` call whose
        result is stored;
      * a ``ParseContext`` is only ever constructed inside a function, into a local / an
        argument / a returned value (factories are followed), never into an attribute, a
        global or a memoised function; the context handed to ``root_parse`` is constructed in
        the calling function.
R06b  the first-token-hint cache on grammar objects (``cached_method_for_parse_context``)
      returns a stored hint only under ``stored uuid == parse_context.uuid``, stores the hint
      together with the uuid of the context it was computed under, and ``ParseContext.uuid``
      is a fresh value per instance, assigned in ``__init__`` only.
R06c  first-token hints are sound for every grammar node reachable from the root segment of
      every bundled dialect: ``FIRST(node) ⊆ simple(node)`` unless the hint is ``None``, and a
      node that can match without consuming a token (``EPS``) has the hint ``None``
      (``sa/grammar_first.py``; the hints come from the serialised graph).
R06d  ``prune_options`` only drops an option whose hint is not ``None`` *and* whose raw test
      *and* whose type test against the first code token failed; it keeps every option when
      there is no such token; raw and types of the first token are taken from one segment.
R06e  ``next_match`` tries candidate matchers in the order of the ``matchers`` argument: the
      index list gathered from the raw map and from a *set* of types is sorted before use.
R06f  ``cache_key()`` of every matcher class is either a slot assigned only at construction
      from a fresh-unique source (``uuid4`` / ``get_next_id``) or an expression covering every
      field its ``match`` reads.
RS-state  no process-lifetime mutable state around matching except the reviewed table:
      inventory of module-/class-level containers and ``global`` statements of ``core/parser``
      and ``core/helpers/identity.py`` (constant vs mutated); matcher objects (grammars,
      parsers, segment classes) are not written to outside construction; no memoiser
      (``cache`` / ``lru_cache`` / ``cached_property``) on functions of the matching modules.

Not decided: that a cached match equals a fresh match under a different terminator stack (the
key omits terminators; no witness), the unparsable claims of greedy parse modes under
pruning, positions that start on non-code tokens with ``allow_gaps=False``, hash-order
independence beyond R06e, and that ``BaseGrammar.copy()`` keeps the key of the original (no
two structurally different options share a key in any bundled dialect today).
"""

from __future__ import annotations

import ast
import gc
from typing import Dict, List, Optional, Set, Tuple

from ..cfg import cfg_of, origins
from ..flow import cone
from ..flowutil import chain_base
from ..grammar import load_grammar
from ..grammar_analyses import Kinds
from ..grammar_first import FirstEps
from ..index import (
    AnalysisError, FuncNode, call_name, calls_in, enclosing_class, enclosing_function, enclosing_stmt,
    last_attr, module_of, norm, qualname, short, walk_local,
)
from ..keyflow import Frame, Leaf, _Opaque, canon, expand, flatten, same_value

SELFTEST_NEEDS_FILES = True

PARSER_DIR = "src/sqlfluff/core/parser/"
MALG = PARSER_DIR + "match_algorithms.py"
CTX = PARSER_DIR + "context.py"
GBASE = PARSER_DIR + "grammar/base.py"
SEQ = PARSER_DIR + "grammar/sequence.py"
ANYOF = PARSER_DIR + "grammar/anyof.py"
PARSERS = PARSER_DIR + "parsers.py"
LEXER = PARSER_DIR + "lexer.py"
RUST = PARSER_DIR + "rust_parser.py"
IDENT = "src/sqlfluff/core/helpers/identity.py"

MAX_REPORTS_R06C = 30


# =====================================================================================
# R06c  hint soundness on the grammar graph
# =====================================================================================


def _owner(d, reach, i: int) -> int:
    os_ = [o for o in d.owners(i) if o in reach] or d.owners(i) or [i]
    return os_[0]


def r06g(chk, repo, g) -> None:
    """A plain GREEDY sequence is never an option whose selection first-token pruning decides."""
    chk.rule("R06g", "no option of a OneOf / AnyNumberOf / AnySetOf / Delimited node (read through Ref and segment wrappers) is a plain Sequence with parse_mode=GREEDY: such a sequence "
             "claims the tokens up to its terminator as unparsable when its first element fails, so it 'matches' on first tokens its hint does not contain -- with pruning the option is "
             "dropped, without pruning it wins (FIRST of R06c leaves the unparsable claim out, this rule closes that gap structurally)")
    kinds = Kinds(g)
    n_opts = n_greedy = 0
    for label in sorted(g):
        d = g[label]
        if d.root is None or not d.nodes:
            continue
        reach = d.reach()
        role = [kinds.role(n) for n in d.nodes]
        for i, n in enumerate(d.nodes):
            if role[i] == "sequence" and n.get("parse_mode") == "GREEDY" and i in reach:
                n_greedy += 1
        for i in reach:
            n = d.nodes[i]
            if role[i] not in ("anynumberof", "delimited"):
                continue
            for e in n.get("elements") or ():
                n_opts += 1
                j, hops = e, 0
                while hops < 8:
                    r = role[j]
                    if r == "ref":
                        t = d.library.get(d.nodes[j].get("ref"))
                    elif r == "segment":
                        t = d.nodes[j].get("match_grammar") if not d.nodes[j].get("own_match") else None
                    else:
                        break
                    if t is None:
                        break
                    j, hops = t, hops + 1
                if role[j] == "sequence" and d.nodes[j].get("parse_mode") == "GREEDY":
                    own = d.owners(i)
                    where = d.display(own[0]) if own else d.display(i)
                    opt = d.display(e)
                    mod = f"src/sqlfluff/dialects/dialect_{label}.py"
                    chk.fail(
                        "R06g", None,
                        f"dialect '{label}': option {opt} of {d.nodes[i]['kind']} in {where} is a Sequence with parse_mode=GREEDY: when its first element does not match it still claims "
                        f"everything up to the terminator as unparsable, so without first-token pruning it beats the alternatives listed after it, with pruning (hint {d.nodes[j].get('simple')}) it is never tried",
                        detail=f"dialect={label} option={opt} in={where}: greedy sequence as a prunable option",
                        construct=f"{mod}::{where}", loc=f"{mod}:0",
                    )
    chk.count("R06g.options_examined", n_opts)
    chk.count("R06g.plain_greedy_sequences", n_greedy)
    chk.floor("R06g.options_examined", 10000)


def r06c(chk, repo, g) -> None:
    chk.rule("R06c", "for every grammar node reachable from the root of every dialect: FIRST(node) ⊆ simple(node) unless the hint is None; a node that can match "
             "without consuming a token has the hint None (FIRST/EPS by fixpoint over the serialised grammar graph)")
    kinds = Kinds(g)
    gc.freeze()
    groups: Dict[tuple, dict] = {}
    n_dialects = 0
    err_types: Dict[str, int] = {}
    sampled = 0
    for label in sorted(g):
        d = g[label]
        if d.root is None or not d.nodes:
            chk.note(f"R06c: dialect {label} has no resolved root (reported by C29), skipped.")
            continue
        n_dialects += 1
        fe = FirstEps(d, kinds)
        chk.count("R06c.fixpoint_evaluations", fe.evaluations)
        reach = d.reach()
        bad: Dict[int, tuple] = {}
        for i in reach:
            n = d.nodes[i]
            if "simple_error" in n:
                t = n["simple_error"].split(":")[0]
                err_types[t] = err_types.get(t, 0) + 1
                continue
            if "simple" not in n:
                continue
            chk.count("R06c.nodes_with_hint")
            h = n["simple"]
            if h is None:
                chk.count("R06c.hint_none")
            if fe.eps[i]:
                chk.count("R06c.eps_nodes")
                if h is not None:
                    bad[i] = ("eps", [], [])
                    continue
            if h is not None:
                chk.count("R06c.hints_compared")
            u = fe.uncovered(i, h)
            if u is not None:
                bad[i] = ("any" if u[0] else "tokens", u[1], u[2])
            elif h is not None:
                if sampled < 4 and n["kind"] in ("OneOf", "Sequence", "Bracketed", "Delimited") and len(h[0]) + len(h[1]) > 2 and label in ("ansi", "postgres", "tsql", "snowflake"):
                    sampled += 1
                    f = fe.first[i]
                    chk.sample({"rule": "R06c", "dialect": label, "node": d.display(i), "kind": n["kind"], "in": d.display(_owner(d, reach, i)),
                                "FIRST": {"raws": len(f.raws), "types": sorted(f.types)[:4]}, "hint": {"raws": len(h[0]), "types": h[1][:4]}})
        chk.count("R06c.failing_nodes", len(bad))
        # root causes only: a failing node none of whose FIRST-successors fails
        for i, (why, mr, mt) in sorted(bad.items()):
            if any(c in bad for c in fe._succ[i]):
                continue
            o = _owner(d, reach, i)
            on = d.nodes[o]
            mod = on.get("module") or d.module or "?"
            key = (mod, d.display(o), d.nodes[i]["kind"], d.display(i) if d.is_named(i) else "", why, tuple(mr[:4]), tuple(mt[:4]))
            grp = groups.setdefault(key, {"dialects": [], "line": on.get("line", 0), "chain": d.chain(i)[-4:], "hint": d.nodes[i].get("simple")})
            grp["dialects"].append(label)
    n_ok = max(0, chk.instances.get("R06c.nodes_with_hint", 0) - chk.instances.get("R06c.failing_nodes", 0))
    chk.obligations += n_ok
    chk.discharged += n_ok
    for k, v in sorted(err_types.items()):
        chk.count(f"R06c.hint_raises.{k}", v)
    chk.count("R06c.dialects", n_dialects)
    chk.count("R06c.failing_root_causes", len(groups))
    for n_rep, (key, grp) in enumerate(sorted(groups.items())):
        if n_rep >= MAX_REPORTS_R06C:
            chk.note(f"R06c: {len(groups) - MAX_REPORTS_R06C} further failing nodes not listed.")
            break
        mod, owner, kind, name, why, mr, mt = key
        if why == "eps":
            what = "can return a truthy zero-length match (metas only) but declares a first-token hint, so pruning removes it on tokens where the unpruned match succeeds"
            unc = "EPS"
        elif why == "any":
            what = "can start with a token no hint describes (regex / anything / own match) but declares a hint"
            unc = "ANY"
        else:
            what = f"can start with raws {list(mr)} / types {list(mt)} that its hint does not contain, so prune_options drops it although it would match"
            unc = f"raws={list(mr)} types={list(mt)}"
        hint = grp["hint"]
        chk.fail(
            "R06c", None,
            f"{kind} {name or ''} in {owner} {what}; hint={[x[:6] for x in hint] if hint else hint}; dialects {grp['dialects'][:8]}"
            f"{' …' if len(grp['dialects']) > 8 else ''}; chain {' > '.join(grp['chain'])}",
            detail=f"in={owner} kind={kind}{' node=' + name if name else ''} uncovered={unc}",
            construct=f"{mod}::{owner}", loc=f"{mod}:{grp['line']}",
        )
    if n_dialects >= 20:
        chk.floor("R06c.hints_compared", 40000)
        chk.floor("R06c.hint_none", 5000)
        chk.floor("R06c.eps_nodes", 100)
    elif n_dialects == 0 and chk.findings:
        chk.note("R06c: no dialect of the analysed tree loads (C29 reports that); hint soundness not evaluated.")
        return
    else:
        chk.floor("R06c.dialects", 1)
    chk.exhaustive = True


# =====================================================================================
# shared small helpers
# =====================================================================================

DICT_MUTATORS = ("update", "setdefault", "pop", "popitem", "clear", "__setitem__", "__delitem__")
SEQ_MUTATORS = ("append", "extend", "insert", "remove", "sort", "reverse", "add", "discard", "appendleft", "extendleft")
MEMOISERS = ("cache", "lru_cache", "cached_property", "cached", "memoize")


def _params(f) -> List[str]:
    a = f.args
    return [x.arg for x in a.posonlyargs + a.args]


def _self_params(f) -> List[str]:
    p = _params(f)
    return p[1:] if p and p[0] in ("self", "cls", "mcs") else p


def _decorators(f) -> List[str]:
    return [norm(d.func) if isinstance(d, ast.Call) else norm(d) for d in getattr(f, "decorator_list", [])]


def _is_memoised(f) -> Optional[str]:
    for d in _decorators(f):
        if d.split(".")[-1] in MEMOISERS:
            return d
    return None


def _methods(c: ast.ClassDef):
    return [n for n in c.body if isinstance(n, FuncNode)]


def _store_targets(stmt) -> List[ast.AST]:
    if isinstance(stmt, ast.Assign):
        out = []
        for t in stmt.targets:
            out += list(t.elts) if isinstance(t, (ast.Tuple, ast.List)) else [t]
        return out
    if isinstance(stmt, (ast.AnnAssign, ast.AugAssign)):
        return [stmt.target]
    if isinstance(stmt, ast.Delete):
        return list(stmt.targets)
    return []


def _is_fresh_dict(e) -> bool:
    if isinstance(e, ast.Dict) and not e.keys:
        return True
    return isinstance(e, ast.Call) and call_name(e) in ("dict", "OrderedDict", "collections.OrderedDict") and not e.args and not e.keywords


def _attr_on(node, attr: str) -> bool:
    return isinstance(node, ast.Attribute) and node.attr == attr


# =====================================================================================
# R06a  the parse cache
# =====================================================================================


class CacheApi:
    """The look-up / store methods of ParseContext and the attribute that holds the dict."""

    def __init__(self, repo):
        self.cls = repo.cls(CTX, "ParseContext")
        self.init = repo.fn(CTX, "ParseContext.__init__")
        self.reader = repo.fn(CTX, "ParseContext.check_parse_cache")
        self.writer = repo.fn(CTX, "ParseContext.put_parse_cache")
        self.attr: Optional[str] = None
        self.store: Optional[ast.Assign] = None
        for n in walk_local(self.writer):
            if isinstance(n, ast.Assign):
                for t in n.targets:
                    if isinstance(t, ast.Subscript) and isinstance(t.value, ast.Attribute) and isinstance(t.value.value, ast.Name) and t.value.value.id == "self":
                        self.attr, self.store = t.value.attr, n
        if self.attr is None:
            raise AnalysisError("R06a: ParseContext.put_parse_cache no longer stores into a dict attribute of self (anchor refactored)")
        self.read_key: Optional[ast.AST] = None
        for n in walk_local(self.reader):
            if isinstance(n, ast.Call) and last_attr(n) == "get" and isinstance(n.func, ast.Attribute) and _attr_on(n.func.value, self.attr) and n.args:
                self.read_key = n.args[0]
            elif isinstance(n, ast.Subscript) and isinstance(n.ctx, ast.Load) and _attr_on(n.value, self.attr):
                self.read_key = n.slice
        if self.read_key is None:
            raise AnalysisError(f"R06a: ParseContext.check_parse_cache no longer reads self.{self.attr} (anchor refactored)")


def r06a_cache_attr(chk, repo, api: CacheApi) -> None:
    A = api.attr
    n_init = 0
    for m in repo.modules.values():
        if A not in m.text:
            continue
        for n in ast.walk(m.tree):
            if isinstance(n, ast.ClassDef) and n is api.cls:
                for s in n.body:
                    for t in _store_targets(s):
                        if isinstance(t, ast.Name) and t.id == A and getattr(s, "value", None) is not None:
                            chk.fail("R06a", s, f"ParseContext.{A} is a class attribute: every ParseContext of the process shares one match cache, so matches of an earlier file are replayed",
                                     detail=f"{A} class-level value")
            if not _attr_on(n, A):
                continue
            chk.count("R06a.cache_attr_sites")
            f = enclosing_function(n)
            c = enclosing_class(n)
            inside = c is api.cls and isinstance(n.value, ast.Name) and n.value.id == "self"
            st = enclosing_stmt(n)
            par = getattr(n, "_parent", None)
            rebinding = any(t is n for t in _store_targets(st))
            mutating = (
                (isinstance(par, ast.Subscript) and par.value is n and isinstance(par.ctx, (ast.Store, ast.Del)))
                or (isinstance(par, ast.Attribute) and par.value is n and par.attr in DICT_MUTATORS and isinstance(getattr(par, "_parent", None), ast.Call))
            )
            where = f"{qualname(f) if f is not None else '<module>'}"
            if not inside:
                chk.fail("R06a", n, f"the parse cache of a ParseContext is touched outside the class ({short(st, 80)}): the cache is no longer owned by one parse",
                         detail=f"foreign access to {A} in {where}")
            elif rebinding:
                ok = f is api.init and isinstance(st, (ast.Assign, ast.AnnAssign)) and _is_fresh_dict(st.value)
                n_init += ok
                chk.require(ok, "R06a", st, f"self.{A} must be bound exactly once, in ParseContext.__init__, to a fresh empty dict (found {short(st, 80)} in {where}); "
                            "anything else lets matches of one parse be seen by another", detail=f"{A} bound in {where}")
            elif mutating:
                chk.require(f is api.writer, "R06a", st, f"self.{A} is mutated in {where}, not only in the store method", detail=f"{A} mutated in {where}")
            else:
                chk.ok("R06a", f"{CTX}::{where}", f"{A} read")
    chk.require(n_init == 1, "R06a", api.init, f"ParseContext.__init__ must create the parse cache (self.{A} = {{}}) exactly once; found {n_init} such assignments",
                detail=f"{A} created in __init__")
    chk.floor("R06a.cache_attr_sites", 3)

    # key shape of reader / writer
    rp, wp = _self_params(api.reader), _self_params(api.writer)
    fr = Frame(api.reader)
    for alt in flatten(repo, api.read_key, fr):
        got = {lf.expr.arg for lf in alt if isinstance(lf.expr, ast.arg) and not lf.path}
        chk.require(set(rp) <= got, "R06a", api.reader, f"the cache look-up key {short(api.read_key, 60)} does not contain every parameter of check_parse_cache as a whole component "
                    f"(missing {sorted(set(rp) - got)}): two different look-ups collapse onto one entry", detail="look-up key covers all parameters")
    fw = Frame(api.writer)
    tgt = api.store.targets[0]
    keyp = wp[: len(rp)]
    for alt in flatten(repo, tgt.slice, fw):
        got = {lf.expr.arg for lf in alt if isinstance(lf.expr, ast.arg) and not lf.path}
        chk.require(set(keyp) <= got and len(keyp) == len(rp), "R06a", api.writer, f"the cache store key {short(tgt.slice, 60)} does not contain the parameters {keyp} as whole components",
                    detail="store key covers all key parameters")
    vals = expand(api.store.value, fw, api.store)
    chk.require(bool(vals) and len(wp) == len(rp) + 1 and all(isinstance(v.expr, ast.arg) and v.expr.arg == wp[-1] and not v.path for v in vals), "R06a", api.store,
                "the stored cache value is not the match handed to put_parse_cache", detail="stored value is the match parameter")


TOKEN_ATTRS = ("raw", "raw_upper", "class_types", "instance_types", "type")
TOKEN_CALLS = ("get_type",)


class KeyFacts:
    """Which facts the components of a cache key carry, relative to one ``R.match(S, I, ..)``."""

    def __init__(self, frame: Frame, match_call: ast.Call):
        st = frame.cfg.stmt_of(match_call)
        self.R = (match_call.func.value, frame, st)
        self.S = (match_call.args[0], frame, st)
        self.I = (match_call.args[1], frame, st)

    def is_token(self, e: ast.AST, frame: Frame, at) -> bool:
        ls = expand(e, frame, at)
        return bool(ls) and all(
            isinstance(x.expr, ast.Subscript) and not x.path
            and same_value((x.expr.value, x.frame, x.at), self.S) and same_value((x.expr.slice, x.frame, x.at), self.I)
            for x in ls
        )

    def of(self, lf: Leaf) -> Set[str]:
        e = lf.expr
        out: Set[str] = set()
        if lf.path or isinstance(e, (ast.arg, _Opaque)):
            return out
        if isinstance(e, ast.Attribute):
            if e.attr in TOKEN_ATTRS and self.is_token(e.value, lf.frame, lf.at):
                out.add("token")
            if e.attr in ("working_loc", "working_line_no", "working_line_pos"):
                bases = expand(e.value, lf.frame, lf.at)
                if bases and all(isinstance(b.expr, ast.Attribute) and b.expr.attr == "pos_marker" and not b.path and self.is_token(b.expr.value, b.frame, b.at) for b in bases):
                    out.add({"working_loc": "position", "working_line_no": "line", "working_line_pos": "column"}[e.attr])
        elif isinstance(e, ast.Call):
            if isinstance(e.func, ast.Attribute) and not e.args and not e.keywords:
                if e.func.attr in TOKEN_CALLS and self.is_token(e.func.value, lf.frame, lf.at):
                    out.add("token")
                if e.func.attr == "cache_key" and same_value((e.func.value, lf.frame, lf.at), self.R):
                    out.add("matcher")
            if call_name(e) == "len" and len(e.args) == 1 and same_value((e.args[0], lf.frame, lf.at), self.S):
                out.add("length")
        return out

    def facts(self, alt: List[Leaf]) -> Set[str]:
        out: Set[str] = set()
        for lf in alt:
            out |= self.of(lf)
        if {"line", "column"} <= out:
            out.add("position")
        return out


FACT_TEXT = {
    "position": ("token position", "the working position of segments[idx] (pos_marker.working_loc): matches made at one place are replayed at another"),
    "token": ("token discriminator", "the raw or the type of segments[idx]: a zero-width placeholder/meta and the token that follows it share one position"),
    "length": ("visible length", "len(segments): a match made on a longer view of the tokens is replayed after the tail was trimmed off (or the other way round)"),
    "matcher": ("matcher key", "<matcher>.cache_key() of the matcher being matched: the result of one alternative is replayed for another"),
}


def _call_args(call: ast.Call, fn) -> Optional[List[ast.AST]]:
    """Actual arguments of ``call`` in the parameter order of the method ``fn`` (``self`` excluded),
    positional or by keyword; None when they cannot be read (``*args`` / ``**kwargs``)."""
    ps = _self_params(fn)
    if any(isinstance(a, ast.Starred) for a in call.args) or any(k.arg is None for k in call.keywords) or len(call.args) > len(ps):
        return None
    out = list(call.args)
    for pname in ps[len(out):]:
        kv = [k.value for k in call.keywords if k.arg == pname]
        if not kv:
            break
        out.append(kv[0])
    return out


def r06a_call_sites(chk, repo, api: CacheApi) -> None:
    rname, wname = api.reader.name, api.writer.name
    n_key = len(_self_params(api.reader))
    by_func: Dict[int, dict] = {}
    for m in repo.modules.values():
        if rname not in m.text and wname not in m.text:
            continue
        for q, f in m.functions():
            for c in calls_in(f):
                if isinstance(c.func, ast.Attribute) and c.func.attr in (rname, wname):
                    by_func.setdefault(id(f), {"f": f, "calls": []})["calls"].append(c)
    for ent in by_func.values():
        f = ent["f"]
        if enclosing_class(f) is api.cls:
            continue
        frame = Frame(f)
        puts = [c for c in ent["calls"] if c.func.attr == wname]
        checks = [c for c in ent["calls"] if c.func.attr == rname]
        triples: List[KeyFacts] = []
        for p in puts:
            chk.count("R06a.put_sites")
            pargs = _call_args(p, api.writer) or []
            v = pargs[n_key] if len(pargs) > n_key else None
            mcalls = []
            if v is not None:
                mcalls = [lf.expr for lf in expand(v, frame, frame.cfg.stmt_of(p))
                          if isinstance(lf.expr, ast.Call) and last_attr(lf.expr) == "match" and isinstance(lf.expr.func, ast.Attribute) and len(lf.expr.args) >= 2 and not lf.path]
            ok = bool(mcalls) and v is not None and len(mcalls) == len(expand(v, frame, frame.cfg.stmt_of(p)))
            chk.require(ok, "R06a", p, "the value put into the parse cache is not (only) the result of <matcher>.match(segments, idx, ..) made in this function",
                        detail="put value: result of the keyed match")
            here = [KeyFacts(frame, mc) for mc in mcalls]
            triples += here
            _key_facts(chk, repo, frame, p, n_key, here, "put", _call_args(p, api.writer))
        for c in checks:
            chk.count("R06a.check_sites")
            tr = triples
            if not tr:
                tr = [KeyFacts(frame, mc) for mc in calls_in(f) if last_attr(mc) == "match" and isinstance(mc.func, ast.Attribute) and len(mc.args) >= 3]
            if not tr:
                chk.fail("R06a", c, "a cached match is looked up in a function that performs no .match(segments, idx, ..) the look-up could stand for", detail="check: match it replaces")
                continue
            _key_facts(chk, repo, frame, c, n_key, tr, "check", _call_args(c, api.reader))
    chk.floor("R06a.put_sites", 1)
    chk.floor("R06a.check_sites", 1)


def _key_facts(chk, repo, frame: Frame, call: ast.Call, n_key: int, triples: List[KeyFacts], role: str, args: Optional[List[ast.AST]] = None) -> None:
    if args is None or len(args) < n_key or not triples:
        chk.fail("R06a", call, f"cannot read the key arguments of the parse-cache {role} call", detail=f"{role} key: arguments")
        return
    st = frame.cfg.stmt_of(call)
    alts: List[List[Leaf]] = [[]]
    for a in args[:n_key]:
        alts = [x + y for x in alts for y in flatten(repo, a, frame, st)][:24]
    for fact, (label, why) in FACT_TEXT.items():
        ok = all(any(fact in kf.facts(alt) for kf in triples) for alt in alts)
        chk.require(ok, "R06a", call, f"the parse-cache key used at this {role} does not contain {why}", detail=f"{role} key: {label}")
    if role == "put":
        chk.sample({"rule": "R06a", "site": f"{module_of(call).relpath}:{call.lineno}", "key_components": [short(lf.expr, 50) for lf in alts[0] if isinstance(lf.expr, ast.AST) and not isinstance(lf.expr, _Opaque)],
                    "facts": sorted(triples[0].facts(alts[0]))})


class CtxCtors:
    """Every expression in the tree that constructs a ParseContext (factories followed)."""

    def __init__(self, repo, api: CacheApi):
        self.repo = repo
        self.api = api
        self.factories: Dict[int, ast.AST] = {}  # functions whose return value is a fresh context
        self.sites: List[ast.Call] = []
        for _ in range(4):
            before = len(self.factories)
            self.sites = []
            for m in repo.modules.values():
                if "ParseContext" not in m.text and not any(f.name in m.text for f in self.factories.values()):
                    continue
                for c in (n for n in ast.walk(m.tree) if isinstance(n, ast.Call)):
                    if self.is_ctor(c):
                        self.sites.append(c)
                        st = enclosing_stmt(c)
                        f = enclosing_function(c)
                        if isinstance(f, FuncNode) and self._returned(c, f):
                            self.factories[id(f)] = f
            if len(self.factories) == before:
                break

    def _returned(self, c: ast.Call, f) -> bool:
        st = enclosing_stmt(c)
        if isinstance(st, ast.Return) and st.value is c:
            return True
        if isinstance(st, (ast.Assign, ast.AnnAssign)) and st.value is c:
            names = [t.id for t in _store_targets(st) if isinstance(t, ast.Name)]
            fr = Frame(f)
            for r in walk_local(f):
                if isinstance(r, ast.Return) and isinstance(r.value, ast.Name) and r.value.id in names:
                    if all(lf.expr is c for lf in expand(r.value, fr, r)):
                        return True
        return False

    def is_ctor(self, c: ast.Call) -> bool:
        m = module_of(c)
        fn = c.func
        if isinstance(fn, ast.Name):
            if fn.id == "cls":
                f = enclosing_function(c)
                return enclosing_class(c) is self.api.cls and isinstance(f, FuncNode) and _params(f)[:1] == ["cls"]
            r = self.repo.resolve_name(m, fn.id)
            return bool(r) and (r[1] is self.api.cls or id(r[1]) in self.factories)
        if isinstance(fn, ast.Attribute):
            base = fn.value
            if isinstance(base, ast.Name):
                r = self.repo.resolve_name(m, base.id)
                if r and r[1] is self.api.cls:
                    meth = self.repo.lookup_method(r[0], r[1], fn.attr)
                    return bool(meth) and id(meth[1]) in self.factories
                if r and isinstance(r[1], ast.Module):
                    r2 = self.repo.resolve_name(m, f"{base.id}.{fn.attr}")
                    return bool(r2) and (r2[1] is self.api.cls or id(r2[1]) in self.factories)
                if base.id in ("self", "cls"):
                    c_ = enclosing_class(c)
                    if c_ is not None:
                        meth = self.repo.lookup_method(m, c_, fn.attr)
                        return bool(meth) and id(meth[1]) in self.factories
        return False


def r06a_construction(chk, repo, api: CacheApi) -> CtxCtors:
    ct = CtxCtors(repo, api)
    for c in ct.sites:
        chk.count("R06a.context_constructions")
        f = enclosing_function(c)
        st = enclosing_stmt(c)
        where = qualname(f) if isinstance(f, FuncNode) else "<module or class body>"
        d0 = f"context constructed in {where}"
        if not isinstance(f, FuncNode):
            chk.fail("R06a", c, "a ParseContext is constructed at import time / in a class body: it (and its match cache) lives for the whole process", detail=d0)
            continue
        memo = _is_memoised(f)
        if memo:
            chk.fail("R06a", c, f"{where} constructs a ParseContext and is memoised ({memo}): later parses receive the context, and the match cache, of an earlier one", detail=d0)
            continue
        stored = [t for t in _store_targets(st) if not isinstance(t, ast.Name)] if getattr(st, "value", None) is c or isinstance(st, ast.AugAssign) else []
        locals_ = [t.id for t in _store_targets(st) if isinstance(t, ast.Name)] if getattr(st, "value", None) is c else []
        declared = {n for g in walk_local(f) if isinstance(g, (ast.Global, ast.Nonlocal)) for n in g.names}
        escapes = []
        fr = Frame(f)
        if locals_:
            for s in walk_local(f):
                if isinstance(s, (ast.Assign, ast.AnnAssign)) and s is not st and getattr(s, "value", None) is not None:
                    if any(not isinstance(t, ast.Name) for t in _store_targets(s)):
                        for nm in (x for x in ast.walk(s.value) if isinstance(x, ast.Name) and x.id in locals_):
                            if any(lf.expr is c for lf in expand(nm, fr, s)):
                                escapes.append(s)
        bad = bool(stored) or bool(set(locals_) & declared) or bool(escapes)
        chk.require(not bad, "R06a", c, f"the ParseContext constructed in {where} is stored beyond the call ({short((stored and st) or (escapes and escapes[0]) or st, 80)}): "
                    "its match cache and hint uuid are then shared by every parse that reuses it", detail=d0)
    chk.floor("R06a.context_constructions", 3)
    # the context handed to the root parse is made in the calling function
    for m in repo.iter_modules("src/sqlfluff/core/"):
        if "root_parse" not in m.text:
            continue
        for q, f in m.functions():
            for c in calls_in(f):
                if last_attr(c) != "root_parse" or not isinstance(c.func, ast.Attribute):
                    continue
                chk.count("R06a.root_parse_calls")
                a = next((k.value for k in c.keywords if k.arg == "parse_context"), None) or (c.args[1] if len(c.args) > 1 else None)
                fr = Frame(f)
                ls = expand(a, fr, fr.cfg.stmt_of(c)) if a is not None else []
                ok = bool(ls) and all(isinstance(lf.expr, ast.Call) and lf.expr in ct.sites and not lf.path for lf in ls)
                chk.require(ok, "R06a", c, f"the parse context given to root_parse in {q} is not (on every path) a ParseContext constructed in this call: "
                            "a reused context replays cached matches of an earlier token sequence", detail=f"root_parse context fresh in {q}")
    chk.floor("R06a.root_parse_calls", 1)
    return ct


# =====================================================================================
# R06b  hint cache on grammar objects
# =====================================================================================

FRESH_ID_CALLS = ("uuid4", "uuid1", "get_next_id")


def _is_dunder_dict(e, owner: str) -> bool:
    return isinstance(e, ast.Attribute) and e.attr == "__dict__" and isinstance(e.value, ast.Name) and e.value.id == owner


def r06b(chk, repo, api: CacheApi, ct: CtxCtors) -> Optional[ast.AST]:
    chk.rule("R06b", "the per-grammar hint cache returns a stored hint only when the stored uuid equals parse_context.uuid, stores the hint with the uuid of the context it was "
             "computed under, and ParseContext.uuid is fresh per instance and assigned in __init__ only")
    deco = repo.fn(GBASE, "cached_method_for_parse_context")
    inner = [n for n in deco.body if isinstance(n, FuncNode)]
    ret = [n for n in deco.body if isinstance(n, ast.Return) and isinstance(n.value, ast.Name)]
    wrapper = next((w for w in inner if ret and w.name == ret[-1].value.id), None)
    if wrapper is None or not _params(deco):
        raise AnalysisError("R06b: cached_method_for_parse_context no longer returns a nested wrapper function (anchor refactored)")
    fparam = _params(deco)[0]
    wp = _params(wrapper)
    if len(wp) < 2:
        raise AnalysisError("R06b: hint-cache wrapper lost its (self, parse_context) parameters")
    me, pc = wp[0], wp[1]
    cfg = cfg_of(wrapper)
    fr = Frame(wrapper)

    def is_pc_uuid(e) -> bool:
        if not (isinstance(e, ast.Attribute) and e.attr == "uuid"):
            return False
        ls = expand(e.value, fr, cfg.stmt_of(e))
        return bool(ls) and all(isinstance(x.expr, ast.arg) and x.expr.arg == pc for x in ls)

    reads = [n for n in walk_local(wrapper) if (isinstance(n, ast.Subscript) and isinstance(n.ctx, ast.Load) and _is_dunder_dict(n.value, me))
             or (isinstance(n, ast.Call) and ((last_attr(n) == "get" and isinstance(n.func, ast.Attribute) and _is_dunder_dict(n.func.value, me))
                                               or (call_name(n) == "getattr" and n.args and isinstance(n.args[0], ast.Name) and n.args[0].id == me)))]
    chk.count("R06b.slot_reads", len(reads))
    chk.floor("R06b.slot_reads", 1)
    read_ids = {id(r) for r in reads}
    n_cached = 0
    for r in walk_local(wrapper):
        if not (isinstance(r, ast.Return) and r.value is not None):
            continue
        cn = cone(cfg, r.value, r)
        if not any(id(x) in read_ids for x in cn):
            continue
        n_cached += 1
        guarded = False
        for e, pol in cfg.conditions(r):
            if isinstance(e, ast.Compare) and len(e.ops) == 1 and ((isinstance(e.ops[0], ast.Eq) and pol) or (isinstance(e.ops[0], ast.NotEq) and not pol)):
                sides = [e.left, e.comparators[0]]
                for a, b in (sides, sides[::-1]):
                    if is_pc_uuid(a) and any(id(x) in read_ids for x in cone(cfg, b, cfg.stmt_of(e))):
                        guarded = True
        chk.require(guarded, "R06b", r, "a hint stored on the grammar object is returned without comparing the stored uuid with parse_context.uuid: grammar objects are shared by "
                    "all dialects and all parses of the process, so a hint computed for another dialect prunes alternatives of this one", detail="cached hint returned only under uuid equality")
    chk.require(n_cached >= 1, "R06b", wrapper, "the wrapper never returns a stored hint (anchor of the rule gone)", detail="cached return present")
    n_store = 0
    for s in walk_local(wrapper):
        if isinstance(s, ast.Assign) and any(isinstance(t, ast.Subscript) and _is_dunder_dict(t.value, me) for t in s.targets):
            n_store += 1
            ok_uuid = ok_val = False
            for alt in flatten(repo, s.value, fr, s):
                u = any(is_pc_uuid(lf.expr) and not lf.path for lf in alt)
                v = False
                for lf in alt:
                    e = lf.expr
                    if isinstance(e, ast.Call) and isinstance(e.func, ast.Name) and e.func.id == fparam and not lf.path:
                        v = any(isinstance(x.expr, ast.arg) and x.expr.arg == pc for a in e.args for x in expand(a, fr, lf.at))
                ok_uuid, ok_val = u, v
                if not (u and v):
                    break
            chk.require(ok_uuid and ok_val, "R06b", s, "the hint is not stored together with parse_context.uuid of the context it was computed under "
                        f"(stored: {short(s.value, 60)})", detail="hint stored with the uuid of its context")
    chk.require(n_store >= 1, "R06b", wrapper, "the wrapper no longer stores the computed hint (cache anchor gone)", detail="store present")
    # ParseContext.uuid: fresh per instance, bound in __init__ only
    n_uuid = 0
    for f in _methods(api.cls):
        for s in walk_local(f):
            for t in _store_targets(s):
                if isinstance(t, ast.Attribute) and t.attr == "uuid" and isinstance(t.value, ast.Name) and t.value.id == "self":
                    v = getattr(s, "value", None)
                    fresh = isinstance(v, ast.Call) and call_name(v).split(".")[-1] in FRESH_ID_CALLS
                    n_uuid += f is api.init and fresh
                    chk.require(f is api.init and fresh, "R06b", s, f"ParseContext.uuid must be a fresh id bound in __init__ (found {short(s, 70)} in {f.name}): two contexts with equal "
                                "uuids share the hints cached on grammar objects", detail=f"uuid bound in {f.name}")
    chk.require(n_uuid == 1, "R06b", api.init, "ParseContext.__init__ does not bind self.uuid to a fresh id exactly once", detail="uuid created in __init__")
    for c in ct.sites:
        f = enclosing_function(c)
        if not isinstance(f, FuncNode):
            continue
        fr2 = Frame(f)
        for s in walk_local(f):
            for t in _store_targets(s):
                if isinstance(t, ast.Attribute) and t.attr == "uuid" and isinstance(t.value, ast.Name):
                    if any(lf.expr is c for lf in expand(t.value, fr2, s)):
                        chk.fail("R06b", s, "the uuid of a freshly constructed ParseContext is overwritten: hints cached under the other uuid become valid for this context",
                                 detail=f"uuid overwritten in {qualname(f)}")
    return wrapper


# =====================================================================================
# R06d  prune_options
# =====================================================================================


class _PruneModel:
    """Symbolic walk of the option loop of ``prune_options`` (acyclic body)."""

    def __init__(self, repo, f):
        self.repo = repo
        self.f = f
        self.fr = Frame(f)
        self.cfg = self.fr.cfg
        self.loop: Optional[ast.For] = None
        self.hint_call: Optional[ast.Call] = None
        for n in walk_local(f):
            if isinstance(n, ast.For):
                for c in calls_in(n):
                    if last_attr(c) == "simple" and isinstance(c.func, ast.Attribute):
                        ls = expand(c.func.value, self.fr, self.cfg.stmt_of(c))
                        if ls and all(isinstance(x.expr, _Opaque) and x.expr.kind == "for" and x.expr.stmt is n for x in ls):
                            self.loop, self.hint_call = n, c
        if self.loop is None:
            raise AnalysisError("R06d: prune_options has no loop that asks each option for its simple() hint (anchor refactored)")
        self.first_call: Optional[ast.Call] = None
        self._calls: Dict[int, ast.Call] = {}

    # -- value components ------------------------------------------------------------------
    def comp(self, e: ast.AST, at) -> Optional[Tuple[int, Optional[int]]]:
        """(id of the producing call, tuple index) of a plain value, None when unknown."""
        idx: Optional[int] = None
        lf = None
        for _ in range(4):
            if isinstance(e, ast.Subscript) and isinstance(e.slice, ast.Constant) and isinstance(e.slice.value, int):
                if idx is not None:
                    return None
                idx, e = e.slice.value, e.value
            ls = expand(e, self.fr, at)
            if len(ls) != 1:
                return None
            lf = ls[0]
            if isinstance(lf.expr, ast.Subscript) and not lf.path and isinstance(lf.expr.slice, ast.Constant):
                e, at = lf.expr, lf.at
                continue
            break
        if lf is None or not isinstance(lf.expr, ast.Call):
            return None
        self._calls[id(lf.expr)] = lf.expr
        if lf.path:
            if idx is not None or len(lf.path) != 1 or not isinstance(lf.path[0], int):
                return None
            idx = lf.path[0]
        return id(lf.expr), idx

    def is_hint(self, e, at) -> bool:
        return self.comp(e, at) == (id(self.hint_call), None)

    def is_loopvar(self, e, at) -> bool:
        ls = expand(e, self.fr, at)
        return bool(ls) and all(isinstance(x.expr, _Opaque) and x.expr.kind == "for" and x.expr.stmt is self.loop for x in ls)

    # -- atoms -----------------------------------------------------------------------------
    def classify(self, e: ast.AST, at) -> Optional[Tuple[str, bool]]:
        """(kind, sign): truth of ``e`` == sign means <kind> holds.  kinds: none (hint is None), raw (first raw in hint raws), type (types intersect)."""
        if isinstance(e, ast.Compare) and len(e.ops) == 1:
            op, l, r = e.ops[0], e.left, e.comparators[0]
            if isinstance(op, (ast.Is, ast.IsNot, ast.Eq, ast.NotEq)) and isinstance(r, ast.Constant) and r.value is None and self.is_hint(l, at):
                return "none", isinstance(op, (ast.Is, ast.Eq))
            if isinstance(op, (ast.In, ast.NotIn)):
                cl, cr = self.comp(l, at), self.comp(r, at)
                if cr == (id(self.hint_call), 0) and cl is not None and cl[1] == 0 and cl[0] != id(self.hint_call):
                    if self.first_call is None or id(self.first_call) == cl[0]:
                        self.first_call = self._calls[cl[0]]
                        return "raw", isinstance(op, ast.In)
            return None
        if self.is_hint(e, at):
            return "none", False
        pair = None
        sign = True
        if isinstance(e, ast.Call) and isinstance(e.func, ast.Attribute) and e.func.attr in ("intersection", "isdisjoint") and len(e.args) == 1:
            pair, sign = (e.func.value, e.args[0]), e.func.attr == "intersection"
        elif isinstance(e, ast.BinOp) and isinstance(e.op, ast.BitAnd):
            pair = (e.left, e.right)
        if pair is not None:
            cs = {self.comp(pair[0], at), self.comp(pair[1], at)}
            if (id(self.hint_call), 1) in cs and len(cs) == 2:
                other = next(c for c in cs if c != (id(self.hint_call), 1))
                if other is not None and other[1] == 1 and (self.first_call is None or other[0] == id(self.first_call)):
                    return "type", sign
        return None

    def const_value(self, e, flags) -> Optional[bool]:
        if isinstance(e, ast.Constant) and isinstance(e.value, bool):
            return e.value
        if isinstance(e, ast.Name) and e.id in flags:
            return flags[e.id]
        if isinstance(e, ast.UnaryOp) and isinstance(e.op, ast.Not):
            v = self.const_value(e.operand, flags)
            return None if v is None else not v
        if isinstance(e, ast.BoolOp):
            vs = [self.const_value(v, flags) for v in e.values]
            if isinstance(e.op, ast.And):
                return False if any(v is False for v in vs) else (True if all(v is True for v in vs) else None)
            return True if any(v is True for v in vs) else (False if all(v is False for v in vs) else None)
        return None

    def _containers(self, e, at) -> Set[tuple]:
        out = set()
        for n in ast.walk(e):
            if isinstance(n, (ast.Name, ast.Subscript)):
                c = self.comp(n, at)
                if c is not None and c[1] is not None:
                    out.add(c)
        return out

    def facts(self, e: ast.AST, truth: bool, flags, at) -> List[Tuple[str, bool]]:
        """Known (kind, holds) facts when ``e`` evaluates to ``truth``."""
        if isinstance(e, ast.UnaryOp) and isinstance(e.op, ast.Not):
            return self.facts(e.operand, not truth, flags, at)
        if isinstance(e, ast.BoolOp):
            strong = (isinstance(e.op, ast.And) and truth) or (isinstance(e.op, ast.Or) and not truth)
            if strong:
                return [x for v in e.values for x in self.facts(v, truth, flags, at)]
            # "and" known false / "or" known true: only one operand is responsible; drop the
            # operands that are decided by the flags or that only guard emptiness of a container
            # another operand tests against (an empty container fails that test as well)
            rest = []
            for v in e.values:
                cv = self.const_value(v, flags)
                if cv is not None and cv == (isinstance(e.op, ast.And)):
                    continue
                rest.append(v)
            if isinstance(e.op, ast.And):
                tested = [v for v in rest if self.classify(v, at) is not None or isinstance(v, (ast.Compare, ast.Call, ast.BinOp))]
                guards = [v for v in rest if isinstance(v, (ast.Name, ast.Subscript)) and self.comp(v, at) is not None and self.comp(v, at)[1] is not None
                          and any(self.comp(v, at) in self._containers(t, at) for t in tested if t is not v)]
                rest = [v for v in rest if not any(v is g for g in guards)]
            if len(rest) == 1:
                return self.facts(rest[0], truth, flags, at)
            return []
        c = self.classify(e, at)
        if c is None:
            return []
        kind, sign = c
        return [(kind, truth == sign)]

    # -- walk ------------------------------------------------------------------------------
    def run(self, result_canon) -> List[dict]:
        done: List[dict] = []

        def is_keep(s) -> bool:
            if not (isinstance(s, ast.Expr) and isinstance(s.value, ast.Call)):
                return False
            c = s.value
            return (last_attr(c) == "append" and isinstance(c.func, ast.Attribute) and len(c.args) == 1
                    and canon(c.func.value, self.fr, s) == result_canon and self.is_loopvar(c.args[0], s))

        def block(stmts, st) -> List[dict]:
            live = [st]
            for s in stmts:
                nxt: List[dict] = []
                for cur in live:
                    if isinstance(s, ast.If):
                        cv = self.const_value(s.test, cur["flags"])
                        branches = []
                        if cv is not False:
                            branches.append((s.body, True))
                        if cv is not True:
                            branches.append((s.orelse, False))
                        for body, truth in branches:
                            new = {"flags": dict(cur["flags"]), "facts": list(cur["facts"]), "kept": cur["kept"]}
                            if cv is None:
                                new["facts"] += self.facts(s.test, truth, cur["flags"], s)
                            nxt += block(body, new)
                    elif isinstance(s, (ast.Continue,)):
                        done.append(cur)
                    elif isinstance(s, (ast.For, ast.While, ast.Try, ast.With, ast.Return, ast.Break, ast.Raise, ast.Match)):
                        raise AnalysisError(f"R06d: the option loop of prune_options contains a {type(s).__name__} statement; the rule models straight-line code and ifs only")
                    else:
                        if is_keep(s):
                            cur = dict(cur, kept=True)
                        elif isinstance(s, (ast.Assign, ast.AnnAssign, ast.AugAssign)):
                            fl = dict(cur["flags"])
                            for t in _store_targets(s):
                                if isinstance(t, ast.Name):
                                    v = getattr(s, "value", None)
                                    if isinstance(s, (ast.Assign, ast.AnnAssign)) and isinstance(v, ast.Constant) and isinstance(v.value, bool):
                                        fl[t.id] = v.value
                                    else:
                                        fl.pop(t.id, None)
                            cur = dict(cur, flags=fl)
                        nxt.append(cur)
                live = nxt
            return live

        done += block(self.loop.body, {"flags": {}, "facts": [], "kept": False})
        return done


def r06d(chk, repo) -> None:
    chk.rule("R06d", "prune_options drops an option only when its hint is not None and both the raw test and the type test against the first code token failed; "
             "without such a token every option is kept; raw and types of that token come from one segment")
    f = repo.fn(MALG, "prune_options")
    pm = _PruneModel(repo, f)
    fr, cfg = pm.fr, pm.cfg
    params = _params(f)
    # the loop runs over the options parameter
    it = pm.loop.iter
    if isinstance(it, ast.Call) and call_name(it) == "enumerate" and it.args:
        it = it.args[0]
    its = expand(it, fr, pm.loop)
    opt_param = its[0].expr.arg if its and all(isinstance(x.expr, ast.arg) for x in its) and len({x.expr.arg for x in its}) == 1 else None
    chk.require(opt_param is not None and opt_param == params[0], "R06d", pm.loop, "the pruning loop does not run over the options it was given: options outside the loop are dropped without any test",
                detail="loop covers all given options")
    # the returned list
    rets = [r for r in walk_local(f) if isinstance(r, ast.Return)]
    after = [r for r in rets if r.lineno > pm.loop.end_lineno and r.value is not None]
    if not after:
        raise AnalysisError("R06d: prune_options has no return after the option loop")
    result_canon = canon(after[-1].value, fr, after[-1])
    res_leaves = expand(after[-1].value, fr, after[-1])
    chk.require(bool(res_leaves) and all(isinstance(x.expr, ast.List) and not x.expr.elts for x in res_leaves), "R06d", after[-1],
                "the value returned after the loop is not the list the kept options were appended to", detail="result is the kept-options list")
    for r in rets:
        if r in after or r.value is None:
            continue
        v = r.value
        inner = v.args[0] if isinstance(v, ast.Call) and call_name(v) in ("list", "tuple") and len(v.args) == 1 else (v.value if isinstance(v, ast.Subscript) and isinstance(v.slice, ast.Slice) and v.slice.lower is None and v.slice.upper is None and v.slice.step is None else v)
        ls = expand(inner, fr, r) if isinstance(inner, ast.Name) else []
        ok = bool(ls) and all(isinstance(x.expr, ast.arg) and x.expr.arg == params[0] and not x.path for x in ls)
        chk.require(ok, "R06d", r, f"an early return of prune_options ({short(r, 60)}) does not hand back all options: without a first code token nothing can be ruled out "
                    "(alternatives that match non-code or insert metas only would be lost)", detail="early return keeps every option")
    paths = pm.run(result_canon)
    chk.count("R06d.loop_paths", len(paths))
    chk.floor("R06d.loop_paths", 3)
    n_drop = 0
    for p in paths:
        if p["kept"]:
            continue
        n_drop += 1
        facts = set(p["facts"])
        for kind, label, why in (
            ("none", "hint is not None", "an option without a hint (regex, Anything, sequences starting with metas) must always be tried"),
            ("raw", "raw test failed", "an option whose hint contains the raw of the first code token must be tried"),
            ("type", "type test failed", "an option whose hint contains a type of the first code token must be tried"),
        ):
            chk.require((kind, False) in facts, "R06d", pm.loop, f"prune_options can drop an option on a path where it is not established that the {label} "
                        f"(known on that path: {sorted(facts)}): {why}", detail=f"dropped only if {label}")
    chk.require(n_drop >= 1, "R06d", pm.loop, "no path of the loop drops an option (pruning anchor gone)", detail="drop path present")
    chk.require(any(p["kept"] and ("none", True) in p["facts"] for p in paths), "R06d", pm.loop, "no path keeps an option whose hint is None", detail="hint None is kept")
    # the first-token helper takes raw and types from the same segment
    if pm.first_call is not None and isinstance(pm.first_call, ast.Call):
        r = repo.resolve_name(module_of(f), call_name(pm.first_call))
        if r and isinstance(r[1], FuncNode):
            h = r[1]
            hfr = Frame(h)
            n_t = 0
            for ret in walk_local(h):
                if isinstance(ret, ast.Return) and isinstance(ret.value, ast.Tuple) and len(ret.value.elts) == 2:
                    n_t += 1
                    a, b = ret.value.elts

                    def attr_leaf(e):
                        # the attribute read itself, or a local holding exactly one such read
                        ls_ = expand(e, hfr, ret)
                        return ls_[0] if len(ls_) == 1 and isinstance(ls_[0].expr, ast.Attribute) and not ls_[0].path else None

                    la, lb = attr_leaf(a), attr_leaf(b)
                    ok = la is not None and lb is not None and same_value((la.expr.value, la.frame, la.at), (lb.expr.value, lb.frame, lb.at))
                    chk.require(ok, "R06d", ret, f"{h.name} returns raw and types that are not attributes of one and the same segment ({short(ret, 70)}): "
                                "the raw test and the type test would look at different tokens", detail="first token: raw and types of one segment")
            chk.count("R06d.first_token_returns", n_t)
            chk.floor("R06d.first_token_returns", 1)
        else:
            raise AnalysisError("R06d: the helper that yields the first code token is not a function of match_algorithms.py any more")
    else:
        raise AnalysisError("R06d: no raw membership test against the hint found in prune_options (anchor refactored)")


# =====================================================================================
# R06e  candidate order in next_match
# =====================================================================================


def r06e(chk, repo) -> None:
    chk.rule("R06e", "next_match tries the candidate matchers of a position in the order of its matchers argument: the index list collected from the raw map and "
             "from a set of types is sorted (ascending) before the matching loop")
    f = repo.fn(MALG, "next_match")
    fr = Frame(f)
    cfg = fr.cfg
    params = _params(f)
    n_loops = 0
    for loop in (n for n in walk_local(f) if isinstance(n, ast.For)):
        # the loop that runs .match on matchers[<loop var>]
        mcalls = [c for c in calls_in(loop) if last_attr(c) == "match" and isinstance(c.func, ast.Attribute) and len(c.args) >= 2]
        hit = None
        for c in mcalls:
            for lf in expand(c.func.value, fr, cfg.stmt_of(c)):
                e = lf.expr
                if isinstance(e, ast.Subscript) and not lf.path:
                    base = expand(e.value, fr, lf.at)
                    idx = expand(e.slice, fr, lf.at)
                    if base and all(isinstance(b.expr, ast.arg) and b.expr.arg in params for b in base) and idx and all(isinstance(i.expr, _Opaque) and i.expr.stmt is loop for i in idx):
                        hit = c
        if hit is None or any(isinstance(p, ast.For) and p is not loop and _contains(loop, p) and _contains(p, hit) for p in walk_local(loop)):
            continue
        n_loops += 1
        it = loop.iter
        if isinstance(it, ast.Call) and call_name(it) == "sorted" and it.args:
            rev = next((k.value for k in it.keywords if k.arg == "reverse"), None)
            key = next((k.value for k in it.keywords if k.arg == "key"), None)
            chk.require(key is None and (rev is None or (isinstance(rev, ast.Constant) and not rev.value)), "R06e", loop,
                        "candidate matcher indices are not tried in ascending order of the matchers argument", detail="candidates tried in matcher order")
            continue
        # ``xs = sorted(xs)`` before the loop: the loop runs over a sorted copy, provided nothing
        # changes that copy in place on the way to the loop
        it_leaves = expand(it, fr, loop) if isinstance(it, ast.Name) else []
        if it_leaves and all(
            isinstance(lf.expr, ast.Call) and call_name(lf.expr) == "sorted" and lf.expr.args and not lf.path and lf.at is not None
            and not any(k.arg == "key" or (k.arg == "reverse" and not (isinstance(k.value, ast.Constant) and not k.value.value)) or k.arg is None for k in lf.expr.keywords)
            for lf in it_leaves
        ):
            later = []
            for s in walk_local(f):
                changes = (isinstance(s, ast.Expr) and isinstance(s.value, ast.Call) and isinstance(s.value.func, ast.Attribute) and isinstance(s.value.func.value, ast.Name)
                           and s.value.func.value.id == it.id and s.value.func.attr in SEQ_MUTATORS and s.value.func.attr != "sort") \
                    or (isinstance(s, ast.AugAssign) and isinstance(s.target, ast.Name) and s.target.id == it.id) \
                    or (isinstance(s, (ast.Assign, ast.Delete)) and any(isinstance(t, ast.Subscript) and isinstance(t.value, ast.Name) and t.value.id == it.id for t in _store_targets(s)))
                if changes and any(lf.at is not s and cfg.reaches(lf.at, s) and cfg.paths_avoiding(s, loop, lambda n, _lf=lf: n is _lf.at) for lf in it_leaves):
                    later.append(s)
            chk.require(not later, "R06e", loop, "the sorted list of candidate matcher indices is changed in place" + (f" ({short(later[0], 60)})" if later else "") + " before the matching loop",
                        detail="candidates sorted before the matching loop")
            continue
        lst_canon = canon(it, fr, loop)
        sorts, muts = [], []
        for s in walk_local(f):
            if isinstance(s, ast.Expr) and isinstance(s.value, ast.Call) and isinstance(s.value.func, ast.Attribute) and canon(s.value.func.value, fr, s) == lst_canon:
                a = s.value.func.attr
                if a == "sort":
                    rev = next((k.value for k in s.value.keywords if k.arg == "reverse"), None)
                    key = next((k.value for k in s.value.keywords if k.arg == "key"), None)
                    if key is None and (rev is None or (isinstance(rev, ast.Constant) and not rev.value)):
                        sorts.append(s)
                    else:
                        muts.append(s)
                elif a in SEQ_MUTATORS:
                    muts.append(s)
            elif isinstance(s, ast.AugAssign) and canon(s.target, fr, s) == lst_canon:
                muts.append(s)
        chk.count("R06e.candidate_list_mutations", len(muts))
        sort_ids = {id(s) for s in sorts}
        unsorted_path = [m_ for m_ in muts if cfg.paths_avoiding(m_, loop, lambda n: id(n) in sort_ids)]
        chk.require(bool(sorts) and not unsorted_path, "R06e", loop,
                    "the list of candidate matcher indices reaches the matching loop unsorted"
                    + (f" (after {short(unsorted_path[0], 60)})" if unsorted_path else "") +
                    ": type hits come from iterating a set, whose order depends on the string hash seed of the process, and raw hits are listed before type hits, so which of "
                    "several matching matchers wins would differ between runs and from the documented 'first in the iterable' priority", detail="candidates sorted before the matching loop")
    chk.count("R06e.matching_loops", n_loops)
    chk.floor("R06e.matching_loops", 1)


def _contains(outer: ast.AST, inner: ast.AST) -> bool:
    p = inner
    while p is not None:
        if p is outer:
            return True
        p = getattr(p, "_parent", None)
    return False


# =====================================================================================
# R06f  cache_key discipline
# =====================================================================================


def _self_fields_read(repo, m, c: ast.ClassDef, meth_name: str, _seen=None) -> Set[str]:
    """Attributes of self/cls read by ``meth_name`` of class ``c`` (following self.<method>() calls)."""
    _seen = _seen if _seen is not None else set()
    r = repo.lookup_method(m, c, meth_name)
    if not r or id(r[1]) in _seen:
        return set()
    _seen.add(id(r[1]))
    f = r[1]
    me = (_params(f) or ["self"])[0]
    out: Set[str] = set()
    for n in walk_local(f):
        if isinstance(n, ast.Attribute) and isinstance(n.value, ast.Name) and n.value.id == me and isinstance(n.ctx, ast.Load):
            par = getattr(n, "_parent", None)
            if isinstance(par, ast.Call) and par.func is n:
                out |= _self_fields_read(repo, m, c, n.attr, _seen)
            elif not repo.lookup_method(m, c, n.attr):
                out.add(n.attr)
    return out


def r06f(chk, repo) -> None:
    chk.rule("R06f", "cache_key() of every matcher class returns a slot that is assigned only at construction from a fresh-unique source (uuid4 / get_next_id), "
             "or an expression that covers every field the class' match reads")
    slot_stores: Dict[str, List[Tuple[object, ast.AST, ast.AST]]] = {}
    for m in repo.iter_modules(PARSER_DIR):
        for q, f in m.functions():
            for s in walk_local(f):
                for t in _store_targets(s):
                    v = getattr(s, "value", None)
                    if isinstance(t, ast.Attribute) and isinstance(t.value, ast.Name) and t.value.id in ("self", "cls"):
                        slot_stores.setdefault(t.attr, []).append((m, f, s))
                    elif isinstance(t, ast.Subscript) and isinstance(t.slice, ast.Constant) and isinstance(t.slice.value, str) and isinstance(t.value, ast.Name) and "dict" in t.value.id:
                        slot_stores.setdefault(t.slice.value, []).append((m, f, s))
    for m in repo.iter_modules(PARSER_DIR):
        for q, c in m.classes():
            meth = next((x for x in _methods(c) if x.name == "cache_key"), None)
            if meth is None:
                continue
            if any(isinstance(s, ast.Raise) for s in meth.body) or any("abstractmethod" in d for d in _decorators(meth)):
                continue  # abstract declaration (Matchable)
            chk.count("R06f.cache_key_methods")
            me = (_params(meth) or ["self"])[0]
            rets = [r for r in walk_local(meth) if isinstance(r, ast.Return) and r.value is not None]
            for r in rets:
                v = r.value
                if isinstance(v, ast.Attribute) and isinstance(v.value, ast.Name) and v.value.id == me:
                    stores = slot_stores.get(v.attr, [])
                    chk.require(bool(stores), "R06f", r, f"{c.name}.cache_key returns self.{v.attr}, which is never assigned in core/parser", detail=f"{c.name}: key slot assigned")
                    for sm, sf, s in stores:
                        val = getattr(s, "value", None)
                        fresh = val is not None and any(isinstance(x, ast.Call) and call_name(x).split(".")[-1] in FRESH_ID_CALLS for x in cone(cfg_of(sf), val, s))
                        ctor = sf.name in ("__init__", "__new__")
                        chk.require(fresh and ctor, "R06f", s, f"the matcher key slot {v.attr} is assigned {short(s, 70)} in {qualname(sf)}: a key that is not a fresh unique value bound at "
                                    "construction can coincide for two matchers with different behaviour, and the parse cache then replays one matcher's result for the other",
                                    detail=f"{v.attr} slot fresh-unique at construction in {qualname(sf)}")
                else:
                    # value key: must cover what match reads (this class and subclasses that inherit the key)
                    covered = {a.attr for a in ast.walk(v) if isinstance(a, ast.Attribute) and isinstance(a.value, ast.Name) and a.value.id == me}
                    fam = [(m, c)] + [(sm, sc) for sm, sc in repo.subclasses_of(c.name) if sc is not c and repo.lookup_method(sm, sc, "cache_key")[1] is meth]
                    for fm, fc in fam:
                        need = _self_fields_read(repo, fm, fc, "match")
                        chk.require(need <= covered, "R06f", r, f"{fc.name}.match reads {sorted(need - covered)} but {c.name}.cache_key ({short(v, 50)}) does not depend on them: "
                                    "two instances that match differently share one parse-cache entry", detail=f"{fc.name}: value key covers the fields match reads")
    chk.floor("R06f.cache_key_methods", 4)


# =====================================================================================
# RS-state  process-lifetime mutable state around matching
# =====================================================================================

# (module, owning class or "", name) -> why it cannot make a parse depend on history.  One symbol per entry.
REVIEWED_STATE = {
    (LEXER, "BlockTracker", "_stack"): "LIFO of template block ids of the lex call in progress; enter/exit are paired per file; only the top is read",
    (LEXER, "BlockTracker", "_map"): "source slice -> opaque block uuid; only ever compared for identity inside one file's segments, never read by matching",
    (RUST, "", "_PARSE_PROFILE"): "opt-in timing output of the Rust parser path, write-only for parsing",
    (IDENT, "", "_counter"): "monotonic id source; ids are opaque identity keys (segment uuid, segment-class cache key), never ordered or parsed",
}
REVIEWED_GLOBALS = {
    (RUST, "_PROFILE_ENABLED"): "profiling switch of the Rust parser path; does not change what is parsed",
    (RUST, "_NATIVE_AST_ENABLED"): "selects the Rust AST builder, explicit opt-in API; absent from the Python parser",
}
MUTABLE_CTORS = ("list", "dict", "set", "defaultdict", "OrderedDict", "Counter", "deque", "count", "WeakValueDictionary", "WeakKeyDictionary", "bytearray")
# modules whose objects are the matchers themselves (grammar objects live as long as the dialect)
MATCHER_MODULES = (MALG, PARSERS, PARSER_DIR + "matchable.py", PARSER_DIR + "grammar/")
SEGMENT_MATCH_METHODS = ("match", "simple", "cache_key", "is_optional", "class_is_type")
FRESH_OBJECT_CALLS = ("copy.copy", "copy.deepcopy", "copy", "deepcopy", "object.__new__", "super().__new__", "type.__new__")


def _mutable_value(v) -> bool:
    if isinstance(v, (ast.List, ast.Dict, ast.Set, ast.ListComp, ast.DictComp, ast.SetComp)):
        return True
    return isinstance(v, ast.Call) and call_name(v).split(".")[-1] in MUTABLE_CTORS


def _scope_modules(repo):
    for m in repo.iter_modules(PARSER_DIR):
        yield m
    yield repo.mod(IDENT)


def _inventory(repo):
    """(module, class name or '', name, node) of module-/class-level containers; global statements."""
    conts, globs = [], []
    for m in _scope_modules(repo):
        def scan(body, owner):
            for s in body:
                if isinstance(s, (ast.Assign, ast.AnnAssign)) and getattr(s, "value", None) is not None and _mutable_value(s.value):
                    for t in _store_targets(s):
                        if isinstance(t, ast.Name) and not (t.id.startswith("__") and t.id.endswith("__")):
                            conts.append((m, owner, t.id, s))
                elif isinstance(s, ast.ClassDef):
                    scan(s.body, s.name)
                elif isinstance(s, (ast.If, ast.Try)):
                    scan(s.body, owner)
                    scan(getattr(s, "orelse", []), owner)
        scan(m.tree.body, "")
        for n in ast.walk(m.tree):
            if isinstance(n, ast.Global):
                for nm in n.names:
                    globs.append((m, nm, n))
    return conts, globs


def _mutation_sites(repo, m, owner: str, name: str) -> List[ast.AST]:
    """Statements / calls that change the container in place (or rebind it through ``global``)."""
    out: List[ast.AST] = []
    MUT = DICT_MUTATORS + SEQ_MUTATORS

    def refers(e) -> bool:
        if owner:
            return isinstance(e, ast.Attribute) and e.attr == name and isinstance(e.value, ast.Name) and (e.value.id in ("self", "cls") or e.value.id == owner)
        return isinstance(e, ast.Name) and e.id == name

    mods = [m]
    if not owner:
        mods += [x for x in repo.modules.values() if x is not m and x.imports.get(name, "").endswith(f"{m.dotted}.{name}")]
    else:
        mods = [x for x in repo.iter_modules(PARSER_DIR)]
    for mm in mods:
        if name not in mm.text:
            continue
        for n in ast.walk(mm.tree):
            if owner and mm is not m and enclosing_class(n) is None:
                continue
            if owner:
                c = enclosing_class(n)
                if c is not None and c.name != owner and not any(cc.name == owner for _, cc in repo.mro(mm, c)) and not (isinstance(n, ast.Attribute) and isinstance(n.value, ast.Name) and n.value.id == owner):
                    continue
            if isinstance(n, ast.Call):
                if isinstance(n.func, ast.Attribute) and n.func.attr in MUT and refers(n.func.value):
                    out.append(n)
                elif call_name(n) == "next" and n.args and refers(n.args[0]):
                    out.append(n)
            elif isinstance(n, (ast.Assign, ast.AugAssign, ast.Delete, ast.AnnAssign)):
                for t in _store_targets(n):
                    if isinstance(t, ast.Subscript) and refers(t.value):
                        out.append(n)
                    elif isinstance(n, ast.AugAssign) and refers(t):
                        out.append(n)
                    elif not owner and isinstance(t, ast.Name) and t.id == name and enclosing_function(n) is not None:
                        f = enclosing_function(n)
                        if any(isinstance(g, ast.Global) and name in g.names for g in walk_local(f)):
                            out.append(n)
    if owner:
        # an instance attribute of the same name assigned in a method shadows the class-level container
        c = m.defs.get(owner)
        if isinstance(c, ast.ClassDef):
            for f in _methods(c):
                for s in walk_local(f):
                    if any(isinstance(t, ast.Attribute) and t.attr == name and isinstance(t.value, ast.Name) and t.value.id == "self" for t in _store_targets(s) if isinstance(s, (ast.Assign, ast.AnnAssign))):
                        return []
    return out


def rs_state(chk, repo, hint_wrapper: Optional[ast.AST]) -> None:
    chk.rule("RS-state", "module-/class-level containers and global statements of core/parser (+ helpers/identity) are constant tables or reviewed entries; matcher objects "
             "(grammars, parsers, segment classes in their match/simple/cache_key methods) are written only at construction; no memoiser on functions of the matching modules")
    conts, globs = _inventory(repo)
    seen_keys = set()
    for m, owner, name, node in conts:
        chk.count("RS-state.containers")
        key = (m.relpath, owner, name)
        seen_keys.add(key)
        sites = _mutation_sites(repo, m, owner, name)
        label = f"{owner + '.' if owner else ''}{name}"
        if not sites:
            chk.count("RS-state.constant_tables")
            chk.ok("RS-state", f"{m.relpath}::{label}", "constant table")
            continue
        chk.count("RS-state.mutated_containers")
        if key in REVIEWED_STATE:
            chk.ok("RS-state", f"{m.relpath}::{label}", "reviewed mutable: " + REVIEWED_STATE[key])
            chk.sample({"rule": "RS-state", "container": f"{m.relpath}::{label}", "mutation_sites": len(sites), "reviewed": REVIEWED_STATE[key]})
            continue
        s0 = sites[0]
        chk.fail("RS-state", node, f"{label} in {m.relpath} is a process-lifetime container that is mutated ({len(sites)} site(s), e.g. {short(enclosing_stmt(s0), 70)} in "
                 f"{qualname(enclosing_function(s0)) if enclosing_function(s0) is not None else '<module>'}) and is not in the reviewed table: what it holds survives from one parse to the next",
                 detail=f"shared mutable container {label}", construct=f"{m.relpath}::{label}")
    for key in REVIEWED_STATE:
        if key not in seen_keys:
            chk.note(f"RS-state: reviewed entry {key} no longer exists (stale table entry).")
    for m, name, node in globs:
        chk.count("RS-state.global_statements")
        f = enclosing_function(node)
        chk.require((m.relpath, name) in REVIEWED_GLOBALS, "RS-state", node, f"`global {name}` in {m.relpath}::{qualname(f) if f is not None else '?'} rebinds module state at run time and is not "
                    "in the reviewed table", detail=f"global {name}", construct=f"{m.relpath}::{name}")
    chk.floor("RS-state.containers", 6)

    # ---- matcher objects are written only at construction ----------------------------------
    def in_matcher_modules(rel: str) -> bool:
        return any(rel == x or (x.endswith("/") and rel.startswith(x)) for x in MATCHER_MODULES)

    for m in repo.iter_modules(PARSER_DIR):
        seg_mod = m.relpath.startswith(PARSER_DIR + "segments/")
        if not (in_matcher_modules(m.relpath) or seg_mod):
            continue
        for q, f in m.functions():
            if seg_mod and f.name not in SEGMENT_MATCH_METHODS:
                continue
            chk.count("RS-state.matcher_functions")
            memo = _is_memoised(f)
            chk.require(memo is None, "RS-state", f, f"{q} in {m.relpath} is memoised with {memo}: the memo lives as long as the grammar object / the process, i.e. across parses and dialects",
                        detail=f"memoiser on {q}")
            if f is hint_wrapper:
                continue  # the per-context hint slot, decided by R06b
            fr = Frame(f)
            first = (_params(f) or [None])[0]
            ctor = f.name in ("__init__", "__new__", "__post_init__", "__init_subclass__")
            for s in walk_local(f):
                writes = []
                if isinstance(s, (ast.Assign, ast.AnnAssign, ast.AugAssign, ast.Delete)):
                    writes = [t for t in _store_targets(s) if isinstance(t, (ast.Attribute, ast.Subscript))]
                elif isinstance(s, ast.Expr) and isinstance(s.value, ast.Call) and isinstance(s.value.func, ast.Attribute) and s.value.func.attr in DICT_MUTATORS + SEQ_MUTATORS:
                    writes = [s.value.func.value] if isinstance(s.value.func.value, (ast.Attribute, ast.Subscript)) else []
                elif isinstance(s, ast.Expr) and isinstance(s.value, ast.Call) and call_name(s.value) in ("setattr", "object.__setattr__") and s.value.args:
                    writes = [ast.Attribute(value=s.value.args[0], attr="?", ctx=ast.Store())]
                for t in writes:
                    root = t
                    has_attr = False
                    while isinstance(root, (ast.Attribute, ast.Subscript)):
                        has_attr = has_attr or isinstance(root, ast.Attribute)
                        root = root.value
                    if not has_attr or not isinstance(root, ast.Name):
                        continue
                    chk.count("RS-state.object_writes")
                    if ctor and root.id == first:
                        chk.ok("RS-state", f"{m.relpath}::{q}", f"construction: {short(t, 40)}")
                        continue
                    ls = expand(root, fr, s)
                    fresh = bool(ls) and all(isinstance(x.expr, ast.Call) and (call_name(x.expr) in FRESH_OBJECT_CALLS or _resolves_to_class(repo, x.expr)) for x in ls)
                    chk.require(fresh, "RS-state", s, f"{q} writes {short(t, 50)} on an object it did not create: grammars, parsers and segment classes are shared by every parse "
                                "(and every dialect that inherits them), so state written while matching or computing a hint leaks into later parses",
                                detail=f"{q}: write to {short(t, 50)}")
    chk.floor("RS-state.matcher_functions", 40)
    chk.floor("RS-state.object_writes", 20)


def _resolves_to_class(repo, call: ast.Call) -> bool:
    n = call_name(call)
    if not n or "." in n or n in ("cls",):
        return n == "cls"
    r = repo.resolve_name(module_of(call), n)
    return bool(r) and isinstance(r[1], ast.ClassDef)


# =====================================================================================
# entry point
# =====================================================================================


def run(chk) -> None:
    repo = chk.repo
    chk.rule("R06a", "the parse cache is a fresh dict per ParseContext, touched only by its look-up/store methods; its key contains, as whole components, the position and a "
             "discriminator of segments[idx], len(segments) and <matcher>.cache_key() of the match whose result is stored; a ParseContext is constructed per parse and never "
             "stored in an attribute, global or memoised function")
    api = CacheApi(repo)
    r06a_cache_attr(chk, repo, api)
    r06a_call_sites(chk, repo, api)
    ct = r06a_construction(chk, repo, api)
    wrapper = r06b(chk, repo, api, ct)
    r06d(chk, repo)
    r06e(chk, repo)
    r06f(chk, repo)
    rs_state(chk, repo, wrapper)
    in_selftest = getattr(chk, "in_selftest", False)
    g = load_grammar(repo, cache=not in_selftest, rebuild=(chk.tier == "thorough" and not in_selftest))
    chk.note(f"grammar front-end: {len(g)} dialects, {g.n_nodes} nodes ({'cache' if g.from_cache else 'rebuilt'}); hints are the values of the declared simple() methods, "
             "FIRST/EPS are computed here from the serialised graph.")
    r06c(chk, repo, g)
    r06g(chk, repo, g)
    chk.assumptions = [
        "CPython ast gives the program's syntax faithfully; the FIRST/EPS model of sa/grammar_first.py mirrors what match() of each matcher kind does on a stream of raw lexer tokens",
        "the reviewed tables REVIEWED_STATE / REVIEWED_GLOBALS in sa/rules/c06.py were read by hand",
        "the grammar graph and the hint values come from importing the dialect modules of the analysed tree in a sub-process (no SQL is lexed or parsed)",
    ]


# =====================================================================================
# self-test variants
# =====================================================================================

from ..selftest import Variant  # noqa: E402

ANSI = "src/sqlfluff/dialects/dialect_ansi.py"
PARSER_PY = PARSER_DIR + "parser.py"

VARIANTS = [
    Variant(
        "use-statement-made-greedy", ANSI,
        '    match_grammar: Matchable = Sequence(\n        "USE",\n        Ref("DatabaseReferenceSegment"),\n    )\n',
        '    match_grammar: Matchable = Sequence(\n        "USE",\n        Ref("DatabaseReferenceSegment"),\n        parse_mode=ParseMode.GREEDY,\n    )\n',
        "R06g", None, "seeded C06-8 family: a statement alternative that claims everything when unstarted",
    ),
    # R06g sweep: dialect edits that do NOT make a plain GREEDY Sequence a prunable option: must stay quiet
    Variant(
        'quiet-use-statement-greedy-once-started', ANSI,
        '    match_grammar: Matchable = Sequence(\n        "USE",\n        Ref("DatabaseReferenceSegment"),\n    )\n',
        '    match_grammar: Matchable = Sequence(\n        "USE",\n        Ref("DatabaseReferenceSegment"),\n        parse_mode=ParseMode.GREEDY_ONCE_STARTED,\n    )\n',
        'QUIET', None, 'R06g: GREEDY_ONCE_STARTED claims nothing before its first element matched',
    ),
    Variant(
        'quiet-use-statement-greedy-tail-as-a-mandatory-element', ANSI,
        '    match_grammar: Matchable = Sequence(\n        "USE",\n        Ref("DatabaseReferenceSegment"),\n    )\n',
        '    match_grammar: Matchable = Sequence(\n        "USE",\n        Sequence(\n            Ref("DatabaseReferenceSegment"),\n            parse_mode=ParseMode.GREEDY,\n        ),\n    )\n',
        'QUIET', None, 'R06g: a GREEDY Sequence as a mandatory element after a keyword is not an option anything prunes',
    ),
    Variant(
        'quiet-bracketed-option-made-greedy', ANSI,
        '        Bracketed(Ref("MergeStatementSegment")),\n    )\n',
        '        Bracketed(Ref("MergeStatementSegment"), parse_mode=ParseMode.GREEDY),\n    )\n',
        'QUIET', None, 'R06g: a Bracketed option is started by its bracket whatever its parse mode',
    ),
    Variant(
        'quiet-unreferenced-segment-with-a-greedy-sequence', ANSI,
        'class ExplainStatementSegment(BaseSegment):\n    """An `Explain` statement.\n',
        'class UnusedGreedyProbeSegment(BaseSegment):\n    """Not referenced by any grammar."""\n\n    type = "unused_greedy_probe"\n    match_grammar: Matchable = OneOf(\n        Sequence("USE", Ref("DatabaseReferenceSegment"), parse_mode=ParseMode.GREEDY),\n        Ref("NakedIdentifierSegment"),\n    )\n\n\nclass ExplainStatementSegment(BaseSegment):\n    """An `Explain` statement.\n',
        'QUIET', None, 'R06g: a segment nothing reaches from the root',
    ),
    Variant(
        'quiet-explainable-statements-in-a-one-option-wrapper', ANSI,
        '    match_grammar: Matchable = Sequence(\n        "EXPLAIN",\n        explainable_stmt,\n    )\n',
        '    match_grammar: Matchable = Sequence(\n        "EXPLAIN",\n        OneOf(Sequence(explainable_stmt)),\n    )\n',
        'QUIET', None, 'R06g: an option wrapped in a one-element STRICT Sequence inside a one-option OneOf',
    ),
    # breaking twins
    Variant(
        'use-statement-greedy-behind-a-one-option-wrapper', ANSI,
        '    match_grammar: Matchable = Sequence(\n        "USE",\n        Ref("DatabaseReferenceSegment"),\n    )\n',
        '    match_grammar: Matchable = OneOf(\n        Sequence(\n            "USE",\n            Ref("DatabaseReferenceSegment"),\n            parse_mode=ParseMode.GREEDY,\n        ),\n    )\n',
        'R06g', None, 'the GREEDY Sequence is the only option of a OneOf that is itself a statement option',
    ),
    Variant(
        'explainable-statement-option-made-greedy', ANSI,
        '        explainable_stmt,\n    )\n',
        '        OneOf(Sequence(explainable_stmt, parse_mode=ParseMode.GREEDY), Ref("MergeStatementSegment")),\n    )\n',
        'R06g', None, 'a GREEDY Sequence written in place as an option',
    ),
    # behaviour-preserving refactors: must stay quiet
    Variant(
        "quiet-key-length-inline-and-reordered", MALG,
        "        segments[idx].raw,\n        _cache_position.working_loc,\n        segments[idx].get_type(),\n        # The reason that the max_idx is part of the cache key is to\n        # account for scenarios where the end of the segment sequence\n        # has been trimmed and we don't want to assume we can match\n        # things which have now been trimmed off.\n        max_idx,\n    )\n",
        "        len(segments),\n        segments[idx].get_type(),\n        segments[idx].raw,\n        _cache_position.working_loc,\n    )\n",
        "QUIET", None, "components reordered (same at look-up and store), the length spelled len(segments)",
    ),
    Variant(
        "quiet-cache-calls-by-keyword", MALG,
        "        res_match: Optional[MatchResult] = parse_context.check_parse_cache(\n            loc_key, matcher_key\n        )\n",
        "        res_match: Optional[MatchResult] = parse_context.check_parse_cache(\n            loc_key=loc_key, matcher_key=matcher_key\n        )\n",
        "QUIET", None, "key and value passed by keyword",
    ),
    Variant(
        "quiet-fresh-match-through-local", MALG,
        "            res_match = matcher.match(segments, idx, parse_context)\n            # Cache it for later to for performance.\n            parse_context.put_parse_cache(loc_key, matcher_key, res_match)\n",
        "            fresh_match = matcher.match(segments, idx, parse_context)\n            parse_context.put_parse_cache(\n                loc_key=loc_key, matcher_key=matcher_key, match=fresh_match\n            )\n            res_match = fresh_match\n",
        "QUIET", None, "the fresh match through a local of its own, stored by keyword",
    ),
    Variant(
        "quiet-store-key-in-a-local", CTX,
        "        self._parse_cache[(loc_key, matcher_key)] = match\n",
        "        cache_slot = (loc_key, matcher_key)\n        self._parse_cache[cache_slot] = match\n",
        "QUIET", None, "store key built in a local",
    ),
    Variant(
        "quiet-lookup-by-subscript", CTX,
        "        return self._parse_cache.get((loc_key, matcher_key))\n",
        "        try:\n            return self._parse_cache[(loc_key, matcher_key)]\n        except KeyError:\n            return None\n",
        "QUIET", None, ".get spelled as subscript with except KeyError",
    ),
    Variant(
        "quiet-hint-cache-unpacked-and-mirrored", GBASE,
        "            cache_tuple: tuple[UUID, SimpleHintType] = self.__dict__[cache_key]\n            # Is the value for the current context?\n            if cache_tuple[0] == parse_context.uuid:\n                # If so return it.\n                return cache_tuple[1]\n",
        "            stored_uuid, stored_hint = self.__dict__[cache_key]\n            # Is the value for the current context?\n            if parse_context.uuid == stored_uuid:\n                # If so return it.\n                return stored_hint\n",
        "QUIET", None, "stored pair unpacked, comparison mirrored",
    ),
    Variant(
        "quiet-hint-cache-get-instead-of-try", GBASE,
        "        try:\n            cache_tuple: tuple[UUID, SimpleHintType] = self.__dict__[cache_key]\n            # Is the value for the current context?\n            if cache_tuple[0] == parse_context.uuid:\n                # If so return it.\n                return cache_tuple[1]\n        except KeyError:\n            # Failed to find an item in the cache.\n            pass\n",
        "        cache_tuple = self.__dict__.get(cache_key)\n        if cache_tuple is not None and cache_tuple[0] == parse_context.uuid:\n            return cache_tuple[1]\n",
        "QUIET", None, "try/except KeyError spelled as .get and a None test",
    ),
    Variant(
        "quiet-hint-store-through-locals", GBASE,
        "        self.__dict__[cache_key] = (parse_context.uuid, result)\n",
        "        context_uuid = parse_context.uuid\n        entry = (context_uuid, result)\n        self.__dict__[cache_key] = entry\n",
        "QUIET", None, "stored pair built through locals",
    ),
    Variant(
        "quiet-prune-pairs-indexed", MALG,
        "    if not first:\n        return list(options)\n    first_raw, first_types = first\n",
        "    if first is None:\n        return list(options)\n    first_raw = first[0]\n    first_types = first[1]\n",
        "QUIET", None, "None test spelled out, pair indexed instead of unpacked",
    ),
    Variant(
        "quiet-prune-hint-indexed-and-set-operator", MALG,
        "        simple_raws, simple_types = simple\n        matched = False\n",
        "        simple_raws = simple[0]\n        simple_types = simple[1]\n        matched = False\n",
        "QUIET", None, "hint pair indexed instead of unpacked",
    ),
    Variant(
        "quiet-first-token-pair-through-locals", MALG,
        "            return (\n                _segment.first_non_whitespace_segment_raw_upper,\n                _segment.class_types,\n            )\n",
        "            first_raw = _segment.first_non_whitespace_segment_raw_upper\n            first_types = _segment.class_types\n            return first_raw, first_types\n",
        "QUIET", None, "raw and types through locals",
    ),
    Variant(
        "quiet-next-match-sorted-rebinding", MALG,
        "        _matcher_idxs.sort()\n        for _matcher_idx in _matcher_idxs:\n",
        "        _matcher_idxs = sorted(_matcher_idxs)\n        for _matcher_idx in _matcher_idxs:\n",
        "QUIET", None, "in-place sort spelled as x = sorted(x)",
    ),
    Variant(
        "quiet-parser-key-through-local", PARSERS,
        "        self._cache_key = uuid4().hex\n",
        "        fresh_id = uuid4()\n        self._cache_key = fresh_id.hex\n",
        "QUIET", None, "fresh id through a local",
    ),
    Variant(
        "quiet-dialect-one-element-oneof", ANSI,
        "            OneOf(Ref(\"NumericLiteralSegment\"), Ref(\"ExpressionSegment\")),\n            delimiter=Ref(\"SliceSegment\"),",
        "            OneOf(OneOf(Ref(\"NumericLiteralSegment\")), Ref(\"ExpressionSegment\")),\n            delimiter=Ref(\"SliceSegment\"),",
        "QUIET", None, "a one-element OneOf around an alternative",
    ),
    Variant(
        "quiet-dialect-unreferenced-grammar-added", ANSI,
        "ansi_dialect.add(\n    # This is a hook point to allow subclassing for other dialects\n    PostTableExpressionGrammar=Nothing()\n)\n",
        "ansi_dialect.add(\n    # This is a hook point to allow subclassing for other dialects\n    PostTableExpressionGrammar=Nothing(),\n    UnusedProbeGrammar=Sequence(\n        Ref(\"NumericLiteralSegment\", optional=True), Ref(\"CommaSegment\")\n    ),\n)\n",
        "QUIET", None, "a grammar nobody references is added to the dialect",
    ),
    # breaking twins in the spellings the QUIET sweep taught the rules to read
    Variant(
        "first-token-pair-through-locals-of-two-segments", MALG,
        "            return (\n                _segment.first_non_whitespace_segment_raw_upper,\n                _segment.class_types,\n            )\n",
        "            first_raw = _segment.first_non_whitespace_segment_raw_upper\n            first_types = segments[start_idx].class_types\n            return first_raw, first_types\n",
        "R06d", "first token", "raw of one segment, types of another, through locals",
    ),
    Variant(
        "next-match-sorted-rebinding-then-extended", MALG,
        "        _matcher_idxs.sort()\n        for _matcher_idx in _matcher_idxs:\n",
        "        _matcher_idxs = sorted(_matcher_idxs)\n        _matcher_idxs.extend(type_simple_map.get(seg.get_type(), []))\n        for _matcher_idx in _matcher_idxs:\n",
        "R06e", "next_match", "sorted copy, then more candidates appended unsorted",
    ),
    Variant(
        "next-match-sorted-rebinding-descending", MALG,
        "        _matcher_idxs.sort()\n        for _matcher_idx in _matcher_idxs:\n",
        "        _matcher_idxs = sorted(_matcher_idxs, reverse=True)\n        for _matcher_idx in _matcher_idxs:\n",
        "R06e", "next_match", "last matcher of the argument wins",
    ),
    Variant(
        "cache-key-by-keyword-drops-length", MALG,
        "        res_match: Optional[MatchResult] = parse_context.check_parse_cache(\n            loc_key, matcher_key\n        )\n",
        "        res_match: Optional[MatchResult] = parse_context.check_parse_cache(\n            loc_key=loc_key[:3], matcher_key=matcher_key\n        )\n",
        "R06a", "check key: visible length", "keyword spelling, look-up key without the visible length",
    ),
    # ---- behaviour-preserving edits: the check must stay quiet ---------------------------------
    Variant(
        "quiet-token-through-a-local", MALG,
        "    loc_key = (\n        segments[idx].raw,\n",
        "    _tok = segments[idx]\n    loc_key = (\n        _tok.raw,\n",
        "QUIET", None, "the keyed token is held in a local first",
    ),
    Variant(
        "quiet-matcher-through-a-local", MALG,
        "        matcher_key = matcher.cache_key()\n",
        "        _m = matcher\n        matcher_key = _m.cache_key()\n",
        "QUIET", None, "matcher passed through a second local",
    ),
    Variant(
        "quiet-lookup-key-in-a-local", CTX,
        "        return self._parse_cache.get((loc_key, matcher_key))\n",
        "        key = (loc_key, matcher_key)\n        return self._parse_cache.get(key)\n",
        "QUIET", None, "look-up key built in a local",
    ),
    Variant(
        "quiet-hint-cache-early-raise", GBASE,
        "            if cache_tuple[0] == parse_context.uuid:\n                # If so return it.\n                return cache_tuple[1]\n",
        "            if cache_tuple[0] != parse_context.uuid:\n                raise KeyError(cache_key)\n            return cache_tuple[1]\n",
        "QUIET", None, "uuid test inverted into an early raise inside the same try/except KeyError",
    ),
    Variant(
        "quiet-prune-single-condition", MALG,
        "        matched = False\n\n        # We want to know if the first meaningful element of the str_buff\n        # matches the option, based on either simple _raw_ matching or\n        # simple _type_ matching.\n\n"
        "        # Match Raws\n        if simple_raws and first_raw in simple_raws:\n            # If we get here, it's matched the FIRST element of the string buffer.\n            available_options.append(opt)\n            matched = True\n\n"
        "        # Match Types\n        if simple_types and not matched and first_types.intersection(simple_types):\n            # If we get here, it's matched the FIRST element of the string buffer.\n            available_options.append(opt)\n            matched = True\n\n"
        "        if not matched:\n            # Ditch this option, the simple match has failed\n            prune_buff.append(opt)\n            continue\n",
        "        if first_raw in simple_raws or first_types.intersection(simple_types):\n            available_options.append(opt)\n        else:\n            prune_buff.append(opt)\n",
        "QUIET", None, "flag variable replaced by one or-condition",
    ),
    Variant(
        "quiet-next-match-sorted-iteration", MALG,
        "        _matcher_idxs.sort()\n        for _matcher_idx in _matcher_idxs:\n",
        "        for _matcher_idx in sorted(_matcher_idxs):\n",
        "QUIET", None, "in-place sort replaced by sorted() in the loop header",
    ),
    Variant(
        "quiet-sequence-hint-break-instead-of-return", SEQ,
        "            if not opt.is_optional():\n                # We found our first non-optional element!\n                return frozenset(simple_raws), frozenset(simple_types)\n",
        "            if not opt.is_optional():\n                break\n",
        "QUIET", None, "Sequence.simple leaves the loop and uses the common return",
    ),
    Variant(
        "quiet-dialect-wraps-element-in-sequence", ANSI,
        "            OneOf(Ref(\"NumericLiteralSegment\"), Ref(\"ExpressionSegment\")),\n            delimiter=Ref(\"SliceSegment\"),",
        "            OneOf(Sequence(Ref(\"NumericLiteralSegment\")), Ref(\"ExpressionSegment\")),\n            delimiter=Ref(\"SliceSegment\"),",
        "QUIET", None, "a one-element Sequence around an alternative",
    ),
    # ---- breaking edits ------------------------------------------------------------------------
    Variant(
        "cache-key-drops-length", MALG,
        "        max_idx,\n    )\n", "    )\n",
        "R06a", "visible length", "matches made before the tail was trimmed are replayed afterwards",
    ),
    Variant(
        "cache-key-drops-position", MALG,
        "        _cache_position.working_loc,\n", "",
        "R06a", "token position", "same raw/type/length at another place hits the entry",
    ),
    Variant(
        "cache-key-matcher-by-class-name", MALG,
        "        matcher_key = matcher.cache_key()\n", "        matcher_key = type(matcher).__name__\n",
        "R06a", "matcher key", "all Sequences share one entry per position",
    ),
    Variant(
        "cache-kept-on-the-dialect", CTX,
        "        self._parse_cache: dict[tuple[Any, ...], \"MatchResult\"] = {}\n",
        "        self._parse_cache: dict[tuple[Any, ...], \"MatchResult\"] = dialect.__dict__.setdefault(\n            \"_parse_cache\", {}\n        )\n",
        "R06a", "_parse_cache bound", "match cache shared by every file parsed with the dialect",
    ),
    Variant(
        "parser-keeps-one-context", PARSER_PY,
        "        ctx = ParseContext.from_config(config=self.config)\n",
        "        if not hasattr(self, \"_ctx\"):\n            self._ctx = ParseContext.from_config(config=self.config)\n        ctx = self._ctx\n",
        "R06a", "Parser.parse", "a Parser reused for several files replays cached matches",
    ),
    Variant(
        "hint-cache-ignores-uuid", GBASE,
        "            if cache_tuple[0] == parse_context.uuid:\n                # If so return it.\n                return cache_tuple[1]\n",
        "            return cache_tuple[1]\n",
        "R06b", "uuid equality", "hints of the dialect parsed first are used for every later dialect",
    ),
    Variant(
        "context-uuid-per-dialect-name", CTX,
        "        self.uuid = uuid.uuid4()\n", "        self.uuid = uuid.uuid5(uuid.NAMESPACE_OID, dialect.name)\n",
        "R06b", "uuid bound", "contexts of differently configured dialect objects with one name share hints",
    ),
    Variant(
        "sequence-hint-stops-at-first-element", SEQ,
        "            if not opt.is_optional():\n", "            if True:\n",
        "R06c", None, "Sequence.simple ignores that a leading optional element can be skipped",
    ),
    Variant(
        "sequence-hint-skips-metas", SEQ,
        "        for opt in self._elements:\n            simple = opt.simple(parse_context=parse_context, crumbs=crumbs)\n",
        "        for opt in self._elements:\n            if getattr(opt, \"is_meta\", False):\n                continue\n            simple = opt.simple(parse_context=parse_context, crumbs=crumbs)\n",
        "R06c", "EPS", "sequences that can match with metas only get a hint and are pruned",
    ),
    Variant(
        "dialect-uses-start-bracket-override", ANSI,
        "        bracket_type=\"square\",\n        parse_mode=ParseMode.GREEDY,\n    )\n\n\nansi_dialect.add(\n    # This is a hook point",
        "        start_bracket=Ref(\"StartSquareBracketSegment\"),\n        end_bracket=Ref(\"EndSquareBracketSegment\"),\n        parse_mode=ParseMode.GREEDY,\n    )\n\n\nansi_dialect.add(\n    # This is a hook point",
        "R06c", "ArrayAccessorSegment", "Bracketed.simple looks at bracket_type only; the override is matched but not hinted",
    ),
    Variant(
        "prune-drops-on-raw-mismatch-before-type-test", MALG,
        "        if simple_raws and first_raw in simple_raws:\n",
        "        if simple_raws and first_raw not in simple_raws:\n            prune_buff.append(opt)\n            continue\n\n        if simple_raws and first_raw in simple_raws:\n",
        "R06d", "type test failed", "an option hinted by raw and by type is lost when only its type matches",
    ),
    Variant(
        "prune-drops-hintless-options", MALG,
        "            available_options.append(opt)\n            continue\n\n        # Otherwise we have a simple option",
        "            continue\n\n        # Otherwise we have a simple option",
        "R06d", "hint is not None", "regex parsers and meta-led sequences are never tried",
    ),
    Variant(
        "prune-returns-nothing-without-token", MALG,
        "        return list(options)\n", "        return []\n",
        "R06d", "early return", "nothing can match at the end of the tokens any more",
    ),
    Variant(
        "next-match-candidates-unsorted", MALG,
        "        _matcher_idxs.sort()\n        for _matcher_idx in _matcher_idxs:\n", "        for _matcher_idx in _matcher_idxs:\n",
        "R06e", "next_match", "candidate order follows set iteration, i.e. the hash seed",
    ),
    Variant(
        "parser-key-from-class-names", PARSERS,
        "        self._cache_key = uuid4().hex\n", "        self._cache_key = f\"{self.__class__.__name__}:{raw_class.__name__}\"\n",
        "R06f", "_cache_key", "StringParser('SELECT') and StringParser('FROM') share cache entries",
    ),
    Variant(
        "module-level-memo-in-match-algorithms", MALG,
        "def skip_start_index_forward_to_code(\n",
        "_FIRST_CODE_MEMO: dict = {}\n\n\ndef _remember(key, value):\n    _FIRST_CODE_MEMO[key] = value\n    return value\n\n\ndef skip_start_index_forward_to_code(\n",
        "RS-state", "_FIRST_CODE_MEMO", "a second, process-wide cache next to the per-parse one",
    ),
    Variant(
        "bracketed-remembers-brackets-on-self", SEQ,
        "        return start_bracket, end_bracket, persists\n",
        "        self._brackets = (start_bracket, end_bracket, persists)\n        return start_bracket, end_bracket, persists\n",
        "RS-state", "get_bracket_from_dialect", "grammar objects are shared by dialects with different bracket sets",
    ),
]
