"""C06 — parsing is deterministic and unaffected by parser optimisations (decided clauses only).

R06a  the parse cache is per-parse and its key identifies what a match depends on:
      * the cache dict of ``ParseContext`` is created in ``__init__`` (fresh dict), never
        rebound or mutated anywhere else in the tree and never touched outside the class;
      * the look-up method indexes the dict with a key made of *all* its parameters, the
        store method with the same parameters and stores its remaining parameter;
      * at every call site of those two methods the key has, as whole components
        (``sa.keyflow.flatten``: through locals, tuple displays, ``+``, a same-module helper):
        the position of the token at ``segments[idx]``, a discriminator of that token (raw or
        type), ``len(segments)`` and ``<matcher>.cache_key()``, where ``<matcher>``,
        ``segments``, ``idx`` are the receiver and arguments of the ``.match(...)`` call whose
        result is stored;
      * a ``ParseContext`` is only ever constructed inside a function, into a local / an
        argument / a returned value (factories are followed), never into an attribute, a
        global or a memoised function; the context handed to ``root_parse`` is constructed in
        the calling function.
R06b  the first-token-hint cache on grammar objects (``cached_method_for_parse_context``)
      returns a stored hint only under ``stored uuid == parse_context.uuid``, stores the hint
      together with the uuid of the context it was computed under, and ``ParseContext.uuid``
      is a fresh value per instance, assigned in ``__init__`` only.
R06c  first-token hints are sound for every grammar node reachable from the root segment of
      every bundled dialect: ``FIRST(node) ⊆ simple(node)`` unless the hint is ``None``, and a
      node that can match without consuming a token (``EPS``) has the hint ``None``
      (``sa/grammar_first.py``; the hints come from the serialised graph).
R06d  ``prune_options`` only drops an option whose hint is not ``None`` *and* whose raw test
      *and* whose type test against the first code token failed; it keeps every option when
      there is no such token; raw and types of the first token are taken from one segment.
R06e  ``next_match`` tries candidate matchers in the order of the ``matchers`` argument: the
      index list gathered from the raw map and from a *set* of types is sorted before use.
R06f  ``cache_key()`` of every matcher class is either a slot assigned only at construction
      from a fresh-unique source (``uuid4`` / ``get_next_id``) or an expression covering every
      field its ``match`` reads.
RS-state  no process-lifetime mutable state around matching except the reviewed table:
      inventory of module-/class-level containers and ``global`` statements of ``core/parser``
      and ``core/helpers/identity.py`` (constant vs mutated); matcher objects (grammars,
      parsers, segment classes) are not written to outside construction; no memoiser
      (``cache`` / ``lru_cache`` / ``cached_property``) on functions of the matching modules.

Not decided: that a cached match equals a fresh match under a different terminator stack (the
key omits terminators; no witness), the unparsable claims of greedy parse modes under
pruning, positions that start on non-code tokens with ``allow_gaps=False``, hash-order
independence beyond R06e, and that ``BaseGrammar.copy()`` keeps the key of the original (no
two structurally different options share a key in any bundled dialect today).
"""

from __future__ import annotations

import ast
import gc
from typing import Dict, List, Optional, Set, Tuple

from ..cfg import cfg_of, origins
from ..flow import cone
from ..flowutil import chain_base
from ..grammar import load_grammar
from ..grammar_analyses import Kinds
from ..grammar_first import FirstEps
from ..index import (
    AnalysisError, FuncNode, call_name, calls_in, enclosing_class, enclosing_function, enclosing_stmt,
    last_attr, module_of, norm, qualname, short, walk_local,
)
from ..keyflow import Frame, Leaf, _Opaque, canon, expand, flatten, same_value

SELFTEST_NEEDS_FILES = True

PARSER_DIR = "src/sqlfluff/core/parser/"
MALG = PARSER_DIR + "match_algorithms.py"
CTX = PARSER_DIR + "context.py"
GBASE = PARSER_DIR + "grammar/base.py"
SEQ = PARSER_DIR + "grammar/sequence.py"
ANYOF = PARSER_DIR + "grammar/anyof.py"
PARSERS = PARSER_DIR + "parsers.py"
LEXER = PARSER_DIR + "lexer.py"
RUST = PARSER_DIR + "rust_parser.py"
IDENT = "src/sqlfluff/core/helpers/identity.py"

MAX_REPORTS_R06C = 30


# =====================================================================================
# R06c  hint soundness on the grammar graph
# =====================================================================================


def _owner(d, reach, i: int) -> int:
    os_ = [o for o in d.owners(i) if o in reach] or d.owners(i) or [i]
    return os_[0]


def r06c(chk, repo, g) -> None:
    chk.rule("R06c", "for every grammar node reachable from the root of every dialect: FIRST(node) ⊆ simple(node) unless the hint is None; a node that can match "
             "without consuming a token has the hint None (FIRST/EPS by fixpoint over the serialised grammar graph)")
    kinds = Kinds(g)
    gc.freeze()
    groups: Dict[tuple, dict] = {}
    n_dialects = 0
    err_types: Dict[str, int] = {}
    sampled = 0
    for label in sorted(g):
        d = g[label]
        if d.root is None or not d.nodes:
            chk.note(f"R06c: dialect {label} has no resolved root (reported by C29), skipped.")
            continue
        n_dialects += 1
        fe = FirstEps(d, kinds)
        chk.count("R06c.fixpoint_evaluations", fe.evaluations)
        reach = d.reach()
        bad: Dict[int, tuple] = {}
        for i in reach:
            n = d.nodes[i]
            if "simple_error" in n:
                t = n["simple_error"].split(":")[0]
                err_types[t] = err_types.get(t, 0) + 1
                continue
            if "simple" not in n:
                continue
            chk.count("R06c.nodes_with_hint")
            h = n["simple"]
            if h is None:
                chk.count("R06c.hint_none")
            if fe.eps[i]:
                chk.count("R06c.eps_nodes")
                if h is not None:
                    bad[i] = ("eps", [], [])
                    continue
            if h is not None:
                chk.count("R06c.hints_compared")
            u = fe.uncovered(i, h)
            if u is not None:
                bad[i] = ("any" if u[0] else "tokens", u[1], u[2])
            elif h is not None:
                if sampled < 4 and n["kind"] in ("OneOf", "Sequence", "Bracketed", "Delimited") and len(h[0]) + len(h[1]) > 2 and label in ("ansi", "postgres", "tsql", "snowflake"):
                    sampled += 1
                    f = fe.first[i]
                    chk.sample({"rule": "R06c", "dialect": label, "node": d.display(i), "kind": n["kind"], "in": d.display(_owner(d, reach, i)),
                                "FIRST": {"raws": len(f.raws), "types": sorted(f.types)[:4]}, "hint": {"raws": len(h[0]), "types": h[1][:4]}})
        chk.count("R06c.failing_nodes", len(bad))
        # root causes only: a failing node none of whose FIRST-successors fails
        for i, (why, mr, mt) in sorted(bad.items()):
            if any(c in bad for c in fe._succ[i]):
                continue
            o = _owner(d, reach, i)
            on = d.nodes[o]
            mod = on.get("module") or d.module or "?"
            key = (mod, d.display(o), d.nodes[i]["kind"], d.display(i) if d.is_named(i) else "", why, tuple(mr[:4]), tuple(mt[:4]))
            grp = groups.setdefault(key, {"dialects": [], "line": on.get("line", 0), "chain": d.chain(i)[-4:], "hint": d.nodes[i].get("simple")})
            grp["dialects"].append(label)
    n_ok = max(0, chk.instances.get("R06c.nodes_with_hint", 0) - chk.instances.get("R06c.failing_nodes", 0))
    chk.obligations += n_ok
    chk.discharged += n_ok
    for k, v in sorted(err_types.items()):
        chk.count(f"R06c.hint_raises.{k}", v)
    chk.count("R06c.dialects", n_dialects)
    chk.count("R06c.failing_root_causes", len(groups))
    for n_rep, (key, grp) in enumerate(sorted(groups.items())):
        if n_rep >= MAX_REPORTS_R06C:
            chk.note(f"R06c: {len(groups) - MAX_REPORTS_R06C} further failing nodes not listed.")
            break
        mod, owner, kind, name, why, mr, mt = key
        if why == "eps":
            what = "can return a truthy zero-length match (metas only) but declares a first-token hint, so pruning removes it on tokens where the unpruned match succeeds"
            unc = "EPS"
        elif why == "any":
            what = "can start with a token no hint describes (regex / anything / own match) but declares a hint"
            unc = "ANY"
        else:
            what = f"can start with raws {list(mr)} / types {list(mt)} that its hint does not contain, so prune_options drops it although it would match"
            unc = f"raws={list(mr)} types={list(mt)}"
        hint = grp["hint"]
        chk.fail(
            "R06c", None,
            f"{kind} {name or ''} in {owner} {what}; hint={[x[:6] for x in hint] if hint else hint}; dialects {grp['dialects'][:8]}"
            f"{' …' if len(grp['dialects']) > 8 else ''}; chain {' > '.join(grp['chain'])}",
            detail=f"in={owner} kind={kind}{' node=' + name if name else ''} uncovered={unc}",
            construct=f"{mod}::{owner}", loc=f"{mod}:{grp['line']}",
        )
    if n_dialects >= 20:
        chk.floor("R06c.hints_compared", 40000)
        chk.floor("R06c.hint_none", 5000)
        chk.floor("R06c.eps_nodes", 100)
    else:
        chk.floor("R06c.dialects", 1)
    chk.exhaustive = True


# =====================================================================================
# shared small helpers
# =====================================================================================

DICT_MUTATORS = ("update", "setdefault", "pop", "popitem", "clear", "__setitem__", "__delitem__")
SEQ_MUTATORS = ("append", "extend", "insert", "remove", "sort", "reverse", "add", "discard", "appendleft", "extendleft")
MEMOISERS = ("cache", "lru_cache", "cached_property", "cached", "memoize")


def _params(f) -> List[str]:
    a = f.args
    return [x.arg for x in a.posonlyargs + a.args]


def _self_params(f) -> List[str]:
    p = _params(f)
    return p[1:] if p and p[0] in ("self", "cls", "mcs") else p


def _decorators(f) -> List[str]:
    return [norm(d.func) if isinstance(d, ast.Call) else norm(d) for d in getattr(f, "decorator_list", [])]


def _is_memoised(f) -> Optional[str]:
    for d in _decorators(f):
        if d.split(".")[-1] in MEMOISERS:
            return d
    return None


def _methods(c: ast.ClassDef):
    return [n for n in c.body if isinstance(n, FuncNode)]


def _store_targets(stmt) -> List[ast.AST]:
    if isinstance(stmt, ast.Assign):
        out = []
        for t in stmt.targets:
            out += list(t.elts) if isinstance(t, (ast.Tuple, ast.List)) else [t]
        return out
    if isinstance(stmt, (ast.AnnAssign, ast.AugAssign)):
        return [stmt.target]
    if isinstance(stmt, ast.Delete):
        return list(stmt.targets)
    return []


def _is_fresh_dict(e) -> bool:
    if isinstance(e, ast.Dict) and not e.keys:
        return True
    return isinstance(e, ast.Call) and call_name(e) in ("dict", "OrderedDict", "collections.OrderedDict") and not e.args and not e.keywords


def _attr_on(node, attr: str) -> bool:
    return isinstance(node, ast.Attribute) and node.attr == attr


# =====================================================================================
# R06a  the parse cache
# =====================================================================================


class CacheApi:
    """The look-up / store methods of ParseContext and the attribute that holds the dict."""

    def __init__(self, repo):
        self.cls = repo.cls(CTX, "ParseContext")
        self.init = repo.fn(CTX, "ParseContext.__init__")
        self.reader = repo.fn(CTX, "ParseContext.check_parse_cache")
        self.writer = repo.fn(CTX, "ParseContext.put_parse_cache")
        self.attr: Optional[str] = None
        self.store: Optional[ast.Assign] = None
        for n in walk_local(self.writer):
            if isinstance(n, ast.Assign):
                for t in n.targets:
                    if isinstance(t, ast.Subscript) and isinstance(t.value, ast.Attribute) and isinstance(t.value.value, ast.Name) and t.value.value.id == "self":
                        self.attr, self.store = t.value.attr, n
        if self.attr is None:
            raise AnalysisError("R06a: ParseContext.put_parse_cache no longer stores into a dict attribute of self (anchor refactored)")
        self.read_key: Optional[ast.AST] = None
        for n in walk_local(self.reader):
            if isinstance(n, ast.Call) and last_attr(n) == "get" and isinstance(n.func, ast.Attribute) and _attr_on(n.func.value, self.attr) and n.args:
                self.read_key = n.args[0]
            elif isinstance(n, ast.Subscript) and isinstance(n.ctx, ast.Load) and _attr_on(n.value, self.attr):
                self.read_key = n.slice
        if self.read_key is None:
            raise AnalysisError(f"R06a: ParseContext.check_parse_cache no longer reads self.{self.attr} (anchor refactored)")


def r06a_cache_attr(chk, repo, api: CacheApi) -> None:
    A = api.attr
    n_init = 0
    for m in repo.modules.values():
        if A not in m.text:
            continue
        for n in ast.walk(m.tree):
            if isinstance(n, ast.ClassDef) and n is api.cls:
                for s in n.body:
                    for t in _store_targets(s):
                        if isinstance(t, ast.Name) and t.id == A and getattr(s, "value", None) is not None:
                            chk.fail("R06a", s, f"ParseContext.{A} is a class attribute: every ParseContext of the process shares one match cache, so matches of an earlier file are replayed",
                                     detail=f"{A} class-level value")
            if not _attr_on(n, A):
                continue
            chk.count("R06a.cache_attr_sites")
            f = enclosing_function(n)
            c = enclosing_class(n)
            inside = c is api.cls and isinstance(n.value, ast.Name) and n.value.id == "self"
            st = enclosing_stmt(n)
            par = getattr(n, "_parent", None)
            rebinding = any(t is n for t in _store_targets(st))
            mutating = (
                (isinstance(par, ast.Subscript) and par.value is n and isinstance(par.ctx, (ast.Store, ast.Del)))
                or (isinstance(par, ast.Attribute) and par.value is n and par.attr in DICT_MUTATORS and isinstance(getattr(par, "_parent", None), ast.Call))
            )
            where = f"{qualname(f) if f is not None else '<module>'}"
            if not inside:
                chk.fail("R06a", n, f"the parse cache of a ParseContext is touched outside the class ({short(st, 80)}): the cache is no longer owned by one parse",
                         detail=f"foreign access to {A} in {where}")
            elif rebinding:
                ok = f is api.init and isinstance(st, (ast.Assign, ast.AnnAssign)) and _is_fresh_dict(st.value)
                n_init += ok
                chk.require(ok, "R06a", st, f"self.{A} must be bound exactly once, in ParseContext.__init__, to a fresh empty dict (found {short(st, 80)} in {where}); "
                            "anything else lets matches of one parse be seen by another", detail=f"{A} bound in {where}")
            elif mutating:
                chk.require(f is api.writer, "R06a", st, f"self.{A} is mutated in {where}, not only in the store method", detail=f"{A} mutated in {where}")
            else:
                chk.ok("R06a", f"{CTX}::{where}", f"{A} read")
    chk.require(n_init == 1, "R06a", api.init, f"ParseContext.__init__ must create the parse cache (self.{A} = {{}}) exactly once; found {n_init} such assignments",
                detail=f"{A} created in __init__")
    chk.floor("R06a.cache_attr_sites", 3)

    # key shape of reader / writer
    rp, wp = _self_params(api.reader), _self_params(api.writer)
    fr = Frame(api.reader)
    for alt in flatten(repo, api.read_key, fr):
        got = {lf.expr.arg for lf in alt if isinstance(lf.expr, ast.arg) and not lf.path}
        chk.require(set(rp) <= got, "R06a", api.reader, f"the cache look-up key {short(api.read_key, 60)} does not contain every parameter of check_parse_cache as a whole component "
                    f"(missing {sorted(set(rp) - got)}): two different look-ups collapse onto one entry", detail="look-up key covers all parameters")
    fw = Frame(api.writer)
    tgt = api.store.targets[0]
    keyp = wp[: len(rp)]
    for alt in flatten(repo, tgt.slice, fw):
        got = {lf.expr.arg for lf in alt if isinstance(lf.expr, ast.arg) and not lf.path}
        chk.require(set(keyp) <= got and len(keyp) == len(rp), "R06a", api.writer, f"the cache store key {short(tgt.slice, 60)} does not contain the parameters {keyp} as whole components",
                    detail="store key covers all key parameters")
    vals = expand(api.store.value, fw, api.store)
    chk.require(bool(vals) and len(wp) == len(rp) + 1 and all(isinstance(v.expr, ast.arg) and v.expr.arg == wp[-1] and not v.path for v in vals), "R06a", api.store,
                "the stored cache value is not the match handed to put_parse_cache", detail="stored value is the match parameter")
