"""C26 — writing fixed files is atomic and faithful.

The *replacing function* is found by role: the method of ``LintedFile`` that
renames a file into place (``shutil.move`` / ``os.replace`` / ``os.rename``).

R26a  typestate of the temp file over the CFG of the replacing function:
      created in the directory of the output path (``dir=`` derives from
      ``os.path.dirname``/``os.path.split``/``Path(..).parent`` of the output
      parameter), ``delete=False``, text mode ``w``; the buffer parameter is
      written, then flushed, then ``os.fsync``-ed while the file is open; the
      rename happens after the ``with`` (file closed), from the temp's name to
      the output parameter; ``chmod`` only ever targets the temp name and
      precedes the rename; nothing after the rename touches the destination;
      no other write-capable call occurs in the function.
R26b  all of it sits in a ``try`` whose catch-all handler (bare /
      ``BaseException``) removes the temp name (guarded at most by tests on
      that name) and re-raises on every path; no handler of that ``try`` can
      fall through; the temp name is recorded before anything can fail.
R26c  fidelity: ``encoding=`` is the function's encoding parameter,
      ``newline=""``; the mode comes from ``os.stat(<input path parameter>)``
      (not the output path), taken before the temp file is created, and is
      applied to the temp on every path to the rename on which it is known.
R26d  suffix: the caller (role: method of LintedFile that calls the replacing
      function) passes ``self.path`` as the stat-only input path; the output
      path is ``self.path`` or ``root + suffix + ext`` (or the f-string of the
      three) with ``root, ext`` from ``os.path.splitext(self.path)``, and with
      a suffix it is always the latter; the callee uses its input path for
      ``os.stat`` only.
R26e  who may write, and when: every write-capable call in src/sqlfluff and
      plugins is in the reviewed table below; the replacing function is called
      only by that LintedFile method and only when ``fix_string()`` reported a
      change; that method is called only from the reviewed callers, and from
      ``Linter.lint_paths`` only under its ``apply_fixes`` parameter
      (default False).

Also read as the same facts (QUIET sweep): ``os.path.split`` kept whole and indexed; the file
descriptor or ``st_mode`` through a local; ``fix_string()``'s result kept whole and indexed.

Accepted idioms are the ones listed above; anything else in the replacing
function is reported (the function is 40 lines whose every call matters).
"""

from __future__ import annotations

import ast

from ..cfg import Branch, atoms, cfg_of, origins
from ..idioms import component_origins, conditions_at
from ..index import AnalysisError, arg_of, call_name, calls_in, const, enclosing_function, kwarg, last_attr, module_of, norm, short, walk_local
from ..iohelpers import (
    LINTED_FILE, LINTER, Writer, all_calls, ancestors, branch_node, fq, in_block, inside,
    is_self_attr, map_args, param_of, qual, write_kind, write_target,
)
from ..report import construct_of

# (construct, callee) -> why this write is not a write to a linted file
WRITE_TABLE = {
    ("src/sqlfluff/cli/commands.py::dump_file_payload", "open(w)"): "user-named --write-output file",
    ("src/sqlfluff/cli/outputstream.py::FileOutput.__init__", "open(w)"): "user-named --write-output stream",
    ("src/sqlfluff/core/linter/linting_result.py::LintingResult.persist_timing_records", "open(w)"): "user-named --persist-timing CSV",
    ("src/sqlfluff/diff_quality_plugin.py::SQLFluffViolationReporter._run_sqlfluff", "tempfile.NamedTemporaryFile"): "diff-quality: its own JSON temp file",
    ("src/sqlfluff/diff_quality_plugin.py::SQLFluffViolationReporter._run_sqlfluff", "os.remove"): "diff-quality: removes its own temp file",
}
# callers of the persisting method: construct -> gating parameter (None: driven by an explicit user confirmation upstream)
PERSIST_CALLERS = {
    "src/sqlfluff/core/linter/linter.py::Linter.lint_paths": "apply_fixes",
    "src/sqlfluff/core/linter/linted_dir.py::LintedDir.persist_changes": None,
}
READONLY = {"os.stat", "os.lstat", "os.path.exists", "os.path.isfile", "os.path.getsize", "os.fspath", "str", "os.path.abspath", "os.path.normpath"}


def run(chk) -> None:
    repo = chk.repo
    chk.rule("R26a", "the only operation touching the target is a rename of a complete, flushed, fsynced, closed temp file created in the target's directory")
    chk.rule("R26b", "every failure in the write path removes the temp file and propagates (catch-all handler incl. BaseException)")
    chk.rule("R26c", "encoding, newline handling and permission bits of the original are carried to the written file")
    chk.rule("R26d", "with a fixed-file suffix the original path is only stat-ed, never written")
    chk.rule("R26e", "only the reviewed functions write files; a linted file is written only via the replacing function, only after a real change, only under apply_fixes / explicit persist")
    W = Writer(repo)
    chk.count("R26.linted_file_writer_methods", len(W.writers))
    if W.fn is None:
        if len(W.fns) > 1:
            raise AnalysisError("C26: more than one method of LintedFile renames files; rule must be re-read against the new code")
        if not W.writers:
            raise AnalysisError("C26: no method of LintedFile performs a write-capable call (anchor moved?)")
        for f in W.writers:
            chk.fail(
                "R26a", f,
                "LintedFile writes a file without renaming a temp file into place: a crash mid-write leaves a truncated target",
                detail="no atomic rename in writer",
            )
        _r26e(chk, repo, W)
        return
    _r26a(chk, W)
    _r26b(chk, W)
    _r26c(chk, W)
    _r26d(chk, W)
    _r26e(chk, repo, W)
    chk.exhaustive = True


# ---------------------------------------------------------------------------


def _r26a(chk, W) -> None:
    f, cfg = W.fn, W.cfg
    C = qual(f)
    chk.count("R26a.moves", len(W.moves))
    chk.sample({"rule": "R26a", "replacing_function": C, "line": f.lineno, "out_param": W.out_param, "in_param": W.in_param, "enc_param": W.enc_param})
    if not chk.require(len(W.moves) == 1, "R26a", f, "the replacing function must rename exactly once", detail="single rename"):
        return
    M = W.moves[0]
    Ms = cfg.stmt_of(M)
    chk.require(W.out_param is not None, "R26a", M, "destination of the rename is not (a pure copy of) a path parameter of the function", detail="rename destination is the output parameter")
    if not chk.require(W.temp is not None and fq(W.temp) == "tempfile.NamedTemporaryFile" and W.with_stmt is not None, "R26a", f,
                       "no single `with tempfile.NamedTemporaryFile(...) as tmp` found: the data is not staged in a temp file", detail="temp file staged in a with-block"):
        return
    T, Wi = W.temp, W.with_stmt
    # creation facts
    d = kwarg(T, "dir")
    ok_dir = False
    if d is not None:
        os_ = component_origins(cfg, d, Wi) if isinstance(d, (ast.Name, ast.Subscript)) else None  # `parts = os.path.split(p); parts[0]` too
        leaves = [(o.expr, tuple(o.path), o.stmt) for o in os_] if os_ is not None else [(d, (), Wi)]
        ok_dir = bool(leaves) and all(_is_dir_of(W, e, p, at) for e, p, at in leaves)
    chk.require(ok_dir, "R26a", T, "temp file is not created in the directory of the output path (dir= must derive from dirname/split/parent of the output parameter); "
                "a temp on another filesystem makes the rename a non-atomic copy", detail="temp dir = dirname(output)")
    chk.require(const(kwarg(T, "delete")) is False and kwarg(T, "delete") is not None, "R26a", T,
                "temp file must be created with delete=False (it has to survive close to be renamed)", detail="delete=False")
    mode = const(arg_of(T, 0, "mode"))
    chk.require(isinstance(mode, str) and "w" in mode and "b" not in mode, "R26a", T, "temp file must be opened in text write mode", detail="mode='w'")
    # protocol statements inside the with
    writes, flushes, syncs = [], [], []
    for c in [n for s in Wi.body for n in [s] + list(walk_local(s)) if isinstance(n, ast.Call)]:
        st = cfg.stmt_of(c)
        if last_attr(c) == "write" and isinstance(c.func, ast.Attribute) and W.is_tmp(c.func.value, st):
            writes.append(c)
        elif last_attr(c) == "flush" and isinstance(c.func, ast.Attribute) and W.is_tmp(c.func.value, st):
            flushes.append(c)
        elif fq(c) == "os.fsync" and c.args and _is_tmp_fileno(W, cfg, c.args[0], st):
            syncs.append(c)
    chk.count("R26a.protocol_calls", len(writes) + len(flushes) + len(syncs))
    sw, sf, sy = [cfg.stmt_of(c) for c in writes], [cfg.stmt_of(c) for c in flushes], [cfg.stmt_of(c) for c in syncs]
    bufs = {param_of(cfg, c.args[0] if c.args else None, cfg.stmt_of(c)) for c in writes}
    W.buf_param = bufs.pop() if len(bufs) == 1 else None
    chk.require(bool(writes) and W.buf_param is not None, "R26a", Wi, "the buffer parameter is not what gets written to the temp file", detail="write(buffer parameter)")
    chk.require(bool(writes) and not cfg.paths_avoiding(cfg.entry, Ms, lambda n: n in sw), "R26a", Wi,
                "a path reaches the rename without writing the buffer", detail="write on every path to the rename")
    chk.require(bool(flushes) and all(not cfg.paths_avoiding(w, Ms, lambda n: n in sf) for w in sw), "R26a", Wi,
                "temp file is not flushed after the last write: buffered data may be missing when the file is renamed into place", detail="flush after write")
    chk.require(bool(syncs) and all(not cfg.paths_avoiding(x, Ms, lambda n: n in sy) for x in sf) and bool(flushes), "R26a", Wi,
                "no os.fsync(tmp.fileno()) after the flush: after a crash the renamed file can be empty", detail="fsync after flush")
    closed = (not inside(M, Wi)) and cfg.dominates(Wi, Ms)
    chk.require(closed, "R26a", M, "the rename happens while the temp file is still open (must follow the with-block)", detail="rename after close")
    chk.require(W.is_tmp_name(arg_of(M, 0, "src"), Ms), "R26a", M, "source of the rename is not the temp file's name", detail="rename source is the temp name")
    # chmod only on the temp name, before the rename
    for c in calls_in(f):
        if fq(c) in ("os.chmod", "os.lchmod") or write_kind(c) == "Path.chmod":
            st = cfg.stmt_of(c)
            tgt = c.args[0] if fq(c).startswith("os.") and c.args else write_target(c)
            chk.require(W.is_tmp_name(tgt, st), "R26a", c, "chmod targets something other than the temp file (changing the destination's mode is a second, non-atomic step)", detail="chmod target is the temp name")
            chk.require(cfg.reaches(st, Ms) and not cfg.reaches(Ms, st), "R26a", c, "chmod does not precede the rename", detail="chmod before rename")
    # nothing after the rename touches the destination; no stray writes at all
    n_w = 0
    for c in calls_in(f):
        st = cfg.stmt_of(c)
        k = write_kind(c)
        after = st is not Ms and cfg.reaches(Ms, st)
        if k:
            n_w += 1
            tgt = write_target(c)
            if c is T or c is M:
                continue
            if fq(c) in ("os.chmod", "os.lchmod") or k == "Path.chmod":
                continue  # judged above
            in_handler = any(isinstance(a, ast.ExceptHandler) for a in ancestors(c))
            is_rm = fq(c) in ("os.remove", "os.unlink") or k == "Path.unlink"
            okc = is_rm and in_handler and W.is_tmp_name(tgt, st, allow_none=True)
            chk.require(okc, "R26a", c, f"unexpected write-capable call {k} on {short(tgt, 40) if tgt is not None else '?'} in the replacing function "
                        "(only: create temp, chmod temp, rename, remove temp on failure)", detail=f"stray write {k}({short(tgt, 40) if tgt is not None else ''})")
        elif after and W.out_param is not None and fq(c) not in READONLY:
            mentions = any(isinstance(n, ast.Name) and param_of(cfg, n, st) == W.out_param for a in list(c.args) + [kw.value for kw in c.keywords] for n in ast.walk(a))
            chk.require(not mentions, "R26a", c, "a call after the rename uses the destination path", detail=f"post-rename use {short(c, 60)}")
    chk.count("R26a.write_calls_in_replacing_function", n_w)
    chk.floor("R26a.write_calls_in_replacing_function", 2)


def _is_tmp_fileno(W, cfg, e, at) -> bool:
    """``tmp.fileno()`` in place, or a local that can only hold it."""
    if isinstance(e, ast.Call):
        return last_attr(e) == "fileno" and W.is_tmp(e, at)
    if isinstance(e, ast.Name):
        os_ = origins(cfg, e, at)
        return bool(os_) and all(o.kind == "expr" and not o.path and isinstance(o.expr, ast.Call) and last_attr(o.expr) == "fileno" and W.is_tmp(o.expr, o.stmt) for o in os_)
    return False


def _is_dir_of(W, e, path, at) -> bool:
    """Is (e, tuple path) the directory part of the output parameter?"""
    if isinstance(e, ast.Call):
        n = fq(e)
        a0 = e.args[0] if e.args else None
        if n == "os.path.dirname" and not path:
            return W.from_param(a0, at, W.out_param)
        if n == "os.path.split" and path == (0,):
            return W.from_param(a0, at, W.out_param)
    if isinstance(e, ast.Attribute) and e.attr == "parent" and not path and isinstance(e.value, ast.Call) and fq(e.value) in ("pathlib.Path", "Path"):
        return W.from_param(e.value.args[0] if e.value.args else None, at, W.out_param)
    return False


# ---------------------------------------------------------------------------


def _r26b(chk, W) -> None:
    f, cfg = W.fn, W.cfg
    if len(W.moves) != 1 or W.with_stmt is None:
        return
    M, Wi = W.moves[0], W.with_stmt
    tr = None
    for a in ancestors(M):
        if a is f:
            break
        if isinstance(a, ast.Try) and in_block(M, a.body):
            tr = a
            break
    if not chk.require(tr is not None and in_block(Wi, tr.body), "R26b", M,
                       "temp creation, write and rename are not inside one try-block with a cleanup handler: a failure leaves the temp file behind",
                       detail="write path inside try"):
        return
    for c in calls_in(f):
        if fq(c) in ("os.chmod", "os.lchmod"):
            chk.require(in_block(c, tr.body), "R26b", c, "chmod happens outside the try-block that cleans up the temp file", detail="chmod inside try")
    chk.count("R26b.handlers", len(tr.handlers))
    catch_all = None
    for h in tr.handlers:
        hb = branch_node(cfg, h, True)
        falls = hb is not None and cfg.reaches(hb, cfg.exit)
        chk.require(not falls, "R26b", h, f"handler `except {norm(h.type) if h.type else ''}` can complete without re-raising: the caller would report the file as fixed",
                    detail=f"handler {norm(h.type) if h.type else 'bare'} re-raises")
        names = [] if h.type is None else ([norm(x) for x in h.type.elts] if isinstance(h.type, ast.Tuple) else [norm(h.type)])
        if catch_all is None and (h.type is None or "BaseException" in names):
            catch_all = h
    if not chk.require(catch_all is not None, "R26b", tr,
                       "no handler catches BaseException: KeyboardInterrupt/SystemExit during the write leave an orphaned temp file next to the target",
                       detail="catch-all cleanup handler"):
        return
    h = catch_all
    rms = []
    for c in [n for s in h.body for n in [s] + list(walk_local(s)) if isinstance(n, ast.Call)]:
        k = write_kind(c)
        if fq(c) in ("os.remove", "os.unlink") or k == "Path.unlink":
            tgt = c.args[0] if fq(c).startswith("os.") and c.args else write_target(c)
            if W.is_tmp_name(tgt, cfg.stmt_of(c), allow_none=True):
                rms.append(c)
    if chk.require(bool(rms), "R26b", h, "the cleanup handler does not remove the temp file", detail="handler removes temp name"):
        for c in rms:
            st = cfg.stmt_of(c)
            bad = []
            for g in cfg.guards(st):
                if isinstance(g.stmt, ast.If) and in_block(g.stmt, h.body):
                    for e, pol in atoms(g.stmt.test, g.polarity):
                        for n in ast.walk(e):
                            if isinstance(n, ast.Name) and n.id not in module_of(f).imports and not W.is_tmp_name(n, st, allow_none=True):
                                bad.append(n.id)
            chk.require(not bad, "R26b", c, f"removal of the temp file depends on unrelated condition(s) on {sorted(set(bad))}", detail="removal guarded only by tests on the temp name")
    chk.require(any(isinstance(n, ast.Raise) for s in h.body for n in [s] + list(walk_local(s))), "R26b", h, "cleanup handler does not re-raise", detail="handler re-raises")
    # the temp name must be recorded before anything in the with-body can fail
    rec = None
    for i, s in enumerate(Wi.body):
        if isinstance(s, (ast.Assign, ast.AnnAssign)) and s.value is not None and isinstance(s.value, ast.Attribute) and s.value.attr == "name" and W.is_tmp(s.value.value, s):
            rec = i
            break
    early = rec is not None and not any(isinstance(n, ast.Call) for s in Wi.body[:rec] for n in ast.walk(s))
    chk.require(early, "R26b", Wi, "the temp file's name is not recorded first inside the with-block: a failing write before it leaks the temp file", detail="temp name recorded first")


# ---------------------------------------------------------------------------


def _r26c(chk, W) -> None:
    f, cfg = W.fn, W.cfg
    if W.temp is None or W.with_stmt is None or len(W.moves) != 1:
        return
    T, Wi, M = W.temp, W.with_stmt, W.moves[0]
    chk.require(W.enc_param is not None, "R26c", T, "encoding= of the temp file is not the function's encoding parameter (the file would be re-encoded; a BOM from utf-8-sig would be lost)",
                detail="encoding= is the encoding parameter")
    nl = kwarg(T, "newline")
    chk.require(nl is not None and const(nl) == "", "R26c", T, 'newline="" missing: line endings would be translated on write', detail='newline=""')
    chk.count("R26c.stat_calls", len(W.stats))
    chk.require(bool(W.stats) and W.in_param is not None and W.in_param != W.out_param, "R26c", f,
                "permission bits are not read from the input path parameter (with a suffix the output does not exist yet, so its mode cannot be the source)",
                detail="mode from os.stat(input path)")
    for s in W.stats:
        chk.require(cfg.dominates(cfg.stmt_of(s), Wi), "R26c", s, "os.stat of the original does not precede the creation of the temp file", detail="stat before temp creation")
    chmods = [c for c in calls_in(f) if fq(c) == "os.chmod" and W.is_tmp_name(c.args[0] if c.args else None, cfg.stmt_of(c))]
    if not chk.require(bool(chmods), "R26c", f, "the original's permission bits are never applied to the temp file (the fixed file would get the temp file's 0600)", detail="chmod(temp, original mode)"):
        return
    for c in chmods:
        st = cfg.stmt_of(c)
        marg = arg_of(c, 1, "mode")
        mos = origins(cfg, marg, st) if isinstance(marg, ast.Name) else None
        leaves = [(o.expr, o.stmt) for o in mos] if mos is not None else [(marg, st)]
        real = [(e, at) for e, at in leaves if not (isinstance(e, ast.Constant) and e.value is None)]
        okm = bool(real) and all(_from_stat(W, e, at) for e, at in real)
        chk.require(okm, "R26c", c, "mode applied to the temp file is not derived from os.stat(<input path>).st_mode", detail="chmod mode derives from stat(input)")
        # ... and keeps all twelve mode bits: a mask narrower than S_IMODE (0o7777) drops set-uid / set-gid / sticky
        for e, at in real:
            for b in [x for x in ast.walk(e) if isinstance(x, ast.BinOp) and isinstance(x.op, ast.BitAnd)]:
                for side in (b.left, b.right):
                    k = side
                    if isinstance(k, ast.Name):
                        ko = origins(cfg, k, at)
                        k = ko[0].expr if len(ko) == 1 and ko[0].kind == "expr" else k
                    if isinstance(k, ast.Constant) and isinstance(k.value, int) and not isinstance(k.value, bool):
                        chk.require(
                            k.value & 0o7777 == 0o7777, "R26c", c,
                            f"the mode carried over to the fixed file is masked with {oct(k.value)}, which is narrower than stat.S_IMODE (0o7777): set-uid / set-gid / sticky bits of the "
                            "original are lost by a successful fix",
                            detail="chmod mode keeps all permission bits of the original",
                        )
        # guards: only tests of that mode value; every path to the rename applies chmod or took the mode-unknown branch
        skip = []
        bad = False
        for g in cfg.guards(st):
            if isinstance(g.stmt, ast.If) and inside(g.stmt, f):
                ok_atoms = True
                for e, pol in atoms(g.stmt.test, g.polarity):
                    nm = [n for n in ast.walk(e) if isinstance(n, ast.Name)]
                    if not nm or any(not (isinstance(marg, ast.Name) and n.id == marg.id) for n in nm):
                        ok_atoms = False
                if ok_atoms:
                    skip.append((g.stmt, not g.polarity))
                else:
                    bad = True
        chk.require(not bad, "R26c", c, "applying the original mode is conditional on something other than the mode being known", detail="chmod guarded only by mode-known test")
        sk = [n for n in cfg.nodes if isinstance(n, Branch) and any(n.stmt is s and n.polarity is p for s, p in skip)]
        chk.require(not cfg.paths_avoiding(cfg.entry, cfg.stmt_of(M), lambda n: n is st or n in sk), "R26c", c,
                    "a path reaches the rename with a known mode but without applying it", detail="chmod on every path with known mode")


def _from_stat(W, e, at, _depth: int = 0) -> bool:
    """Does ``e`` read ``os.stat(<input path>).st_mode`` -- in place, or through locals each of
    whose possible values (other than None) reads it?"""
    for n in ast.walk(e):
        if isinstance(n, ast.Attribute) and n.attr == "st_mode":
            b = n.value
            if isinstance(b, ast.Name):
                for o in origins(W.cfg, b, at):
                    if isinstance(o.expr, ast.Call) and o.expr in W.stats and W.from_param(o.expr.args[0] if o.expr.args else None, o.stmt, W.in_param):
                        return True
            elif isinstance(b, ast.Call) and b in W.stats and W.from_param(b.args[0] if b.args else None, at, W.in_param):
                return True
    if _depth < 3:
        for n in ast.walk(e):
            if isinstance(n, ast.Name) and isinstance(n.ctx, ast.Load) and n.id not in module_of(W.fn).imports:
                os_ = [o for o in origins(W.cfg, n, at) if not (o.kind == "expr" and isinstance(o.expr, ast.Constant) and o.expr.value is None)]
                if os_ and all(o.kind == "expr" and not o.path and isinstance(o.expr, ast.AST) and o.expr is not e and _from_stat(W, o.expr, o.stmt, _depth + 1) for o in os_):
                    return True
    return False


# ---------------------------------------------------------------------------


def _r26d(chk, W) -> None:
    f = W.fn
    # callee: the input path parameter is only ever stat-ed
    if W.out_param is None or W.in_param == W.out_param:
        return  # already reported by R26a / R26c; the roles of the parameters are unknown
    if W.in_param is not None:
        n = 0
        for c in calls_in(f):
            st = W.cfg.stmt_of(c)
            uses = [x for a in list(c.args) + [k.value for k in c.keywords] for x in ast.walk(a) if isinstance(x, ast.Name) and param_of(W.cfg, x, st) == W.in_param]
            if uses:
                n += 1
                chk.require(fq(c) in READONLY, "R26d", c, f"the input path parameter `{W.in_param}` is passed to {fq(c) or call_name(c)}: the original must only be stat-ed", detail=f"input path used by {fq(c) or call_name(c)}")
        chk.count("R26d.input_path_uses", n)
    chk.count("R26d.persisting_methods", len(W.persist))
    for P in W.persist:
        cfg = cfg_of(P)
        for pf, call in W.callers:
            if pf is not P:
                continue
            st = cfg.stmt_of(call)
            amap = map_args(call, f)
            a_in, a_out = amap.get(W.in_param), amap.get(W.out_param)
            in_ok = a_in is not None and all(o.kind == "expr" and is_self_attr(o.expr, "path") and not o.path for o in origins(cfg, a_in, st)) if isinstance(a_in, ast.Name) else is_self_attr(a_in, "path")
            chk.require(bool(in_ok), "R26d", call, "the stat-only input path argument is not self.path", detail="input path argument is self.path")
            if a_out is None:
                chk.fail("R26d", call, "no argument for the output path parameter", detail="output path argument")
                continue
            outs = origins(cfg, a_out, st) if isinstance(a_out, ast.Name) else None
            leaves = [(o.expr, o.path, o.stmt, o.kind) for o in outs] if outs is not None else [(a_out, (), st, "expr")]
            built = []
            ok = True
            for e, p, at, kind in leaves:
                if kind == "expr" and is_self_attr(e, "path") and not p:
                    continue
                sfx = _suffix_build(cfg, e, at, P)
                if sfx is None:
                    ok = False
                else:
                    built.append((at, sfx))
            chk.require(ok, "R26d", call, "output path is neither self.path nor splitext(self.path)[0] + suffix + splitext(self.path)[1]", detail="output path built from self.path")
            # with a suffix the output is always the built name
            sparams = {s for _, s in built}
            if chk.require(len(sparams) == 1, "R26d", call, "no suffixed output name is ever built from the suffix parameter: the original would be overwritten although a suffix was requested",
                           detail="suffix parameter builds the output name"):
                sp = sparams.pop()
                assigns = [at for at, _ in built]
                # Branch nodes meaning "suffix is falsy"
                falsy = []
                for n_ in cfg.nodes:
                    if isinstance(n_, Branch) and isinstance(n_.stmt, ast.If):
                        for e, pol in atoms(n_.stmt.test, n_.polarity):
                            if isinstance(e, ast.Name) and not pol and param_of(cfg, e, n_.stmt) == sp:
                                falsy.append(n_)
                chk.require(not cfg.paths_avoiding(cfg.entry, st, lambda n_: n_ in assigns or n_ in falsy), "R26d", call,
                            "a path reaches the write with a suffix set but the output path still being the original", detail="suffix set implies suffixed output")


def _suffix_build(cfg, e, at, P):
    """``root + suffix + ext`` with root/ext = os.path.splitext(self.path): returns the suffix parameter name."""
    if isinstance(e, ast.JoinedStr) and len(e.values) == 3 and all(isinstance(v, ast.FormattedValue) and v.format_spec is None for v in e.values):
        root, sfx, ext = (v.value for v in e.values)  # f"{root}{suffix}{ext}"
    elif isinstance(e, ast.BinOp) and isinstance(e.op, ast.Add) and isinstance(e.left, ast.BinOp) and isinstance(e.left.op, ast.Add):
        root, sfx, ext = e.left.left, e.left.right, e.right
    else:
        return None

    def split_part(x, idx):
        if isinstance(x, ast.Name):
            os_ = origins(cfg, x, at)
            return bool(os_) and all(_is_splitext_self(cfg, o.expr, o.stmt) and o.path == (idx,) for o in os_)
        if not (isinstance(x, ast.Subscript) and const(x.slice) == idx):
            return False
        if isinstance(x.value, ast.Name):  # parts = os.path.splitext(self.path); parts[idx]
            os_ = origins(cfg, x.value, at)
            return bool(os_) and all(o.kind == "expr" and not o.path and _is_splitext_self(cfg, o.expr, o.stmt) for o in os_)
        return _is_splitext_self(cfg, x.value, at)

    if not (split_part(root, 0) and split_part(ext, 1)):
        return None
    return param_of(cfg, sfx, at)


def _is_splitext_self(cfg, e, at) -> bool:
    if not (isinstance(e, ast.Call) and fq(e) == "os.path.splitext" and e.args):
        return False
    a = e.args[0]
    if is_self_attr(a, "path"):
        return True
    if isinstance(a, ast.Name):
        os_ = origins(cfg, a, at)
        return bool(os_) and all(o.kind == "expr" and is_self_attr(o.expr, "path") and not o.path for o in os_)
    return False


# ---------------------------------------------------------------------------


def _r26e(chk, repo, W) -> None:
    # calls inside the replacing function are governed by R26a-d (if there is no rename at
    # all, R26a has already reported every writing method of LintedFile)
    fn_c = {qual(W.fn)} if W.fn is not None else {qual(f) for f in W.writers}
    n = 0
    seen = set()
    for m in repo.modules.values():
        for c in all_calls(m):
            k = write_kind(c)
            if not k:
                continue
            n += 1
            cons = construct_of(c)
            if cons in fn_c:
                chk.ok("R26e", cons, k)
                continue
            why = WRITE_TABLE.get((cons, k))
            seen.add((cons, k))
            tgt = write_target(c)
            chk.require(why is not None, "R26e", c,
                        f"write-capable call {k}({short(tgt, 50) if tgt is not None else ''}) outside the reviewed writer table: only the replacing function may write linted files",
                        detail=f"{k}({short(tgt, 50) if tgt is not None else ''})")
            if why and len(chk.samples) < 10:
                chk.sample({"rule": "R26e", "site": f"{m.relpath}:{c.lineno}", "call": k, "reason": why})
    chk.count("R26e.write_capable_calls", n)
    chk.floor("R26e.write_capable_calls", 6)
    stale = [f"{a}:{b}" for (a, b) in WRITE_TABLE if (a, b) not in seen]
    if stale:
        chk.note("writer table entries without a matching call (stale, harmless): " + ", ".join(stale))
    if W.fn is None:
        return
    # the replacing function is called only from LintedFile, gated on fix_string()'s change flag
    chk.count("R26e.replace_callers", len(W.callers))
    chk.floor("R26e.replace_callers", 1)
    for pf, call in W.callers:
        if pf not in W.persist:
            chk.fail("R26e", call, "the replacing function is called from outside LintedFile's persisting method", detail=f"foreign caller of {W.fn.name}")
            continue
        cfg = cfg_of(pf)
        st = cfg.stmt_of(call)
        ok = False
        for e, pol in conditions_at(cfg, st):
            if pol and isinstance(e, (ast.Name, ast.Subscript)):
                os_ = component_origins(cfg, e, cfg.stmt_of(e) or st)
                if os_ and all(isinstance(o.expr, ast.Call) and last_attr(o.expr) == "fix_string" and tuple(o.path) == (1,) for o in os_):
                    ok = True
        chk.require(ok, "R26e", call, "the file is rewritten without testing fix_string()'s change flag", detail="write gated on fix_string() change flag")
    # who may call the persisting method
    names = {p.name for p in W.persist}
    n_callers = 0
    for m in repo.modules.values():
        for c in all_calls(m):
            if last_attr(c) in names and isinstance(c.func, ast.Attribute):
                n_callers += 1
                cons = construct_of(c)
                if cons not in PERSIST_CALLERS:
                    chk.fail("R26e", c, f"new caller of {last_attr(c)}(): files can now be written from {cons} (not in the reviewed caller table)", detail=f"caller of {last_attr(c)}")
                    continue
                gate = PERSIST_CALLERS[cons]
                if gate is None:
                    chk.ok("R26e", cons, f"caller of {last_attr(c)}")
                    continue
                g = enclosing_function(c)
                cfg = cfg_of(g)
                st = cfg.stmt_of(c)
                gated = any(pol and isinstance(e, ast.Name) and param_of(cfg, e, st) == gate for e, pol in cfg.conditions(st))
                chk.require(gated, "R26e", c, f"{last_attr(c)}() is reached without the `{gate}` parameter being true: plain linting would write files", detail=f"{last_attr(c)} under {gate}")
                a = g.args
                allp = a.posonlyargs + a.args
                dflt = dict(zip([x.arg for x in allp[len(allp) - len(a.defaults):]], a.defaults))
                dflt.update({k.arg: v for k, v in zip(a.kwonlyargs, a.kw_defaults) if v is not None})
                chk.require(gate in dflt and const(dflt[gate]) is False, "R26e", g, f"parameter `{gate}` must default to False", detail=f"{gate} defaults to False")
    chk.count("R26e.persist_callers", n_callers)
    chk.floor("R26e.persist_callers", 1)


from ..selftest import Variant  # noqa: E402

LF = LINTED_FILE
VARIANTS = [
    Variant(
        "mode-carried-over-without-the-special-bits", LF,
        "                mode = stat.S_IMODE(status.st_mode)\n",
        "                mode = status.st_mode & 0o777\n",
        "R26c", "_safe_create_replace_file", "seeded C26-11: set-gid directories' files lose the bit on every fix",
    ),
    Variant(
        "quiet-mode-carried-over-by-the-full-mask", LF,
        "                mode = stat.S_IMODE(status.st_mode)\n",
        "                mode = status.st_mode & 0o7777\n",
        "QUIET", None, "S_IMODE spelled as its mask",
    ),
    # behaviour-preserving refactors: must stay quiet
    Variant("quiet-os-replace-instead-of-move", LF, "            shutil.move(tmp_name, output_path)\n", "            os.replace(tmp_name, output_path)\n", "QUIET", None,
            "same-directory rename spelled with os.replace"),
    Variant("quiet-target-dir-through-dirname-call", LF, "        dirname, basename = os.path.split(output_path)\n",
            "        dirname = os.path.dirname(output_path)\n        basename = os.path.basename(output_path)\n", "QUIET", None, "directory part computed with os.path.dirname"),
    Variant("quiet-write-through-handle-alias", LF, "                tmp.file.write(write_buff)\n", "                handle = tmp\n                handle.write(write_buff)\n", "QUIET", None,
            "write through an alias of the temp file object"),
    Variant("quiet-cleanup-with-contextlib-suppress", LF,
            "            if tmp_name is not None and os.path.exists(tmp_name):\n                os.remove(tmp_name)\n            raise\n",
            "            if tmp_name is not None:\n                if os.path.exists(tmp_name):\n                    os.unlink(tmp_name)\n            raise\n", "QUIET", None,
            "cleanup as nested ifs with os.unlink"),
    Variant("quiet-persist-tree-output-name-helper", LF,
            "                fname = self.path\n                # If there is a suffix specified, then use it.s\n                if suffix:\n                    root, ext = os.path.splitext(fname)\n                    fname = root + suffix + ext\n",
            "                fname = self.path\n                if suffix:\n                    parts = os.path.splitext(self.path)\n                    fname = parts[0] + suffix + parts[1]\n", "QUIET", None,
            "suffix name built from an un-unpacked splitext result"),
    # behaviour-preserving refactors: must stay quiet (sweep)
    Variant(
        'quiet-mode-read-inside-the-try', LF,
        '        mode = None\n        try:\n            status = os.stat(input_path)\n        except FileNotFoundError:\n            pass\n        else:\n            if stat.S_ISREG(status.st_mode):\n                mode = stat.S_IMODE(status.st_mode)\n',
        '        mode = None\n        try:\n            status = os.stat(input_path)\n            if stat.S_ISREG(status.st_mode):\n                mode = stat.S_IMODE(status.st_mode)\n        except FileNotFoundError:\n            pass\n',
        "QUIET", None, 'try/except/else folded into the try body (S_ISREG/S_IMODE cannot raise FileNotFoundError)',
    ),
    Variant(
        'quiet-mode-via-st-mode-local', LF,
        '        mode = None\n        try:\n            status = os.stat(input_path)\n        except FileNotFoundError:\n            pass\n        else:\n            if stat.S_ISREG(status.st_mode):\n                mode = stat.S_IMODE(status.st_mode)\n',
        '        mode = None\n        try:\n            st_mode = os.stat(input_path).st_mode\n        except FileNotFoundError:\n            st_mode = None\n        if st_mode is not None and stat.S_ISREG(st_mode):\n            mode = stat.S_IMODE(st_mode)\n',
        "QUIET", None, 'st_mode read into a local, None when the original is missing',
    ),
    Variant(
        'quiet-split-result-indexed', LF,
        '        dirname, basename = os.path.split(output_path)\n',
        '        head_tail = os.path.split(output_path)\n        dirname = head_tail[0]\n        basename = head_tail[1]\n',
        "QUIET", None, 'os.path.split result kept whole and indexed',
    ),
    Variant(
        'quiet-fsync-through-fd-local', LF,
        '                os.fsync(tmp.fileno())\n',
        '                fd = tmp.fileno()\n                os.fsync(fd)\n',
        "QUIET", None, 'file descriptor through a local',
    ),
    Variant(
        'quiet-move-keyword-arguments', LF,
        '            shutil.move(tmp_name, output_path)\n',
        '            shutil.move(src=tmp_name, dst=output_path)\n',
        "QUIET", None, 'shutil.move arguments by keyword',
    ),
    Variant(
        'quiet-chmod-under-else', LF,
        '            if mode is not None:\n                os.chmod(tmp_name, mode)\n',
        '            if mode is None:\n                pass\n            else:\n                os.chmod(tmp_name, mode)\n',
        "QUIET", None, 'mode-known test inverted, chmod in the else arm',
    ),
    Variant(
        'quiet-cleanup-remove-in-try', LF,
        '            if tmp_name is not None and os.path.exists(tmp_name):\n                os.remove(tmp_name)\n            raise\n',
        '            if tmp_name is not None:\n                try:\n                    os.remove(tmp_name)\n                except FileNotFoundError:\n                    pass\n            raise\n',
        "QUIET", None, 'exists() test replaced by remove() in try/except FileNotFoundError',
    ),
    Variant(
        'quiet-cleanup-truthiness-of-name', LF,
        '            if tmp_name is not None and os.path.exists(tmp_name):\n                os.remove(tmp_name)\n            raise\n',
        '            if tmp_name and os.path.exists(tmp_name):\n                os.remove(tmp_name)\n            raise\n',
        "QUIET", None, '`is not None` spelled as truthiness (a temp name is never empty)',
    ),
    Variant(
        'quiet-bare-except', LF,
        '        except BaseException:\n',
        '        except:  # noqa: E722\n',
        "QUIET", None, 'bare except is the same catch-all',
    ),
    Variant(
        'quiet-temp-mode-positional', LF,
        '            with tempfile.NamedTemporaryFile(\n                mode="w",\n                encoding=encoding,\n',
        '            with tempfile.NamedTemporaryFile(\n                "w",\n                encoding=encoding,\n',
        "QUIET", None, 'mode passed positionally',
    ),
    Variant(
        'quiet-write-on-wrapper', LF,
        '                tmp.file.write(write_buff)\n',
        '                tmp.write(write_buff)\n',
        "QUIET", None, 'write on the NamedTemporaryFile wrapper (delegates to .file)',
    ),
    Variant(
        'quiet-persist-result-indexed', LF,
        '            write_buff, success = self.fix_string()\n\n            if success:\n',
        '            fixed = self.fix_string()\n            write_buff = fixed[0]\n            success = fixed[1]\n\n            if success:\n',
        "QUIET", None, 'fix_string() result kept whole and indexed',
    ),
    Variant(
        'quiet-output-name-built-unconditionally', LF,
        '                fname = self.path\n                # If there is a suffix specified, then use it.s\n                if suffix:\n                    root, ext = os.path.splitext(fname)\n                    fname = root + suffix + ext\n',
        '                root, ext = os.path.splitext(self.path)\n                fname = root + suffix + ext\n',
        "QUIET", None, "root + '' + ext is the original path: the name can be built unconditionally",
    ),
    Variant(
        'quiet-output-name-conditional-expression', LF,
        '                fname = self.path\n                # If there is a suffix specified, then use it.s\n                if suffix:\n                    root, ext = os.path.splitext(fname)\n                    fname = root + suffix + ext\n',
        '                root, ext = os.path.splitext(self.path)\n                fname = root + suffix + ext if suffix else self.path\n',
        "QUIET", None, 'if statement as a conditional expression',
    ),
    Variant(
        'quiet-output-name-f-string', LF,
        '                fname = self.path\n                # If there is a suffix specified, then use it.s\n                if suffix:\n                    root, ext = os.path.splitext(fname)\n                    fname = root + suffix + ext\n',
        '                fname = self.path\n                if suffix:\n                    root, ext = os.path.splitext(self.path)\n                    fname = f"{root}{suffix}{ext}"\n',
        "QUIET", None, 'concatenation as an f-string',
    ),
    Variant(
        'quiet-replace-call-keyword-arguments', LF,
        '                self._safe_create_replace_file(\n                    self.path, fname, write_buff, self.encoding\n                )\n',
        '                self._safe_create_replace_file(\n                    input_path=self.path,\n                    output_path=fname,\n                    write_buff=write_buff,\n                    encoding=self.encoding,\n                )\n',
        "QUIET", None, 'replacing function called with keyword arguments',
    ),
    Variant("quiet-temp-name-local-renamed", LF, "tmp_name", "staged_path", "QUIET", None, "temp-name local renamed everywhere", 7),
    Variant("quiet-input-path-parameter-renamed", LF, "input_path", "original_path", "QUIET", None, "positional parameter renamed (all callers pass it positionally)", 2),
    # breaking twins of the spellings accepted above
    Variant(
        'split-result-indexed-takes-the-basename', LF,
        '        dirname, basename = os.path.split(output_path)\n',
        '        head_tail = os.path.split(output_path)\n        dirname = head_tail[1]\n        basename = head_tail[1]\n',
        'R26a', None, 'breaking twin of the indexed-split spelling',
    ),
    Variant(
        'fsync-of-another-descriptor', LF,
        '                os.fsync(tmp.fileno())\n',
        '                fd = 1\n                os.fsync(fd)\n',
        'R26a', None, 'breaking twin of the fd-in-a-local spelling',
    ),
    Variant(
        'mode-local-read-from-output-path', LF,
        '        mode = None\n        try:\n            status = os.stat(input_path)\n        except FileNotFoundError:\n            pass\n        else:\n            if stat.S_ISREG(status.st_mode):\n                mode = stat.S_IMODE(status.st_mode)\n',
        '        mode = None\n        try:\n            st_mode = os.stat(output_path).st_mode\n        except FileNotFoundError:\n            st_mode = None\n        if st_mode is not None and stat.S_ISREG(st_mode):\n            mode = stat.S_IMODE(st_mode)\n',
        'R26c', None, 'breaking twin of the st_mode-in-a-local spelling',
    ),
    Variant(
        'persist-result-indexed-tests-the-text', LF,
        '            write_buff, success = self.fix_string()\n\n            if success:\n',
        '            fixed = self.fix_string()\n            write_buff = fixed[0]\n            success = bool(fixed[0])\n\n            if success:\n',
        'R26e', None, 'breaking twin of the indexed-result spelling: the flag is the fixed text, not the change flag',
    ),
    Variant("temp-in-system-tmpdir", LF, "                dir=dirname,\n", "", "R26a", "_safe_create_replace_file"),
    Variant("temp-deleted-on-close", LF, "                delete=False,\n", "                delete=True,\n", "R26a", "_safe_create_replace_file"),
    Variant("flush-dropped", LF, "                tmp.flush()\n", "", "R26a", "_safe_create_replace_file"),
    Variant("fsync-dropped", LF, "                os.fsync(tmp.fileno())\n", "", "R26a", "_safe_create_replace_file"),
    Variant(
        "rename-while-open", LF,
        "                os.fsync(tmp.fileno())\n            # Once the temp file is safely written, replace the existing file.\n            if mode is not None:\n                os.chmod(tmp_name, mode)\n            shutil.move(tmp_name, output_path)\n",
        "                os.fsync(tmp.fileno())\n                if mode is not None:\n                    os.chmod(tmp_name, mode)\n                shutil.move(tmp_name, output_path)\n",
        "R26a", "_safe_create_replace_file",
    ),
    Variant(
        "chmod-target-after-rename", LF,
        "            if mode is not None:\n                os.chmod(tmp_name, mode)\n            shutil.move(tmp_name, output_path)\n",
        "            shutil.move(tmp_name, output_path)\n            if mode is not None:\n                os.chmod(output_path, mode)\n",
        "R26a", "_safe_create_replace_file",
    ),
    Variant("rename-args-swapped", LF, "shutil.move(tmp_name, output_path)", "shutil.move(output_path, tmp_name)", "R26a", "_safe_create_replace_file"),
    Variant("copy-instead-of-rename", LF, "shutil.move(tmp_name, output_path)", "shutil.copyfile(tmp_name, output_path)", "R26a", "_safe_create_replace_file"),
    Variant(
        "target-removed-before-rename", LF,
        "            shutil.move(tmp_name, output_path)\n",
        "            os.remove(output_path)\n            shutil.move(tmp_name, output_path)\n",
        "R26a", "_safe_create_replace_file",
    ),
    Variant("except-exception-only", LF, "        except BaseException:\n", "        except Exception:\n", "R26b", "_safe_create_replace_file"),
    Variant(
        "cleanup-removed", LF,
        "            if tmp_name is not None and os.path.exists(tmp_name):\n                os.remove(tmp_name)\n            raise\n",
        "            raise\n",
        "R26b", "_safe_create_replace_file",
    ),
    Variant("handler-swallows", LF, "                os.remove(tmp_name)\n            raise\n", "                os.remove(tmp_name)\n", "R26b", "_safe_create_replace_file"),
    Variant(
        "temp-name-recorded-late", LF,
        "                tmp_name = tmp.name\n                tmp.file.write(write_buff)\n",
        "                tmp.file.write(write_buff)\n                tmp_name = tmp.name\n",
        "R26b", "_safe_create_replace_file",
    ),
    Variant("encoding-hardcoded", LF, "                encoding=encoding,\n", '                encoding="utf-8",\n', "R26c", "_safe_create_replace_file"),
    Variant("newline-translation", LF, '                newline="",  # NOTE: No newline conversion. Write as read.\n', "", "R26c", "_safe_create_replace_file"),
    Variant("mode-from-output-path", LF, "status = os.stat(input_path)", "status = os.stat(output_path)", "R26c", "_safe_create_replace_file"),
    Variant(
        "mode-not-applied", LF,
        "            if mode is not None:\n                os.chmod(tmp_name, mode)\n", "", "R26c", "_safe_create_replace_file",
    ),
    Variant(
        "suffix-args-swapped", LF,
        "                    self.path, fname, write_buff, self.encoding\n",
        "                    fname, self.path, write_buff, self.encoding\n",
        "R26d", "persist_tree",
    ),
    Variant(
        "suffix-ignored", LF,
        "                if suffix:\n                    root, ext = os.path.splitext(fname)\n                    fname = root + suffix + ext\n",
        "                if suffix and formatter:\n                    root, ext = os.path.splitext(fname)\n                    fname = root + suffix + ext\n",
        "R26d", "persist_tree",
    ),
    Variant(
        "original-opened-for-writing", LF,
        '                result_label = "FIXED"\n',
        '                open(self.path, "a").close()\n                result_label = "FIXED"\n',
        "R26e", "persist_tree",
    ),
    Variant(
        "write-even-if-unchanged", LF,
        "            if success:\n                fname = self.path\n",
        "            if True:\n                fname = self.path\n",
        "R26e", "persist_tree",
    ),
    Variant("persist-under-fix-flag", LINTER, "                if apply_fixes:\n", "                if fix:\n", "R26e", "lint_paths"),
    Variant(
        "new-writer-in-loader", LINTER,
        "        # Scan the raw file for config commands.\n        file_config.process_raw_file_for_config(raw_file, fname)\n        # Return the raw file and config\n",
        '        with open(fname, "w", encoding=encoding) as fh:\n            fh.write(raw_file)\n        file_config.process_raw_file_for_config(raw_file, fname)\n',
        "R26e", "load_raw_file_and_config",
    ),
    Variant(
        "pathlib-writer-in-runner", "src/sqlfluff/core/linter/linted_dir.py",
        "        buffer: dict[str, Union[bool, str]] = {}\n        for file in self.files:\n",
        "        buffer: dict[str, Union[bool, str]] = {}\n        for file in self.files:\n            __import__('pathlib').Path(file.path).touch()\n",
        "R26e", "persist_changes",
    ),
]
