"""C30 — edits are applied to disjoint source ranges exactly once.

The decided clause is the *wiring* that makes overlap impossible (DESIGN §3 C30):

R30a  ``merge_source_patches``: a patch is appended to the merged list only after the
      duplicate test and after the conflict test against *every* patch already kept;
      each kept patch is recorded in the duplicate buffer.
      Accepted idioms: ``if d in buf: continue`` / ``if d not in buf:`` with
      ``d = patch.dedupe_tuple()``; ``any(_patches_conflict(e, patch) for e in merged)``
      (either argument order) false, or ``all(not _patches_conflict(..) for e in merged)``.
R30b  the slicer ``_slice_source_file_using_patches`` is only ever called with a list
      that flows from a ``sorted(...)`` keyed on source start: the return value of
      ``generate_source_patches``, or the list built by the sorted iteration of
      ``merge_source_patches`` (through ``LintedFile.source_patches``).
      Accepted key idioms: ``lambda x: x.source_slice.start`` or a tuple starting with it.
R30c  inside the slicer a patch starting before the cursor is skipped before its own
      slice is emitted, and the cursor is advanced to the patch's stop afterwards.
R30d  the builder ``_build_up_fixed_source_string`` applies a patch only on exact slice
      equality, at most once per slice (``break``); unmatched slices are copied from the
      raw source string by their own slice; it receives the slicer's output and the same
      patch list the slicer saw.

Also read as the same facts (QUIET sweep): a list comprehension inside ``any``/``all``; ``lst.sort(key=..)``
on every path with no later change for ``sorted(lst, key=..)``; the patch's slice / start / replacement
text and the raw source string through a local; the builder collecting parts in a fresh list that only
grows by ``append`` and is joined once.

Not decided: that ``_patches_conflict``'s interval arithmetic is right for every pair.
"""

from __future__ import annotations

import ast

from ..cfg import cfg_of, origins
from ..idioms import expanded
from ..flowutil import (
    attr_chain, branch_of, callee, calls_to, compare_atoms, describe_origin, for_origin, is_fresh_list,
    is_fresh_set, must_pass, mutations_of, param_origin, sole_expr_origin, sorted_info, within, SortedInfo,
)
from ..index import AnalysisError, arg_of, call_name, calls_in, kwarg, last_attr, norm, short, walk_local

PATCH = "src/sqlfluff/core/linter/patch.py"
LFILE = "src/sqlfluff/core/linter/linted_file.py"
SLICER = "LintedFile._slice_source_file_using_patches"
BUILDER = "LintedFile._build_up_fixed_source_string"
START = "$.source_slice.start"


def _returned_local(chk, f, rule, what):
    """Name of the single local every ``return`` of ``f`` hands back (or None + finding)."""
    names = set()
    rets = [n for n in walk_local(f) if isinstance(n, ast.Return) and n.value is not None]
    for r in rets:
        if isinstance(r.value, ast.Name):
            names.add(r.value.id)
        else:
            names.add(None)
    if len(names) == 1 and None not in names:
        return names.pop(), rets
    return None, rets


def _sorted_view(f, cfg, e, at):
    """SortedInfo of the order the list ``e`` is in at ``at``: ``sorted(..)`` (in place or through a
    local), or a local list on which ``<list>.sort(key=..)`` ran on every path to ``at`` with no
    in-place change and no re-binding of the list between that sort and ``at``."""
    v = sole_expr_origin(cfg, e, at) if e is not None else None
    si = sorted_info(v)
    if si is not None or not isinstance(e, ast.Name):
        return si
    rd = cfg.reaching()
    muts = mutations_of(f, e.id)
    for k, c in muts:
        if k != "sort" or c.args:
            continue
        s_ = cfg.stmt_of(c)
        if not (isinstance(s_, ast.Expr) and s_.value is c and cfg.dominates(s_, at)):
            continue
        if rd.defs_at(s_, e.id) != rd.defs_at(at, e.id):
            continue
        later = [m for _, m in muts if m is not c and cfg.reaches(s_, cfg.stmt_of(m)) and cfg.reaches(cfg.stmt_of(m), at)]
        if later:
            continue
        return SortedInfo(c)
    return None


def _join_of(e):
    """``N`` when ``e`` is ``"".join(N)``."""
    if isinstance(e, ast.Call) and isinstance(e.func, ast.Attribute) and e.func.attr == "join" and isinstance(e.func.value, ast.Constant) and e.func.value.value == "" and len(e.args) == 1 and not e.keywords and isinstance(e.args[0], ast.Name):
        return e.args[0]
    return None


def _start_keyed(si) -> bool:
    return si is not None and si.components is not None and si.components[0] == START and si.ascending


def run(chk) -> None:
    repo = chk.repo
    chk.rule("R30a", "a patch enters the merged cross-variant list only after the duplicate test and the conflict test against every kept patch")
    chk.rule("R30b", "the source slicer only ever receives a patch list that flows from a sort on source start")
    chk.rule("R30c", "in the slicer a patch starting before the cursor is skipped before its slice is emitted; the cursor then moves to the patch's stop")
    chk.rule("R30d", "the builder applies a patch only on exact slice equality and at most once per slice; other slices are copied raw by their own slice")
    _r30a(chk, repo)
    _r30b(chk, repo)
    _r30c(chk, repo)
    _r30d(chk, repo)
    chk.rule("R30e", "two patches for the same source range that are not duplicates always conflict: under `first.source_slice == second.source_slice` _patches_conflict returns `first.fixed_raw != second.fixed_raw` (the identity the duplicate test uses) or True, nothing normalised")
    chk.rule("R30f", "in the slicer the head of the source-only stack is compared with the patch only after the source-only slices before the patch have been flushed: the flush loop precedes the equality pop in every iteration")
    _r30e(chk, repo)
    _r30f(chk, repo)
    chk.rule("R30j", "in the slicer every source-only slice that STARTS before the patch is flushed ahead of it: the flush loop's test compares the start of the stack's head (source_idx / source_slice().start) strictly (<) with the patch's source start -- so a patch that begins inside a tag or comment meets a cursor beyond its start and is skipped by the R30c guard instead of being cut into the tag")
    _r30j(chk, repo)
    chk.rule("R30g", "two patches are duplicates exactly when they make the same edit: FixPatch.dedupe_tuple() is built from the source range and the replacement text and nothing else (the identity _patches_conflict uses for same-range patches)")
    chk.rule("R30h", "the slicer drops the head of the source-only stack whenever it covers exactly the range of the patch: the equality pop is conditioned on the stack being non-empty and that equality only")
    _r30g(chk, repo)
    _r30h(chk, repo)
    chk.rule("R30i", "two patches with different ranges conflict exactly when the ranges overlap, whichever comes first: the general return of _patches_conflict is the symmetric interval test max(starts) < min(stops) (or a.start < b.stop and b.start < a.stop)")
    _r30i(chk, repo)


def _r30i(chk, repo) -> None:
    f = repo.fn(PATCH, "_patches_conflict")
    cfg = cfg_of(f)
    rets = [r for r in walk_local(f) if isinstance(r, ast.Return) and r.value is not None]
    last = max(rets, key=lambda r: r.lineno)

    def leaf(e):
        """('first'|'second', 'start'|'stop') of a bound, through int() and locals."""
        if isinstance(e, ast.Name):
            os_ = origins(cfg, e, last)
            if len(os_) == 1 and os_[0].kind == "expr":
                return leaf(os_[0].expr)
            return None
        if isinstance(e, ast.Call) and call_name(e) == "int" and len(e.args) == 1:
            return leaf(e.args[0])
        if isinstance(e, ast.Attribute) and e.attr in ("start", "stop") and isinstance(e.value, ast.Attribute) and e.value.attr == "source_slice" and isinstance(e.value.value, ast.Name):
            return (e.value.value.id, e.attr)
        return None

    v = last.value
    ok = False
    if isinstance(v, ast.Compare) and len(v.ops) == 1 and isinstance(v.ops[0], ast.Lt):
        l, r = v.left, v.comparators[0]
        if isinstance(l, ast.Call) and call_name(l) == "max" and isinstance(r, ast.Call) and call_name(r) == "min" and len(l.args) == 2 and len(r.args) == 2:
            ls, rs = {leaf(a) for a in l.args}, {leaf(a) for a in r.args}
            who = {x[0] for x in ls | rs if x}
            ok = None not in ls | rs and len(who) == 2 and {x[1] for x in ls} == {"start"} and {x[1] for x in rs} == {"stop"} and {x[0] for x in ls} == who and {x[0] for x in rs} == who
    if isinstance(v, ast.BoolOp) and isinstance(v.op, ast.And) and len(v.values) == 2 and all(isinstance(c, ast.Compare) and len(c.ops) == 1 and isinstance(c.ops[0], ast.Lt) for c in v.values):
        pairs = [(leaf(c.left), leaf(c.comparators[0])) for c in v.values]
        if all(a and b for a, b in pairs):
            who = {a[0] for a, b in pairs} | {b[0] for a, b in pairs}
            ok = len(who) == 2 and all(a[1] == "start" and b[1] == "stop" and a[0] != b[0] for a, b in pairs) and {a[0] for a, b in pairs} == who
    chk.require(
        ok, "R30i", last,
        f"the general case of _patches_conflict returns `{short(v, 60)}`, not the symmetric overlap test: for some order or shape of two overlapping ranges (same start, different lengths) it "
        "answers 'no conflict' and both edits are merged",
        detail="_patches_conflict: symmetric interval overlap in the general case",
    )


def _r30g(chk, repo) -> None:
    f = repo.fn(PATCH, "FixPatch.dedupe_tuple")
    rets = [r for r in walk_local(f) if isinstance(r, ast.Return) and r.value is not None]
    if not rets:
        raise AnalysisError("R30g: FixPatch.dedupe_tuple has no return; re-confirm the anchor by hand")
    for r in rets:
        attrs = sorted({x.attr for x in ast.walk(r.value) if isinstance(x, ast.Attribute) and isinstance(x.value, ast.Name) and x.value.id == "self"})
        extra = [a for a in attrs if a not in ("source_slice", "fixed_raw")]
        chk.require(
            "source_slice" in attrs and "fixed_raw" in attrs and not extra, "R30g", r,
            f"dedupe_tuple() is built from {attrs}: with {extra or 'a field missing'} the same edit reported twice (two variants, two categories) is no longer recognised as one, both copies "
            "are merged (identical text is not a conflict) and an insertion is applied twice",
            detail="dedupe_tuple: source range and replacement text only",
        )


def _r30h(chk, repo) -> None:
    from ..idioms import conditions_at

    f = repo.fn(LFILE, "LintedFile._slice_source_file_using_patches")
    cfg = cfg_of(f)
    n = 0
    for l in [l for l in walk_local(f) if isinstance(l, ast.For)]:
        lvars = {x.id for x in ast.walk(l.target) if isinstance(x, ast.Name)}
        for c in [c for c in ast.walk(l) if isinstance(c, ast.Call) and last_attr(c) == "pop" and isinstance(c.func, ast.Attribute) and isinstance(c.func.value, ast.Name)]:
            st = cfg.stmt_of(c)
            if any(isinstance(p_, ast.While) for p_ in _anc(c, l)):
                continue  # the flush loop
            stack = c.func.value.id
            conds = conditions_at(cfg, st)
            eq = [e for e, pol in conds if pol and isinstance(e, ast.Compare) and len(e.ops) == 1 and isinstance(e.ops[0], ast.Eq) and stack in {x.id for x in ast.walk(e) if isinstance(x, ast.Name)}]
            if not eq:
                continue
            n += 1
            extra = []
            for e, pol in conds:
                if any(e is q for q in eq):
                    continue
                names = {x.id for x in ast.walk(e) if isinstance(x, ast.Name)}
                if isinstance(e, ast.Name) and e.id == stack and pol:
                    continue  # the stack is non-empty
                if not pol and any(isinstance(w, ast.While) and (w.test is e or norm(w.test) == norm(e)) for w in ast.walk(l)):
                    continue  # the flush loop has run to its end
                if names & lvars:
                    extra.append(("" if pol else "not ") + short(e, 40))
            chk.require(
                not extra, "R30h", st,
                f"the head of `{stack}` is dropped only if, besides covering the patch's range, {extra} holds: a patch for which it does not leaves the covered slice on the stack, the next "
                "flush emits that range a second time and the replacement is applied twice",
                detail="slicer: equality pop depends on the equality only",
            )
    chk.count("R30h.equality_pops", n)
    chk.floor("R30h.equality_pops", 1)


def _anc(node, stop):
    p_ = getattr(node, "_parent", None)
    while p_ is not None and p_ is not stop:
        yield p_
        p_ = getattr(p_, "_parent", None)


def _r30e(chk, repo) -> None:
    from ..idioms import conditions_at

    f = repo.fn(PATCH, "_patches_conflict")
    cfg = cfg_of(f)
    ps = [a.arg for a in f.args.args]
    if len(ps) != 2:
        raise AnalysisError("R30e: _patches_conflict no longer takes two patches; re-confirm the anchor by hand")

    def attr_of_param(e, at, attr):
        """parameter name when ``e`` is ``<param>.<attr>`` (read directly or through a local)."""
        if isinstance(e, ast.Name):
            x = sole_expr_origin(cfg, e, at)
            if x is None or isinstance(x, ast.Name):
                return None
            e = x
        if isinstance(e, ast.Attribute) and e.attr == attr and isinstance(e.value, ast.Name):
            return param_origin(cfg, e.value, at)
        return None

    def same_slice_known(st) -> bool:
        for e, pol in conditions_at(cfg, st):
            if pol and isinstance(e, ast.Compare) and len(e.ops) == 1 and isinstance(e.ops[0], ast.Eq):
                a, b = attr_of_param(e.left, st, "source_slice"), attr_of_param(e.comparators[0], st, "source_slice")
                if a and b and {a, b} == set(ps):
                    return True
        return False

    n = 0
    for r in [r for r in walk_local(f) if isinstance(r, ast.Return) and r.value is not None]:
        if not same_slice_known(r):
            continue
        n += 1
        v, neg = r.value, False
        for _ in range(4):
            if isinstance(v, ast.UnaryOp) and isinstance(v.op, ast.Not):
                v, neg = v.operand, not neg
            elif isinstance(v, ast.Name):
                x = sole_expr_origin(cfg, v, r)
                if x is None or x is v:
                    break
                v = x
            else:
                break
        ok = isinstance(v, ast.Constant) and v.value is True and not neg
        if isinstance(v, ast.Compare) and len(v.ops) == 1 and isinstance(v.ops[0], ast.Eq if neg else ast.NotEq):
            a, b = attr_of_param(v.left, r, "fixed_raw"), attr_of_param(v.comparators[0], r, "fixed_raw")
            ok = bool(a and b and {a, b} == set(ps))
        chk.require(
            ok, "R30e", r,
            f"for two patches with the same source range _patches_conflict returns `{short(r.value, 60)}`, not `first.fixed_raw != second.fixed_raw`: two different replacements of one "
            "range (for an empty range: two insertions at one point) can both be kept, the slicer emits the range twice and the builder applies the first patch to both",
            detail="_patches_conflict: same range -> conflict unless the replacement text is identical",
        )
    chk.count("R30e.same_range_returns", n)
    chk.floor("R30e.same_range_returns", 1)


def _r30j(chk, repo) -> None:
    from ..cfg import atoms as _atoms

    f = repo.fn(LFILE, "LintedFile._slice_source_file_using_patches")
    cfg = cfg_of(f)
    n = 0

    def head_start(e, stack) -> bool:
        # <stack>[0].source_idx  |  <stack>[0].source_slice().start
        if isinstance(e, ast.Attribute) and e.attr == "source_idx":
            b = e.value
        elif isinstance(e, ast.Attribute) and e.attr == "start" and isinstance(e.value, ast.Call) and last_attr(e.value) == "source_slice" and isinstance(e.value.func, ast.Attribute):
            b = e.value.func.value
        else:
            return False
        return isinstance(b, ast.Subscript) and isinstance(b.value, ast.Name) and b.value.id == stack and isinstance(b.slice, ast.Constant) and b.slice.value == 0

    def patch_start(e, var) -> bool:
        return isinstance(e, ast.Attribute) and e.attr == "start" and isinstance(e.value, ast.Attribute) and e.value.attr == "source_slice" and isinstance(e.value.value, ast.Name) and e.value.value.id == var

    for l in [l for l in walk_local(f) if isinstance(l, ast.For) and isinstance(l.target, ast.Name)]:
        for w in [w for w in ast.walk(l) if isinstance(w, ast.While)]:
            pops = [c for c in ast.walk(w) if isinstance(c, ast.Call) and last_attr(c) == "pop" and isinstance(c.func, ast.Attribute) and isinstance(c.func.value, ast.Name)]
            if not pops:
                continue
            stack = pops[0].func.value.id
            n += 1
            ok = False
            for e, pol in _atoms(expanded(cfg, w.test, w), True):
                if not (pol and isinstance(e, ast.Compare) and len(e.ops) == 1):
                    continue
                a, b, op = e.left, e.comparators[0], e.ops[0]
                if (isinstance(op, ast.Lt) and head_start(a, stack) and patch_start(b, l.target.id)) or (isinstance(op, ast.Gt) and head_start(b, stack) and patch_start(a, l.target.id)):
                    ok = True
            chk.require(
                ok, "R30j", w,
                f"the slicer's flush loop over `{stack}` is not conditioned on `{stack}[0]` STARTING strictly before the patch (`{short(w.test, 90)}`): a tag or comment that begins before "
                "the patch and runs past its start stays on the stack, the cursor stays before the patch, the overlap guard never fires, and the tag's prefix is emitted twice with the edit cut into the tag",
                detail="slicer: flush while head.start < patch.start", construct=f"{LFILE}::LintedFile._slice_source_file_using_patches",
            )
    chk.count("R30j.flush_loops", n)
    chk.floor("R30j.flush_loops", 1)


def _r30f(chk, repo) -> None:
    from ..idioms import conditions_at

    f = repo.fn(LFILE, "LintedFile._slice_source_file_using_patches")
    cfg = cfg_of(f)
    n = 0
    for l in [l for l in walk_local(f) if isinstance(l, ast.For)]:
        pops = []
        for c in [c for c in ast.walk(l) if isinstance(c, ast.Call) and last_attr(c) == "pop" and isinstance(c.func, ast.Attribute) and isinstance(c.func.value, ast.Name)]:
            st = cfg.stmt_of(c)
            stack = c.func.value.id
            eq = False
            for e, pol in conditions_at(cfg, st):
                if pol and isinstance(e, ast.Compare) and len(e.ops) == 1 and isinstance(e.ops[0], ast.Eq) and stack in {x.id for x in ast.walk(e) if isinstance(x, ast.Name)} \
                        and any(isinstance(x, ast.Attribute) and x.attr == "source_slice" for x in ast.walk(e)):
                    eq = True
            if eq:
                pops.append((st, stack))
        for st, stack in pops:
            n += 1
            flushes = [w for w in ast.walk(l) if isinstance(w, ast.While) and stack in {x.id for x in ast.walk(w.test) if isinstance(x, ast.Name)}
                       and any(isinstance(c, ast.Call) and last_attr(c) == "pop" and isinstance(c.func.value, ast.Name) and c.func.value.id == stack for c in ast.walk(w))]
            if not flushes:
                raise AnalysisError(f"R30f: no flush loop over `{stack}` found in the slicer's patch loop (moved into a helper?); re-confirm the anchor by hand")
            ok = any(cfg.dominates(w, st) for w in flushes)
            chk.require(
                ok, "R30f", st,
                f"the slicer compares the patch with the head of `{stack}` (and pops it on equality) before the source-only slices that start before the patch have been flushed: the head "
                "is then an earlier tag, nothing is popped, and the replaced tag's range is emitted a second time by the next flush (the source fix is applied twice)",
                detail="slicer: equality pop after the flush of earlier source-only slices",
            )
    chk.count("R30f.equality_pops", n)
    chk.floor("R30f.equality_pops", 1)


# ---------------------------------------------------------------------------
def _merge_facts(chk, repo):
    f = repo.fn(PATCH, "merge_source_patches")
    cfg = cfg_of(f)
    merged, rets = _returned_local(chk, f, "R30a", "merged list")
    return f, cfg, merged, rets


def _r30a(chk, repo) -> None:
    f, cfg, merged, rets = _merge_facts(chk, repo)
    conflict_fn = repo.fn(PATCH, "_patches_conflict")
    if merged is None:
        chk.fail("R30a", f, "merge_source_patches does not return one local list built under the tests", detail="merged list returned")
        return
    for r in rets:
        os_ = origins(cfg, r.value, r)
        chk.require(
            bool(os_) and all(o.kind == "expr" and is_fresh_list(o.expr) for o in os_), "R30a", r,
            "the merged list handed back is not a list created inside the function (patches may bypass the tests)",
            detail="merged list is fresh",
        )
    muts = mutations_of(f, merged)
    appends = [n for k, n in muts if k == "append"]
    chk.count("R30a.merge_append_sites", len(appends))
    for k, n in muts:
        if k != "append":
            chk.fail("R30a", n, f"merged patch list changed by '{k}', which bypasses the duplicate and conflict tests", detail=f"merged list {k}: {short(n, 80)}")
    chk.floor("R30a.merge_append_sites", 1)
    for call in appends:
        st = cfg.stmt_of(call)
        p = call.args[0] if call.args else None
        fo = for_origin(cfg, p, st)
        if fo is None:
            chk.fail("R30a", call, "appended value is not the patch currently iterated", detail="append: iterated patch")
            continue
        loop = fo[0]
        conds = _expanded_conditions(cfg, st)
        # -- duplicate test ------------------------------------------------
        dup_ok, buf, dnode = False, None, None
        for e, pol in conds:
            if isinstance(e, ast.Compare) and len(e.ops) == 1 and (
                (isinstance(e.ops[0], ast.In) and not pol) or (isinstance(e.ops[0], ast.NotIn) and pol)
            ):
                d = sole_expr_origin(cfg, e.left, cfg.stmt_of(e))
                if (
                    isinstance(d, ast.Call) and last_attr(d) == "dedupe_tuple" and isinstance(d.func, ast.Attribute)
                    and for_origin(cfg, d.func.value, cfg.stmt_of(d)) == fo and isinstance(e.comparators[0], ast.Name)
                ):
                    dup_ok, buf, dnode = True, e.comparators[0], d
        chk.require(dup_ok, "R30a", call, "patch appended to the merged list without a dominating duplicate test on its (source range, text) tuple", detail="append: duplicate test")
        if dup_ok:
            bo = origins(cfg, buf, cfg.stmt_of(buf))
            fresh = bool(bo) and all(o.kind == "expr" and is_fresh_set(o.expr) for o in bo)
            rec = False
            for c in calls_in(f):
                if last_attr(c) == "add" and isinstance(c.func, ast.Attribute) and isinstance(c.func.value, ast.Name) and c.func.value.id == buf.id and c.args:
                    d2 = sole_expr_origin(cfg, c.args[0], cfg.stmt_of(c))
                    a = cfg.stmt_of(c)
                    if d2 is dnode or (isinstance(d2, ast.Call) and last_attr(d2) == "dedupe_tuple" and for_origin(cfg, d2.func.value, cfg.stmt_of(d2)) == fo):
                        if (cfg.dominates(st, a) and must_pass(cfg, st, loop, [a])) or (cfg.dominates(a, st) and must_pass(cfg, a, loop, [st])):
                            rec = True
            chk.require(fresh and rec, "R30a", call, "a kept patch is not recorded in the duplicate buffer (or the buffer is not local to this merge)", detail="append: kept patch recorded")
        # -- conflict test ---------------------------------------------------
        conf_ok = False
        for e, pol in conds:
            if not (isinstance(e, ast.Call) and e.args and isinstance(e.args[0], (ast.GeneratorExp, ast.ListComp))):
                continue
            fn = call_name(e)
            gen = e.args[0]
            if len(gen.generators) != 1 or gen.generators[0].ifs:
                continue
            g = gen.generators[0]
            if not (isinstance(g.iter, ast.Name) and g.iter.id == merged and isinstance(g.target, ast.Name)):
                continue
            elt = gen.elt
            neg = False
            if isinstance(elt, ast.UnaryOp) and isinstance(elt.op, ast.Not):
                elt, neg = elt.operand, True
            if not (isinstance(elt, ast.Call) and (callee(repo, elt) or (None, None))[1] is conflict_fn and len(elt.args) == 2 and not elt.keywords):
                continue
            a0, a1 = elt.args
            names = [a0, a1]
            has_existing = sum(isinstance(x, ast.Name) and x.id == g.target.id for x in names) == 1
            other = [x for x in names if not (isinstance(x, ast.Name) and x.id == g.target.id)]
            has_patch = len(other) == 1 and for_origin(cfg, other[0], cfg.stmt_of(e)) == fo
            if has_existing and has_patch and ((fn == "any" and not neg and not pol) or (fn == "all" and neg and pol)):
                conf_ok = True
        if not conf_ok:
            conf_ok = _flag_loop_conflict_test(repo, cfg, f, conds, merged, fo, conflict_fn)
        chk.require(
            conf_ok, "R30a", call,
            "patch appended to the merged list without a dominating conflict test against every patch already kept",
            detail="append: conflict test against every kept patch",
        )
        chk.sample({"rule": "R30a", "site": f"{PATCH}:{call.lineno}", "append": short(call, 60), "guards": [f"{short(e, 70)} is {pol}" for e, pol in conds]})


def _expanded_conditions(cfg, st):
    """cfg.conditions(st) with boolean locals replaced by the test they were bound to
    (``seen = k in buf; if seen: continue``), recursively through and/or/not."""
    from ..cfg import atoms as _atoms

    out = []

    def go(e, pol, at, depth):
        if isinstance(e, ast.Name) and depth < 4:
            os_ = origins(cfg, e, at)
            if len(os_) == 1 and os_[0].kind == "expr" and not os_[0].path and isinstance(os_[0].expr, (ast.Compare, ast.BoolOp, ast.UnaryOp, ast.Call)):
                for e2, p2 in _atoms(os_[0].expr, pol):
                    go(e2, p2, os_[0].stmt, depth + 1)
                return
        out.append((e, pol))

    for g in cfg.guards(st):
        if isinstance(g.stmt, (ast.If, ast.While)):
            for e, pol in _atoms(g.stmt.test, g.polarity):
                go(e, pol, g.stmt, 0)
    return out


def _flag_loop_conflict_test(repo, cfg, f, conds, merged: str, fo, conflict_fn) -> bool:
    """The conflict test spelled as a loop with a flag::

        clash = False
        for existing in <merged>:
            if _patches_conflict(existing, patch):
                clash = True        # optionally: break
        if clash: continue

    Accepted when a dominating condition is ``<flag>`` false, the flag's only definitions are a
    False constant and True constants, every True store sits in a ``for`` over the merged list
    (unfiltered, the test being the first statement of its body) under a positive call of the
    conflict function on (loop element, iterated patch) in either order."""
    for e, pol in conds:
        if not (isinstance(e, ast.Name) and not pol):
            continue
        defs = [n for n in walk_local(f) if isinstance(n, ast.Assign) and any(isinstance(t, ast.Name) and t.id == e.id for t in n.targets)]
        others = [n for n in walk_local(f) if isinstance(n, (ast.AugAssign, ast.AnnAssign, ast.For, ast.With, ast.NamedExpr)) and any(
            isinstance(x, ast.Name) and x.id == e.id and isinstance(getattr(x, "ctx", None), ast.Store) for x in ast.walk(n) if not isinstance(x, ast.stmt) or x is n)]
        if not defs or any(not isinstance(d.value, ast.Constant) or d.value.value not in (True, False) for d in defs):
            continue
        if any(isinstance(n, (ast.AugAssign, ast.AnnAssign, ast.NamedExpr)) for n in others):
            continue
        trues = [d for d in defs if d.value.value is True]
        falses = [d for d in defs if d.value.value is False]
        if not trues or not falses:
            continue
        ok = True
        for d in trues:
            lp = getattr(d, "_parent", None)
            test_if = None
            while lp is not None and not isinstance(lp, ast.For):
                if isinstance(lp, ast.If) and test_if is None:
                    test_if = lp
                lp = getattr(lp, "_parent", None)
            if not (isinstance(lp, ast.For) and isinstance(lp.iter, ast.Name) and lp.iter.id == merged and isinstance(lp.target, ast.Name) and test_if is not None and lp.body and lp.body[0] is test_if):
                ok = False
                break
            t = test_if.test
            if not (isinstance(t, ast.Call) and (callee(repo, t) or (None, None))[1] is conflict_fn and len(t.args) == 2 and not t.keywords and d in test_if.body):
                ok = False
                break
            names = list(t.args)
            has_existing = sum(isinstance(x, ast.Name) and x.id == lp.target.id for x in names) == 1
            other = [x for x in names if not (isinstance(x, ast.Name) and x.id == lp.target.id)]
            if not (has_existing and len(other) == 1 and for_origin(cfg, other[0], test_if) == fo):
                ok = False
                break
            # the reset to False happens in the same iteration of the patch loop, before this inner loop
            if not any(cfg.dominates(fz, lp) and any(p is fo[0] for p in _parents_of(fz)) for fz in falses):
                ok = False
                break
        if ok:
            return True
    return False


def _parents_of(n):
    p = getattr(n, "_parent", None)
    while p is not None:
        yield p
        p = getattr(p, "_parent", None)


# ---------------------------------------------------------------------------
def _r30b(chk, repo) -> None:
    gen = repo.fn(PATCH, "generate_source_patches")
    merge = repo.fn(PATCH, "merge_source_patches")
    slicer = repo.fn(LFILE, SLICER)
    lf_cls = repo.cls(LFILE, "LintedFile")

    # (1) generate_source_patches hands back a sort on source start
    rets = [n for n in walk_local(gen) if isinstance(n, ast.Return)]
    chk.count("R30b.generate_returns", len(rets))
    chk.floor("R30b.generate_returns", 1)
    gcfg = cfg_of(gen)
    for r in rets:
        chk.require(
            _start_keyed(_sorted_view(gen, gcfg, r.value, r)), "R30b", r,
            "generate_source_patches returns a list that is not sorted (ascending) on the patches' source start",
            detail="generate_source_patches returns sorted(key=source start)",
        )
    # (2) the merged list is filled only while iterating a sort on source start
    f, cfg, merged, _ = _merge_facts(chk, repo)
    if merged is not None:
        for k, n in mutations_of(f, merged):
            if k != "append":
                continue
            st = cfg.stmt_of(n)
            fo = for_origin(cfg, n.args[0] if n.args else None, st)
            chk.require(
                fo is not None and not fo[1] and _start_keyed(_sorted_view(f, cfg, fo[0].iter, fo[0])), "R30b", n,
                "the merged list is not filled in the order of a sort on source start",
                detail="merge_source_patches appends in sorted(key=source start) order",
            )
    # (3) every list stored as LintedFile.source_patches comes from one of the two
    field_ok_targets = (gen, merge)
    n_ctor = 0
    for call in _constructions(repo, lf_cls):
        n_ctor += 1
        fn = _enclosing_fn(call)
        v = arg_of(call, 7, "source_patches")
        if any(isinstance(a, ast.Starred) for a in call.args) or any(k.arg is None for k in call.keywords):
            chk.fail("R30b", call, "LintedFile built from unpacked arguments: the stored patch list cannot be traced", detail="LintedFile(*/**)")
            continue
        if v is None:
            chk.ok("R30b", f"{call._module.relpath}::{getattr(fn, '_qualname', '?')}", "LintedFile without stored patches")
            continue
        ccfg = cfg_of(fn)
        os_ = origins(ccfg, v, ccfg.stmt_of(call))
        for o in os_:
            good = o.kind == "expr" and not o.path and (
                (isinstance(o.expr, ast.Constant) and o.expr.value is None)
                or (isinstance(o.expr, ast.Call) and (callee(repo, o.expr) or (None, None))[1] in field_ok_targets)
            )
            chk.require(
                good, "R30b", call,
                f"LintedFile.source_patches may be {describe_origin(o)}, which is not the output of generate_source_patches / merge_source_patches",
                detail=f"LintedFile.source_patches <- {describe_origin(o)}",
            )
        if isinstance(v, ast.Name):
            for k, n in mutations_of(fn, v.id):
                chk.fail("R30b", n, f"patch list changed by '{k}' after it was sorted/merged", detail=f"stored patch list {k}")
    chk.count("R30b.lintedfile_constructions", n_ctor)
    chk.floor("R30b.lintedfile_constructions", 1)
    for m in repo.iter_modules():
        if "_replace" not in m.text:
            continue
        for c in ast.walk(m.tree):
            if isinstance(c, ast.Call) and last_attr(c) == "_replace" and kwarg(c, "source_patches") is not None:
                chk.fail("R30b", c, "source_patches replaced on an existing record outside the sorted/merged flow", detail="_replace(source_patches=...)")
    # (4) the call sites of the slicer
    sites = list(calls_to(repo, slicer))
    for m in repo.iter_modules():  # unresolved receivers calling the same name still count
        if slicer.name in m.text:
            for c in ast.walk(m.tree):
                if isinstance(c, ast.Call) and last_attr(c) == slicer.name and all(c is not s for s in sites):
                    sites.append(c)
    chk.count("R30b.slicer_call_sites", len(sites))
    chk.floor("R30b.slicer_call_sites", 1)
    for call in sites:
        fn = _enclosing_fn(call)
        ccfg = cfg_of(fn)
        a0 = arg_of(call, 0, "source_patches")
        os_ = origins(ccfg, a0, ccfg.stmt_of(call)) if a0 is not None else []
        if not os_:
            chk.fail("R30b", call, "slicer called without a traceable patch list", detail="slicer arg: none")
        for o in os_:
            good = False
            if o.kind == "expr" and not o.path:
                e = o.expr
                if isinstance(e, ast.Call) and (callee(repo, e) or (None, None))[1] in (gen, merge):
                    good = True
                elif attr_chain(e) == ("self", "source_patches") and _enclosing_class(call) is lf_cls:
                    good = True
            chk.require(
                good, "R30b", call,
                f"slicer receives a patch list that may be {describe_origin(o)}; it does not flow from a sort on source start",
                detail=f"slicer patches <- {describe_origin(o)}",
            )
        if isinstance(a0, ast.Name):
            for k, n in mutations_of(fn, a0.id):
                chk.fail("R30b", n, f"patch list changed by '{k}' between sorting and slicing", detail=f"slicer patch list {k}")
        chk.sample({"rule": "R30b", "site": f"{call._module.relpath}:{call.lineno}", "patch_list_origins": [describe_origin(o) for o in os_]})


def _enclosing_fn(node):
    from ..index import FuncNode

    p = getattr(node, "_parent", None)
    while p is not None and not isinstance(p, FuncNode):
        p = getattr(p, "_parent", None)
    if p is None:
        raise AnalysisError(f"call outside a function at {node._module.relpath}:{node.lineno}")
    return p


def _enclosing_class(node):
    p = getattr(node, "_parent", None)
    while p is not None and not isinstance(p, ast.ClassDef):
        p = getattr(p, "_parent", None)
    return p


def _constructions(repo, cls):
    """Calls that build an instance of ``cls`` (by resolved name, or ``cls(...)`` inside it)."""
    for m in repo.iter_modules():
        if cls.name not in m.text:
            continue
        for c in ast.walk(m.tree):
            if not isinstance(c, ast.Call):
                continue
            r = callee(repo, c)
            if r is not None and r[1] is cls:
                yield c
            elif isinstance(c.func, ast.Name) and c.func.id == "cls" and _enclosing_class(c) is cls:
                yield c
            elif isinstance(c.func, ast.Attribute) and c.func.attr == "_make" and (repo.resolve_name(m, norm(c.func.value)) or (None, None))[1] is cls:
                yield c


# ---------------------------------------------------------------------------
def _r30c(chk, repo) -> None:
    f = repo.fn(LFILE, SLICER)
    cfg = cfg_of(f)
    params = [a.arg for a in f.args.args if a.arg not in ("self", "cls")]
    if not params:
        raise AnalysisError("slicer has no parameters")
    out, rets = _returned_local(chk, f, "R30c", "slice list")
    if out is None:
        chk.fail("R30c", f, "slicer does not return one local slice list", detail="slice list returned")
        return
    loops = [n for n in walk_local(f) if isinstance(n, ast.For) and param_origin(cfg, n.iter, n) == params[0]]
    chk.count("R30c.patch_loops", len(loops))
    chk.floor("R30c.patch_loops", 1)
    emits = []
    for k, n in mutations_of(f, out):
        if k != "append" or not n.args:
            continue
        ch = expanded(cfg, n.args[0], cfg.stmt_of(n))  # `ps = patch.source_slice; out.append(ps)` reads as the attribute
        if isinstance(ch, ast.Attribute) and ch.attr == "source_slice" and isinstance(ch.value, ast.Name):
            fo = for_origin(cfg, ch.value, cfg.stmt_of(n))
            if fo and fo[0] in loops and not fo[1]:
                emits.append((n, fo))
    chk.count("R30c.patch_slice_emits", len(emits))
    chk.floor("R30c.patch_slice_emits", 1)
    for n, fo in emits:
        st = cfg.stmt_of(n)
        loop = fo[0]
        guard_cursor = None
        for e0, pol in compare_atoms(cfg, st):
            e_at = cfg.stmt_of(e0)
            # one side is the patch's start (in place or read into a local), the other the cursor local
            for a, b, flip in ((e0.left, e0.comparators[0], False), (e0.comparators[0], e0.left, True)):
                if not isinstance(b, ast.Name):
                    continue
                ax = expanded(cfg, a, e_at)
                ch = attr_chain(ax)
                if not (ch and ch[1:] == ("source_slice", "start") and for_origin(cfg, ax.value.value, e_at) == fo):
                    continue
                op = e0.ops[0]
                if flip:  # normalise to  start (<|>=) cursor
                    op = {ast.Gt: ast.Lt, ast.Lt: ast.Gt, ast.GtE: ast.LtE, ast.LtE: ast.GtE}.get(type(op), type(op))()
                if (isinstance(op, ast.Lt) and not pol) or (isinstance(op, ast.GtE) and pol):
                    guard_cursor = b.id
        chk.require(
            guard_cursor is not None, "R30c", n,
            "the patch's slice is emitted without a dominating test that the patch does not start before the cursor (an overlapping patch would be applied on top of text already covered)",
            detail="emit: patch starting before the cursor is skipped first",
        )
        adv = []
        for a in walk_local(loop):
            if isinstance(a, ast.Assign) and len(a.targets) == 1 and isinstance(a.targets[0], ast.Name):
                av = expanded(cfg, a.value, a)
                ch = attr_chain(av)
                if ch and ch[1:] == ("source_slice", "stop") and for_origin(cfg, av.value.value, a) == fo:
                    if guard_cursor is None or a.targets[0].id == guard_cursor:
                        adv.append(a)
        chk.require(
            bool(adv) and must_pass(cfg, st, loop, adv), "R30c", n,
            "after emitting a patch's slice the cursor compared by the skip test is not moved to the patch's stop on every path",
            detail="emit: cursor advanced to the patch's stop",
        )
        # the cursor never moves for a skipped patch: every assignment of the cursor to a patch's stop inside the
        # loop lies behind the emit of that patch in the same iteration (an assignment reachable from the loop head
        # without passing the emit would pull the cursor back into text that is already covered)
        for a in adv:
            skipped_path = cfg.paths_avoiding(loop, a, lambda x: x is st)
            chk.require(
                not skipped_path, "R30c", a,
                "the cursor is moved to a patch's stop also when that patch was skipped as overlapping: the cursor goes backwards and the text of the "
                "covered range is emitted (and patched) a second time",
                detail="cursor only advanced for emitted patches",
            )
        chk.sample({"rule": "R30c", "site": f"{LFILE}:{n.lineno}", "emit": short(n, 60), "cursor": guard_cursor})


# ---------------------------------------------------------------------------
def _r30d(chk, repo) -> None:
    f = repo.fn(LFILE, BUILDER)
    cfg = cfg_of(f)
    params = [a.arg for a in f.args.args if a.arg not in ("self", "cls")]
    if len(params) < 3:
        raise AnalysisError("builder signature changed (expected slices, patches, raw source)")
    acc, rets = _returned_local(chk, f, "R30d", "fixed string")
    as_list = False
    if acc is None and rets and all(_join_of(r.value) is not None for r in rets) and len({_join_of(r.value).id for r in rets}) == 1:
        # the text is collected in a list of parts and joined once: ``"".join(parts)``; the list must be a
        # fresh local list that only ever grows by ``append`` (each append is one contribution)
        cand = _join_of(rets[0].value).id
        os_ = origins(cfg, _join_of(rets[0].value), rets[0])
        if os_ and all(o.kind == "expr" and not o.path and is_fresh_list(o.expr) for o in os_):
            acc, as_list = cand, True
    if acc is None:
        chk.fail("R30d", f, "builder does not return one local accumulator", detail="accumulator returned")
        return
    outer = [n for n in walk_local(f) if isinstance(n, ast.For) and param_origin(cfg, n.iter, n) == params[0]]
    inner = [n for n in walk_local(f) if isinstance(n, ast.For) and param_origin(cfg, n.iter, n) == params[1] and any(within(n, o.body) for o in outer)]
    chk.count("R30d.slice_loops", len(outer))
    chk.count("R30d.patch_loops", len(inner))
    chk.floor("R30d.slice_loops", 1)
    chk.floor("R30d.patch_loops", 1)
    applies, copies = [], []
    n_bad = 0
    list_muts = {id(cfg.stmt_of(c)): (k, c) for k, c in mutations_of(f, acc)} if as_list else {}
    for n in walk_local(f):
        val = None
        if as_list:
            if isinstance(n, ast.stmt) and id(n) in list_muts:
                k, c = list_muts[id(n)]
                val = c.args[0] if k == "append" and len(c.args) == 1 and isinstance(n, ast.Expr) and n.value is c else ast.Constant(value=None)
            elif isinstance(n, (ast.Assign, ast.AnnAssign, ast.AugAssign)) and any(isinstance(t, ast.Name) and t.id == acc for t in (n.targets if isinstance(n, ast.Assign) else [n.target])):
                if isinstance(n, ast.AugAssign) or not (n.value is not None and is_fresh_list(n.value)):
                    val = ast.Constant(value=None)
        elif isinstance(n, ast.AugAssign) and isinstance(n.target, ast.Name) and n.target.id == acc:
            val = n.value if isinstance(n.op, ast.Add) else ast.Constant(value=None)
        elif isinstance(n, ast.Assign) and any(isinstance(t, ast.Name) and t.id == acc for t in n.targets):
            v = n.value
            if isinstance(v, ast.Constant) and v.value == "":
                continue
            if isinstance(v, ast.BinOp) and isinstance(v.op, ast.Add) and isinstance(v.left, ast.Name) and v.left.id == acc:
                val = v.right
            else:
                val = ast.Constant(value=None)
        if val is None:
            continue
        if isinstance(val, ast.Name):
            val = expanded(cfg, val, n)  # `text = patch.fixed_raw; buff += text` reads as the attribute
        kind = None
        if isinstance(val, ast.Attribute) and val.attr == "fixed_raw":
            fo = for_origin(cfg, val.value, n)
            if fo and fo[0] in inner and not fo[1]:
                kind = "apply"
                applies.append((n, fo))
        elif isinstance(val, ast.Subscript) and param_origin(cfg, val.value, n) == params[2]:
            fo = for_origin(cfg, val.slice, n)
            if fo and fo[0] in outer and not fo[1]:
                kind = "copy"
                copies.append((n, fo))
        if kind is None:
            n_bad += 1
            chk.fail(
                "R30d", n,
                "the fixed string receives text that is neither a matched patch's replacement nor the raw source at the current slice",
                detail=f"contribution: {short(n, 90)}",
            )
    chk.count("R30d.apply_sites", len(applies))
    if not applies and n_bad:
        return  # the replacement no longer enters the text in the accepted way: reported above (a violation, not a lost anchor)
    chk.floor("R30d.apply_sites", 1)
    for n, fo in applies:
        pl = fo[0]
        eq = False
        for e, pol in compare_atoms(cfg, n):
            if isinstance(e.ops[0], ast.Eq) and pol:
                sides = [e.left, e.comparators[0]]
                a = [s for s in sides if isinstance(s, ast.Attribute) and s.attr == "source_slice" and for_origin(cfg, s.value, cfg.stmt_of(e)) == fo]
                b = [s for s in sides if isinstance(s, ast.Name) and (for_origin(cfg, s, cfg.stmt_of(e)) or (None,))[0] in outer]
                if len(a) == 1 and len(b) == 1:
                    eq = True
        chk.require(eq, "R30d", n, "patch text is applied without a dominating exact equality between the patch's source slice and the current file slice", detail="apply: exact slice equality")
        once = not cfg.paths_avoiding(n, pl, lambda x: isinstance(x, ast.Break))
        chk.require(once, "R30d", n, "after applying a patch the search over patches continues (no break): a second patch with the same range would be applied to the same slice as well", detail="apply: at most once per slice (break)")
        for c, _ in copies:
            sep = not cfg.paths_avoiding(n, c, lambda x: x in outer)
            chk.require(sep, "R30d", c, "the raw text of a slice is copied even when a patch was applied to that slice", detail="copy: only for unmatched slices")
    chk.require(bool(copies), "R30d", f, "slices without a patch are not copied from the raw source by their own slice", detail="copy: raw source by own slice")
    for pl in inner:
        bf = branch_of(cfg, pl, False)
        ol = [o for o in outer if within(pl, o.body)]
        if bf is not None and ol and copies:
            chk.require(
                must_pass(cfg, bf, ol[0], [c for c, _ in copies]), "R30d", pl,
                "a slice that matches no patch can reach the next slice without its raw text being copied",
                detail="copy: every unmatched slice copied",
            )
    for r in rets:
        chk.ok("R30d", f"{LFILE}::{BUILDER}", "returns accumulator")
    # coordination at the call site(s)
    slicer = repo.fn(LFILE, SLICER)
    bsites = [c for m in repo.iter_modules() if f.name in m.text for c in ast.walk(m.tree) if isinstance(c, ast.Call) and last_attr(c) == f.name]
    chk.count("R30d.builder_call_sites", len(bsites))
    chk.floor("R30d.builder_call_sites", 1)
    for call in bsites:
        fn = _enclosing_fn(call)
        ccfg = cfg_of(fn)
        st = ccfg.stmt_of(call)
        a0, a1 = arg_of(call, 0, "source_file_slices"), arg_of(call, 1, "source_patches")
        o0 = origins(ccfg, a0, st) if a0 is not None else []
        scalls = [o.expr for o in o0 if o.kind == "expr" and isinstance(o.expr, ast.Call) and last_attr(o.expr) == slicer.name]
        chk.require(bool(o0) and len(scalls) == len(o0), "R30d", call, "builder does not receive the slicer's output as its slices", detail="builder slices <- slicer output")
        for sc in scalls:
            s0 = arg_of(sc, 0, "source_patches")
            so = {id(o.expr) for o in origins(ccfg, s0, ccfg.stmt_of(sc))} if s0 is not None else set()
            bo = {id(o.expr) for o in origins(ccfg, a1, st)} if a1 is not None else set()
            chk.require(bool(so) and so == bo, "R30d", call, "builder and slicer are given different patch lists (slices and patches no longer correspond)", detail="builder patches == slicer patches")
            r2, r3 = arg_of(call, 2, "raw_source_string"), arg_of(sc, 2, "raw_source_string")
            same_raw = r2 is not None and r3 is not None and norm(expanded(ccfg, r2, st)) == norm(expanded(ccfg, r3, ccfg.stmt_of(sc)))  # a local holding the expression reads as the expression
            chk.require(same_raw, "R30d", call, "builder and slicer are given different raw source strings", detail="builder raw == slicer raw")


from ..selftest import Variant  # noqa: E402

VARIANTS = [
    Variant(
        "r30j-flush-on-head-end", LFILE,
        "                and source_only_slices[0].source_idx < patch.source_slice.start\n",
        "                and source_only_slices[0].end_source_idx() <= patch.source_slice.start\n",
        "R30j", "_slice_source_file_using_patches", "seeded C30-9",
    ),
    Variant(
        "r30j-flush-not-strict", LFILE,
        "                and source_only_slices[0].source_idx < patch.source_slice.start\n",
        "                and source_only_slices[0].source_idx <= patch.source_slice.start\n",
        "R30j", "_slice_source_file_using_patches", "a tag at the patch's own start is flushed before the equality pop sees it",
    ),
    Variant(
        "quiet-r30j-start-through-source-slice", LFILE,
        "                and source_only_slices[0].source_idx < patch.source_slice.start\n",
        "                and patch.source_slice.start > source_only_slices[0].source_slice().start\n",
        "QUIET", None, "R30j: operands swapped, start read from source_slice()",
    ),
    Variant(
        "quiet-r30j-patch-start-in-a-local", LFILE,
        "            while (\n                source_only_slices\n                and source_only_slices[0].source_idx < patch.source_slice.start\n            ):\n",
        "            patch_start = patch.source_slice.start\n            while source_only_slices and source_only_slices[0].source_idx < patch_start:\n",
        "QUIET", None, "R30j: patch start through a local",
    ),
    Variant(
        "overlap-test-assumes-the-second-starts-later", PATCH,
        "    return max(first_start, second_start) < min(first_stop, second_stop)\n",
        "    return first_start < second_start < first_stop\n",
        "R30i", "_patches_conflict", "seeded C30-8: [3,5) and [3,8) no longer conflict",
    ),
    Variant(
        "quiet-overlap-test-as-two-comparisons", PATCH,
        "    return max(first_start, second_start) < min(first_stop, second_stop)\n",
        "    return first_start < second_stop and second_start < first_stop\n",
        "QUIET", None, "R30i: the same symmetric test spelled as a conjunction",
    ),
    Variant(
        "dedupe-key-includes-the-category", PATCH,
        "            self.fixed_raw,\n        )\n",
        "            self.fixed_raw,\n            self.patch_category,\n        )\n",
        "R30g", "dedupe_tuple", "seeded C30-5",
    ),
    Variant(
        "equality-pop-only-for-source-patches", LFILE,
        "                and patch.source_slice == source_only_slices[0].source_slice()\n",
        "                and patch.source_slice == source_only_slices[0].source_slice()\n                and patch.patch_category == \"source\"\n",
        "R30h", "_slice_source_file_using_patches", "seeded C30-6",
    ),
    Variant(
        "same-range-conflict-ignores-whitespace", PATCH,
        "        return first.fixed_raw != second.fixed_raw\n",
        "        return first.fixed_raw.strip() != second.fixed_raw.strip()\n",
        "R30e", "_patches_conflict", "seeded C30-3: two insertions at one point differing in whitespace are both kept",
    ),
    Variant(
        "same-range-never-conflicts", PATCH,
        "        return first.fixed_raw != second.fixed_raw\n",
        "        return False\n",
        "R30e", "_patches_conflict",
    ),
    Variant(
        "quiet-same-range-conflict-through-locals", PATCH,
        "        return first.fixed_raw != second.fixed_raw\n",
        "        same_text = second.fixed_raw == first.fixed_raw\n        return not same_text\n",
        "QUIET", None, "R30e: equality in a local, negated, operands swapped",
    ),
    Variant(
        "slicer-equality-pop-before-the-flush", LFILE,
        "            while (\n                source_only_slices\n                and source_only_slices[0].source_idx < patch.source_slice.start\n            ):\n",
        "            if (\n                source_only_slices\n                and patch.source_slice == source_only_slices[0].source_slice()\n            ):\n                source_only_slices.pop(0)\n            while (\n                source_only_slices\n                and source_only_slices[0].source_idx < patch.source_slice.start\n            ):\n",
        "R30f", "_slice_source_file_using_patches", "seeded C30-4 (an extra early pop): the head is an earlier tag",
    ),
    # behaviour-preserving refactors: must stay quiet
    Variant(
        "quiet-merge-flat-list-and-loop-conflict-test", PATCH,
        "        if any(_patches_conflict(existing, patch) for existing in merged_patches):\n            linter_logger.info(\n                \"Skipping conflicting cross-variant patch: %s\",\n                patch,\n            )\n            continue\n",
        "        clash = False\n        for existing in merged_patches:\n            if _patches_conflict(existing, patch):\n                clash = True\n                break\n        if clash:\n            continue\n",
        "QUIET", None, "any(...) spelled as a loop with a flag",
    ),
    Variant(
        "quiet-merge-dedupe-key-inline", PATCH,
        "        dedupe_tuple = patch.dedupe_tuple()\n        if dedupe_tuple in dedupe_buffer:\n            continue\n",
        "        dedupe_tuple = patch.dedupe_tuple()\n        seen_before = dedupe_tuple in dedupe_buffer\n        if seen_before:\n            continue\n",
        "QUIET", None, "duplicate test through a local",
    ),
    # behaviour-preserving refactors: must stay quiet (sweep)
    Variant(
        'quiet-merge-tests-as-nested-positive-ifs', PATCH,
        '        dedupe_tuple = patch.dedupe_tuple()\n        if dedupe_tuple in dedupe_buffer:\n            continue\n\n        if any(_patches_conflict(existing, patch) for existing in merged_patches):\n            linter_logger.info(\n                "Skipping conflicting cross-variant patch: %s",\n                patch,\n            )\n            continue\n\n        merged_patches.append(patch)\n        dedupe_buffer.add(dedupe_tuple)\n',
        '        dedupe_tuple = patch.dedupe_tuple()\n        if dedupe_tuple not in dedupe_buffer:\n            if not any(_patches_conflict(existing, patch) for existing in merged_patches):\n                merged_patches.append(patch)\n                dedupe_buffer.add(dedupe_tuple)\n            else:\n                linter_logger.info(\n                    "Skipping conflicting cross-variant patch: %s",\n                    patch,\n                )\n',
        "QUIET", None, 'early continues turned into nested positive tests',
    ),
    Variant(
        'quiet-merge-conflict-test-all-not', PATCH,
        '        if any(_patches_conflict(existing, patch) for existing in merged_patches):\n',
        '        if not all(not _patches_conflict(patch, existing) for existing in merged_patches):\n',
        "QUIET", None, 'any(..) false spelled `all(not ..)`, arguments in the other order',
    ),
    Variant(
        'quiet-merge-conflict-test-list-comprehension', PATCH,
        '        if any(_patches_conflict(existing, patch) for existing in merged_patches):\n',
        '        if any([_patches_conflict(existing, patch) for existing in merged_patches]):\n',
        "QUIET", None, 'generator expression written as a list comprehension',
    ),
    Variant(
        'quiet-merge-record-before-append', PATCH,
        '        merged_patches.append(patch)\n        dedupe_buffer.add(dedupe_tuple)\n',
        '        dedupe_buffer.add(patch.dedupe_tuple())\n        merged_patches.append(patch)\n',
        "QUIET", None, 'two independent statements reordered; key recomputed',
    ),
    Variant(
        'quiet-merge-sort-into-local', PATCH,
        '    for patch in sorted(\n        (patch for patches in patch_buffers for patch in patches),\n        key=lambda patch: (patch.source_slice.start, patch.source_slice.stop),\n    ):\n',
        '    all_patches = [patch for patches in patch_buffers for patch in patches]\n    ordered = sorted(\n        all_patches,\n        key=lambda p: (p.source_slice.start, p.source_slice.stop),\n    )\n    for patch in ordered:\n',
        "QUIET", None, 'flattening and sorting hoisted into locals; lambda parameter renamed',
    ),
    Variant(
        'quiet-merge-sort-in-place', PATCH,
        '    for patch in sorted(\n        (patch for patches in patch_buffers for patch in patches),\n        key=lambda patch: (patch.source_slice.start, patch.source_slice.stop),\n    ):\n',
        '    all_patches = [patch for patches in patch_buffers for patch in patches]\n    all_patches.sort(key=lambda p: (p.source_slice.start, p.source_slice.stop))\n    for patch in all_patches:\n',
        "QUIET", None, 'sorted(..) spelled as list.sort(..) on a fresh list',
    ),
    Variant(
        'quiet-generate-sort-in-place', PATCH,
        '    return sorted(filtered_source_patches, key=lambda x: x.source_slice.start)\n',
        '    filtered_source_patches.sort(key=lambda x: x.source_slice.start)\n    return filtered_source_patches\n',
        "QUIET", None, 'sorted(..) spelled as list.sort(..) before the return',
    ),
    Variant(
        'quiet-generate-sorted-through-local', PATCH,
        '    return sorted(filtered_source_patches, key=lambda x: x.source_slice.start)\n',
        '    in_source_order = sorted(filtered_source_patches, key=lambda fp: fp.source_slice.start)\n    return in_source_order\n',
        "QUIET", None, 'sorted result through a local; lambda parameter renamed',
    ),
    Variant(
        'quiet-fix-string-patches-conditional-expression', LFILE,
        "        filtered_source_patches = self.source_patches\n        if filtered_source_patches is None:\n            # NOTE: In normal usage, this clause is not hit, but has been kept\n            # for python API users who may rely on it. Consider deprecating\n            # this clause in the future if it isn't being used.\n            filtered_source_patches = generate_source_patches(\n                self.tree, self.templated_file\n            )\n",
        '        filtered_source_patches = (\n            self.source_patches\n            if self.source_patches is not None\n            else generate_source_patches(self.tree, self.templated_file)\n        )\n',
        "QUIET", None, 'if statement as a conditional expression',
    ),
    Variant(
        'quiet-slicer-call-keyword-arguments', LFILE,
        '        slice_buff = self._slice_source_file_using_patches(\n            filtered_source_patches, source_only_slices, self.templated_file.source_str\n        )\n',
        '        slice_buff = self._slice_source_file_using_patches(\n            source_patches=filtered_source_patches,\n            source_only_slices=source_only_slices,\n            raw_source_string=self.templated_file.source_str,\n        )\n',
        "QUIET", None, 'slicer called with keyword arguments',
    ),
    Variant(
        'quiet-builder-gets-raw-source-through-local', LFILE,
        '        fixed_source_string = self._build_up_fixed_source_string(\n            slice_buff, filtered_source_patches, self.templated_file.source_str\n        )\n',
        '        fixed_source_string = self._build_up_fixed_source_string(\n            slice_buff, filtered_source_patches, original_source\n        )\n',
        "QUIET", None, 'the same raw source string passed through the local that already holds it',
    ),
    Variant(
        'quiet-slicer-skip-as-if-else', LFILE,
        '            # Is this patch covering an area we\'ve already covered?\n            if patch.source_slice.start < source_idx:  # pragma: no cover\n                # NOTE: This shouldn\'t happen. With more detailed templating\n                # this shouldn\'t happen - but in the off-chance that this does\n                # happen - then this code path remains.\n                linter_logger.info(\n                    "Skipping overlapping patch at Index %s, Patch: %s",\n                    source_idx,\n                    patch,\n                )\n                # Ignore the patch for now...\n                continue\n\n            # Add this patch.\n            slice_buff.append(patch.source_slice)\n            source_idx = patch.source_slice.stop\n',
        '            # Is this patch covering an area we\'ve already covered?\n            if patch.source_slice.start < source_idx:  # pragma: no cover\n                linter_logger.info(\n                    "Skipping overlapping patch at Index %s, Patch: %s",\n                    source_idx,\n                    patch,\n                )\n            else:\n                # Add this patch.\n                slice_buff.append(patch.source_slice)\n                source_idx = patch.source_slice.stop\n',
        "QUIET", None, 'continue turned into if/else (the cursor still only moves for an emitted patch)',
    ),
    Variant(
        'quiet-slicer-emit-under-positive-test', LFILE,
        '            # Is this patch covering an area we\'ve already covered?\n            if patch.source_slice.start < source_idx:  # pragma: no cover\n                # NOTE: This shouldn\'t happen. With more detailed templating\n                # this shouldn\'t happen - but in the off-chance that this does\n                # happen - then this code path remains.\n                linter_logger.info(\n                    "Skipping overlapping patch at Index %s, Patch: %s",\n                    source_idx,\n                    patch,\n                )\n                # Ignore the patch for now...\n                continue\n\n            # Add this patch.\n            slice_buff.append(patch.source_slice)\n            source_idx = patch.source_slice.stop\n',
        '            if patch.source_slice.start >= source_idx:\n                # Add this patch.\n                slice_buff.append(patch.source_slice)\n                source_idx = patch.source_slice.stop\n                continue\n            linter_logger.info(\n                "Skipping overlapping patch at Index %s, Patch: %s",\n                source_idx,\n                patch,\n            )\n',
        "QUIET", None, 'test inverted: emit under `start >= cursor`',
    ),
    Variant(
        'quiet-slicer-patch-start-in-local', LFILE,
        '            # Is this patch covering an area we\'ve already covered?\n            if patch.source_slice.start < source_idx:  # pragma: no cover\n                # NOTE: This shouldn\'t happen. With more detailed templating\n                # this shouldn\'t happen - but in the off-chance that this does\n                # happen - then this code path remains.\n                linter_logger.info(\n                    "Skipping overlapping patch at Index %s, Patch: %s",\n                    source_idx,\n                    patch,\n                )\n                # Ignore the patch for now...\n                continue\n\n            # Add this patch.\n            slice_buff.append(patch.source_slice)\n            source_idx = patch.source_slice.stop\n',
        '            # Is this patch covering an area we\'ve already covered?\n            patch_start = patch.source_slice.start\n            if patch_start < source_idx:  # pragma: no cover\n                linter_logger.info(\n                    "Skipping overlapping patch at Index %s, Patch: %s",\n                    source_idx,\n                    patch,\n                )\n                # Ignore the patch for now...\n                continue\n\n            # Add this patch.\n            slice_buff.append(patch.source_slice)\n            source_idx = patch.source_slice.stop\n',
        "QUIET", None, 'patch start read into a local',
    ),
    Variant(
        'quiet-slicer-patch-slice-in-local', LFILE,
        '            # Is this patch covering an area we\'ve already covered?\n            if patch.source_slice.start < source_idx:  # pragma: no cover\n                # NOTE: This shouldn\'t happen. With more detailed templating\n                # this shouldn\'t happen - but in the off-chance that this does\n                # happen - then this code path remains.\n                linter_logger.info(\n                    "Skipping overlapping patch at Index %s, Patch: %s",\n                    source_idx,\n                    patch,\n                )\n                # Ignore the patch for now...\n                continue\n\n            # Add this patch.\n            slice_buff.append(patch.source_slice)\n            source_idx = patch.source_slice.stop\n',
        '            # Is this patch covering an area we\'ve already covered?\n            if patch.source_slice.start < source_idx:  # pragma: no cover\n                # NOTE: This shouldn\'t happen. With more detailed templating\n                # this shouldn\'t happen - but in the off-chance that this does\n                # happen - then this code path remains.\n                linter_logger.info(\n                    "Skipping overlapping patch at Index %s, Patch: %s",\n                    source_idx,\n                    patch,\n                )\n                # Ignore the patch for now...\n                continue\n\n            # Add this patch.\n            patch_slice = patch.source_slice\n            slice_buff.append(patch_slice)\n            source_idx = patch_slice.stop\n',
        "QUIET", None, 'patch slice read into a local',
    ),
    Variant(
        'quiet-builder-joins-a-list', LFILE,
        '        str_buff = ""\n        for source_slice in source_file_slices:\n            # Is it one in the patch buffer:\n            for patch in source_patches:\n                if patch.source_slice == source_slice:\n                    # Use the patched version\n                    linter_logger.debug(\n                        "%-30s    %s    %r > %r",\n                        f"Appending {patch.patch_category} Patch:",\n                        patch.source_slice,\n                        patch.source_str,\n                        patch.fixed_raw,\n                    )\n                    str_buff += patch.fixed_raw\n                    break\n            else:\n                # Use the raw string\n                linter_logger.debug(\n                    "Appending Raw:                    %s     %r",\n                    source_slice,\n                    raw_source_string[source_slice],\n                )\n                str_buff += raw_source_string[source_slice]\n        return str_buff\n',
        '        parts: list[str] = []\n        for source_slice in source_file_slices:\n            # Is it one in the patch buffer:\n            for patch in source_patches:\n                if patch.source_slice == source_slice:\n                    # Use the patched version\n                    linter_logger.debug(\n                        "%-30s    %s    %r > %r",\n                        f"Appending {patch.patch_category} Patch:",\n                        patch.source_slice,\n                        patch.source_str,\n                        patch.fixed_raw,\n                    )\n                    parts.append(patch.fixed_raw)\n                    break\n            else:\n                # Use the raw string\n                linter_logger.debug(\n                    "Appending Raw:                    %s     %r",\n                    source_slice,\n                    raw_source_string[source_slice],\n                )\n                parts.append(raw_source_string[source_slice])\n        return "".join(parts)\n',
        "QUIET", None, 'string accumulation replaced by a list of parts and one join',
    ),
    Variant(
        'quiet-builder-replacement-through-local', LFILE,
        '        str_buff = ""\n        for source_slice in source_file_slices:\n            # Is it one in the patch buffer:\n            for patch in source_patches:\n                if patch.source_slice == source_slice:\n                    # Use the patched version\n                    linter_logger.debug(\n                        "%-30s    %s    %r > %r",\n                        f"Appending {patch.patch_category} Patch:",\n                        patch.source_slice,\n                        patch.source_str,\n                        patch.fixed_raw,\n                    )\n                    str_buff += patch.fixed_raw\n                    break\n            else:\n                # Use the raw string\n                linter_logger.debug(\n                    "Appending Raw:                    %s     %r",\n                    source_slice,\n                    raw_source_string[source_slice],\n                )\n                str_buff += raw_source_string[source_slice]\n        return str_buff\n',
        '        str_buff = ""\n        for source_slice in source_file_slices:\n            # Is it one in the patch buffer:\n            for patch in source_patches:\n                if source_slice == patch.source_slice:\n                    # Use the patched version\n                    linter_logger.debug(\n                        "%-30s    %s    %r > %r",\n                        f"Appending {patch.patch_category} Patch:",\n                        patch.source_slice,\n                        patch.source_str,\n                        patch.fixed_raw,\n                    )\n                    replacement = patch.fixed_raw\n                    str_buff = str_buff + replacement\n                    break\n            else:\n                # Use the raw string\n                linter_logger.debug(\n                    "Appending Raw:                    %s     %r",\n                    source_slice,\n                    raw_source_string[source_slice],\n                )\n                str_buff += raw_source_string[source_slice]\n        return str_buff\n',
        "QUIET", None, 'replacement text through a local; x = x + y; equality sides swapped',
    ),
    Variant("quiet-merged-list-renamed", PATCH, "merged_patches", "kept", "QUIET", None, "merged list local renamed everywhere", 4),
    # breaking twins of the spellings accepted above
    Variant(
        'generate-sorts-in-place-on-stop', PATCH,
        '    return sorted(filtered_source_patches, key=lambda x: x.source_slice.start)\n',
        '    filtered_source_patches.sort(key=lambda x: x.source_slice.stop)\n    return filtered_source_patches\n',
        'R30b', None, 'breaking twin of the in-place sort spelling: wrong key',
    ),
    Variant(
        'generate-sorts-in-place-then-reverses', PATCH,
        '    return sorted(filtered_source_patches, key=lambda x: x.source_slice.start)\n',
        '    filtered_source_patches.sort(key=lambda x: x.source_slice.start)\n    filtered_source_patches.reverse()\n    return filtered_source_patches\n',
        'R30b', None, 'breaking twin of the in-place sort spelling: the list is changed after the sort',
    ),
    Variant(
        'merge-conflict-list-comprehension-only-last-kept', PATCH,
        'any(_patches_conflict(existing, patch) for existing in merged_patches)',
        'any([_patches_conflict(existing, patch) for existing in merged_patches[-1:]])',
        'R30a', None, 'breaking twin of the list-comprehension spelling',
    ),
    Variant(
        'slicer-start-local-holds-the-stop', LFILE,
        '            if patch.source_slice.start < source_idx:  # pragma: no cover\n',
        '            patch_start = patch.source_slice.stop\n            if patch_start < source_idx:  # pragma: no cover\n',
        'R30c', None, 'breaking twin of the start-in-a-local spelling',
    ),
    Variant(
        'builder-gets-another-string-through-local', LFILE,
        '        fixed_source_string = self._build_up_fixed_source_string(\n            slice_buff, filtered_source_patches, self.templated_file.source_str\n        )\n',
        '        rendered = self.templated_file.templated_str\n        fixed_source_string = self._build_up_fixed_source_string(\n            slice_buff, filtered_source_patches, rendered\n        )\n',
        'R30d', None, 'breaking twin of the raw-source-in-a-local spelling',
    ),
    Variant(
        'builder-parts-list-prepends-replacements', LFILE,
        '        str_buff = ""\n        for source_slice in source_file_slices:\n            # Is it one in the patch buffer:\n            for patch in source_patches:\n                if patch.source_slice == source_slice:\n                    # Use the patched version\n                    linter_logger.debug(\n                        "%-30s    %s    %r > %r",\n                        f"Appending {patch.patch_category} Patch:",\n                        patch.source_slice,\n                        patch.source_str,\n                        patch.fixed_raw,\n                    )\n                    str_buff += patch.fixed_raw\n                    break\n            else:\n                # Use the raw string\n                linter_logger.debug(\n                    "Appending Raw:                    %s     %r",\n                    source_slice,\n                    raw_source_string[source_slice],\n                )\n                str_buff += raw_source_string[source_slice]\n        return str_buff\n',
        '        parts: list[str] = []\n        for source_slice in source_file_slices:\n            # Is it one in the patch buffer:\n            for patch in source_patches:\n                if patch.source_slice == source_slice:\n                    # Use the patched version\n                    linter_logger.debug(\n                        "%-30s    %s    %r > %r",\n                        f"Appending {patch.patch_category} Patch:",\n                        patch.source_slice,\n                        patch.source_str,\n                        patch.fixed_raw,\n                    )\n                    parts.insert(0, patch.fixed_raw)\n                    break\n            else:\n                # Use the raw string\n                linter_logger.debug(\n                    "Appending Raw:                    %s     %r",\n                    source_slice,\n                    raw_source_string[source_slice],\n                )\n                parts.append(raw_source_string[source_slice])\n        return "".join(parts)\n',
        'R30d', None, 'breaking twin of the joined-list spelling: replacements are put in front',
    ),
    Variant(
        "slicer-cursor-moves-for-skipped-patch", LFILE,
        "                # Ignore the patch for now...\n                continue\n\n            # Add this patch.\n            slice_buff.append(patch.source_slice)\n",
        "            else:\n                # Add this patch.\n                slice_buff.append(patch.source_slice)\n",
        "R30c", "_slice_source_file_using_patches", "seeded C30-2: `a=2` becomes `a = 2= 2` when two variants express one fix at different granularity",
    ),
    Variant(
        "merge-conflict-test-dropped", PATCH,
        "        if any(_patches_conflict(existing, patch) for existing in merged_patches):\n",
        "        if False:\n",
        "R30a", "merge_source_patches",
    ),
    Variant(
        "merge-conflict-only-last-kept", PATCH,
        "any(_patches_conflict(existing, patch) for existing in merged_patches)",
        "any(_patches_conflict(existing, patch) for existing in merged_patches[-1:])",
        "R30a", "merge_source_patches", "conflict test no longer against every kept patch",
    ),
    Variant(
        "merge-dedupe-test-dropped", PATCH,
        "        dedupe_tuple = patch.dedupe_tuple()\n        if dedupe_tuple in dedupe_buffer:\n            continue\n\n        if any(",
        "        dedupe_tuple = patch.dedupe_tuple()\n\n        if any(",
        "R30a", "merge_source_patches",
    ),
    Variant(
        "merge-kept-patch-not-recorded", PATCH,
        "        merged_patches.append(patch)\n        dedupe_buffer.add(dedupe_tuple)\n",
        "        merged_patches.append(patch)\n",
        "R30a", "merge_source_patches",
    ),
    Variant(
        "merge-append-before-conflict-skip", PATCH,
        "            linter_logger.info(\n                \"Skipping conflicting cross-variant patch: %s\",\n                patch,\n            )\n            continue\n",
        "            linter_logger.info(\n                \"Skipping conflicting cross-variant patch: %s\",\n                patch,\n            )\n",
        "R30a", "merge_source_patches", "the skip no longer skips",
    ),
    Variant(
        "merge-unsorted-iteration", PATCH,
        "    for patch in sorted(\n        (patch for patches in patch_buffers for patch in patches),\n        key=lambda patch: (patch.source_slice.start, patch.source_slice.stop),\n    ):",
        "    for patch in list(\n        (patch for patches in patch_buffers for patch in patches),\n    ):",
        "R30b", "merge_source_patches",
    ),
    Variant(
        "generate-sorted-on-templated-start", PATCH,
        "return sorted(filtered_source_patches, key=lambda x: x.source_slice.start)",
        "return sorted(filtered_source_patches, key=lambda x: x.templated_slice.start)",
        "R30b", "generate_source_patches",
    ),
    Variant(
        "generate-sort-dropped", PATCH,
        "return sorted(filtered_source_patches, key=lambda x: x.source_slice.start)",
        "return filtered_source_patches",
        "R30b", "generate_source_patches",
    ),
    Variant(
        "lint-parsed-stores-unmerged-concat", "src/sqlfluff/core/linter/linter.py",
        "                merged_source_patches = merge_source_patches(variant_source_patches)\n",
        "                merged_source_patches = [p for ps in variant_source_patches for p in ps]\n",
        "R30b", "lint_parsed", "variants concatenated without merge: unsorted and overlapping",
    ),
    Variant(
        "fix-string-filters-after-sort", LFILE,
        "        linter_logger.debug(\"Filtered source patches:\")\n",
        "        filtered_source_patches = list(reversed(filtered_source_patches))\n        linter_logger.debug(\"Filtered source patches:\")\n",
        "R30b", "fix_string",
    ),
    Variant(
        "slicer-overlap-skip-dropped", LFILE,
        "                # Ignore the patch for now...\n                continue\n",
        "                # Ignore the patch for now...\n",
        "R30c", "_slice_source_file_using_patches",
    ),
    Variant(
        "slicer-skip-compares-stop", LFILE,
        "            if patch.source_slice.start < source_idx:  # pragma: no cover",
        "            if patch.source_slice.stop < source_idx:  # pragma: no cover",
        "R30c", "_slice_source_file_using_patches",
    ),
    Variant(
        "slicer-cursor-not-advanced", LFILE,
        "            slice_buff.append(patch.source_slice)\n            source_idx = patch.source_slice.stop\n",
        "            slice_buff.append(patch.source_slice)\n            source_idx = patch.source_slice.start\n",
        "R30c", "_slice_source_file_using_patches",
    ),
    Variant(
        "builder-prefix-match", LFILE,
        "                if patch.source_slice == source_slice:\n",
        "                if patch.source_slice.start == source_slice.start:\n",
        "R30d", "_build_up_fixed_source_string",
    ),
    Variant(
        "builder-break-dropped", LFILE,
        "                    str_buff += patch.fixed_raw\n                    break\n",
        "                    str_buff += patch.fixed_raw\n",
        "R30d", "_build_up_fixed_source_string",
    ),
    Variant(
        "builder-raw-copy-unconditional", LFILE,
        "                    str_buff += patch.fixed_raw\n                    break\n            else:\n",
        "                    str_buff += patch.fixed_raw\n                    break\n            if True:\n",
        "R30d", "_build_up_fixed_source_string", "for-else turned into a plain block: raw text appended after a patch too",
    ),
    Variant(
        "builder-gets-other-patch-list", LFILE,
        "            slice_buff, filtered_source_patches, self.templated_file.source_str\n",
        "            slice_buff, self.source_patches or [], self.templated_file.source_str\n",
        "R30d", "fix_string",
    ),
]
