"""C07 — template source maps are consistent for every templater and variant (partial claim).

The property relates run-time integers and strings produced by three templaters, two plugin
templaters and a variant re-mapper; taken whole it is value level and NOT decided.  Two of
its four clauses — *raw slices tile the source exactly and in order* and *rendered slices
tile the rendered SQL exactly and in order* — are however ENFORCED AT CONSTRUCTION:
``TemplatedFile.__init__`` walks both lists and refuses to build the object otherwise.  So
they hold for every ``TemplatedFile`` that exists, whatever templater or variant produced
it, PROVIDED the checks are intact and complete, nothing can bypass or invalidate them, and
every producer goes through the constructor with lists and texts that belong together.
Those provisos are structural and are what is decided here.  (That the constructor's
refusal is load bearing was witnessed against the real code in a throw-away run:
``select {{ ['a','bbbbbbbbbb'] | random }} from t`` renders differently for the trace and
for the plain render; the final-length check is the only thing that stops a TemplatedFile
whose slices end at 16 over a rendered text of 25 characters.)

R07a  the constructor's checks, in ``TemplatedFile.__init__`` or in methods of the class that it
      calls on ``self`` (checks extracted into a helper; one level) (roles by def-use: the *stored*
      lists/texts are ``self.<field>``; an *enforcer* is an ``assert`` or a ``raise`` that is
      not inside a ``try`` with handlers; its failing condition is the DNF of the ``if``
      tests guarding it):
      raw list.   A ``for`` over the stored raw list (directly, through a local, or through
        ``enumerate``) holds an enforcer that fails exactly when ``<elem>.source_idx``
        differs from a running position, evaluated on every iteration; the position is
        the constant 0 before the loop and is advanced inside it only by the length of
        ``<elem>.raw`` (``+= len(..)``, ``= <pos> + len(..)``, ``<elem>.end_source_idx()``),
        on every iteration, after the comparison; after the loop an enforcer fails exactly
        when the position differs from ``len(<stored source text>)``.
      rendered list.   A ``for`` over the stored rendered list holds an enforcer that
        fails when ``<elem>.templated_slice.start`` differs from
        ``<prev>.templated_slice.stop`` (under nothing but "<prev> is set") and one that
        fails when it differs from the constant 0 (under nothing but "<prev> is not set"),
        where ``<prev>`` is ``None`` before the loop and is rebound to the element on every
        iteration after the comparisons; after the loop an enforcer fails when
        ``<last elem>.templated_slice.stop`` differs from ``len(<stored rendered text>)``
        under nothing but "the list is non-empty / a last element exists / the rendered
        text was given" (R07c closes the last one).
      coverage.   Every path from a store of a caller-provided list into ``self`` to the
        constructor's normal exit passes the corresponding loop (or the call of the helper
        that runs it on every path); every path from the end of the loop to the normal exit
        passes the final enforcer.
R07b  nothing bypasses or invalidates the checks: the two lists and the two texts of a
      TemplatedFile are stored only in ``TemplatedFile.__init__`` (whole-tree scan by receiver
      class; ``setattr`` / ``__dict__`` writes included; an unresolvable receiver is
      reported); no in-place mutation (``append/insert/sort/..``, item or slice assignment,
      ``+=``) of a TemplatedFile's list anywhere — directly, through a local alias of the
      list, or in a resolvable callee that is handed the list; no ``__new__`` construction;
      no subclass ``__init__`` that does not call the base constructor.
R07c  every producer goes through the constructor with matching arguments.  Every
      ``TemplatedFile(..)`` call of the tree (core, plugins, ``cls(..)`` in its classmethods)
      is *unsliced* (neither list: the constructor builds the identity map itself) or
      passes both lists AND a rendered text that is not the constant ``None`` (otherwise the
      final-length check is skipped); the three then have one provenance:
        (A) distinct components of one slicing call whose text argument is the value given
            as ``source_str``;   (B) distinct components of the loop variable of one
        generator call — then, in the generator, the rendered text and the rendered list
        of every ``yield`` come from the same trace object (the list through a re-mapper that
        only replaces ``source_slice`` and emits exactly one slice per input slice), and the
        raw list is that of the analysis of the generator's unmodified source parameter,
        which is also the consumer's ``source_str``;   (C) lists built afresh in the same
        function;   (D) the five attributes of one existing TemplatedFile.

Already decided elsewhere and relied upon: C08 R08b / C09 R09e (the rendered text is the
render of the same unmodified source the slicer saw), C09 R09d (placeholder records use the
bounds of the copied text), C31 R31b (texts stored before their newline tables).

NOT decided: every source slice lies within the file and source slices are ordered
(``_rectify_templated_slices`` arithmetic with carried deltas, tracer bookkeeping); literal
slices map to identical text; non-negative slice widths; an EMPTY rendered list over a
non-empty rendered text is not rejected by the constructor (no bundled templater can
produce it: an empty source renders empty); aliases of the lists kept by the slicer objects
(``JinjaTracer.sliced_file`` is the very list handed over); ``python -O`` strips the
``assert`` half of the checks.
"""

from __future__ import annotations

import ast
from typing import Dict, List, Optional, Set, Tuple

from ..cfg import Branch, cfg_of, origins
from ..flowutil import MUTATORS, branch_of, callee, must_pass
from ..index import AnalysisError, FuncNode, call_name, enclosing_class, enclosing_function, last_attr, norm, short, walk_local
from ..report import construct_of
from ..tmpl import BASE, ctor_arg, ctor_fields, is_param, leaves

JINJA = "src/sqlfluff/core/templaters/jinja.py"
PY = "src/sqlfluff/core/templaters/python.py"
PH = "src/sqlfluff/core/templaters/placeholder.py"
LEXER = "src/sqlfluff/core/parser/lexer.py"
LINTER = "src/sqlfluff/core/linter/linter.py"
TF = "TemplatedFile"
INIT = f"{TF}.__init__"
CON_INIT = f"{BASE}::{INIT}"
LISTS = ("sliced_file", "raw_sliced")
TEXTS = ("source_str", "templated_str")
OWNED = LISTS + TEXTS
LIST_MUTATORS = tuple(MUTATORS) + ("__delitem__",)


# ---------------------------------------------------------------------------
# small helpers
# ---------------------------------------------------------------------------
def _inside(node, anc) -> bool:
    p = node
    while p is not None:
        if p is anc:
            return True
        p = getattr(p, "_parent", None)
    return False


def _in_block(node, block) -> bool:
    return any(_inside(node, s) for s in block)


def _self_attr(e: ast.AST, attr: Optional[str] = None) -> Optional[str]:
    if isinstance(e, ast.Attribute) and isinstance(e.value, ast.Name) and e.value.id == "self" and (attr is None or e.attr == attr):
        return e.attr
    return None


def _res(cfg, e: ast.AST, at, depth: int = 0) -> ast.AST:
    """Look through a local that holds exactly one expression."""
    if isinstance(e, ast.Name) and depth < 4:
        os_ = origins(cfg, e, at)
        if len(os_) == 1 and os_[0].kind == "expr" and not os_[0].path and not isinstance(os_[0].expr, ast.Constant):
            return _res(cfg, os_[0].expr, os_[0].stmt, depth + 1)
    return e


def _field(cfg, e: ast.AST, at) -> Optional[Tuple[str, Tuple[str, ...]]]:
    """``x.a.b`` (possibly through one-expression locals) -> ('x', ('a', 'b')); a base that is a
    plain copy of another local (``last = tfs``) is followed to that local."""
    e = _res(cfg, e, at)
    parts: List[str] = []
    while isinstance(e, ast.Attribute):
        parts.append(e.attr)
        e = e.value
    if not (isinstance(e, ast.Name) and parts):
        return None
    rd = cfg.reaching()
    for _ in range(3):
        ds = list(rd.defs_at(at, e.id)) if at is not None else []
        if len(ds) == 1 and ds[0].kind == "assign" and not ds[0].path and isinstance(ds[0].value, ast.Name):
            e, at = ds[0].value, ds[0].stmt
        else:
            break
    return e.id, tuple(reversed(parts))


def _follow(cfg, name: str, at) -> str:
    """Name of the local that ``name`` is a plain copy of (``last = tfs``), transitively."""
    rd = cfg.reaching()
    for _ in range(3):
        ds = list(rd.defs_at(at, name)) if at is not None else []
        if len(ds) == 1 and ds[0].kind == "assign" and not ds[0].path and isinstance(ds[0].value, ast.Name):
            name, at = ds[0].value.id, ds[0].stmt
        else:
            break
    return name


def _nonempty_test(cfg, e: ast.AST, pol: bool, at) -> Optional[ast.AST]:
    """The sequence that atom (e, pol) says is non-empty: ``x`` / ``len(x) > 0`` / ``len(x) != 0`` .."""
    if isinstance(e, ast.Compare) and len(e.ops) == 1 and isinstance(e.comparators[0], ast.Constant):
        inner = _len_of(cfg, e.left, at)
        c, op = e.comparators[0].value, e.ops[0]
        if inner is None or not isinstance(c, int):
            return None
        if pol and ((isinstance(op, (ast.Gt, ast.NotEq)) and c == 0) or (isinstance(op, ast.GtE) and c == 1)):
            return inner
        if not pol and ((isinstance(op, ast.Eq) and c == 0) or (isinstance(op, ast.Lt) and c == 1) or (isinstance(op, ast.LtE) and c == 0)):
            return inner
        return None
    if pol and _len_of(cfg, e, at) is not None:
        return _len_of(cfg, e, at)
    return e if pol else None


def _vleaves(cfg, e: ast.AST, at):
    """``leaves`` that also looks through a conditional expression written in place."""
    if isinstance(e, ast.IfExp):
        return _vleaves(cfg, e.body, at) + _vleaves(cfg, e.orelse, at)
    return leaves(cfg, e, at)


def _after(cfg, a, b, avoid) -> bool:
    """A path of at least one edge from ``a`` to ``b`` that passes no node for which avoid(n)."""
    seen, stack = set(), [x for x in cfg.succ.get(a, [])]
    while stack:
        n = stack.pop()
        if n is b:
            return True
        if id(n) in seen or avoid(n):
            continue
        seen.add(id(n))
        stack.extend(cfg.succ.get(n, []))
    return False


def _len_of(cfg, e: ast.AST, at) -> Optional[ast.AST]:
    e = _res(cfg, e, at)
    if isinstance(e, ast.Call) and isinstance(e.func, ast.Name) and e.func.id == "len" and len(e.args) == 1 and not e.keywords:
        return e.args[0]
    return None


def _formula(test: ast.AST, pol: bool):
    if isinstance(test, ast.UnaryOp) and isinstance(test.op, ast.Not):
        return _formula(test.operand, not pol)
    if isinstance(test, ast.BoolOp):
        conj = isinstance(test.op, ast.And) == pol
        return ("and" if conj else "or", [_formula(v, pol) for v in test.values])
    return ("lit", test, pol)


def _dnf(f, cap: int = 64) -> List[List[Tuple[ast.AST, bool]]]:
    if f[0] == "lit":
        return [[(f[1], f[2])]]
    if f[0] == "or":
        out: List[List[Tuple[ast.AST, bool]]] = []
        for p in f[1]:
            out += _dnf(p, cap)
        return out[:cap]
    terms: List[List[Tuple[ast.AST, bool]]] = [[]]
    for p in f[1]:
        terms = [t + u for t in terms for u in _dnf(p, cap)][:cap]
    return terms


def _swallowed(stmt, func) -> bool:
    """Inside the body of a ``try`` that has handlers (the failure may be caught in place)."""
    child, p = stmt, getattr(stmt, "_parent", None)
    while p is not None and p is not func:
        if isinstance(p, ast.Try) and p.handlers and child in p.body:
            return True
        child, p = p, getattr(p, "_parent", None)
    return False


class Enforcer:
    """An assert / raise of the constructor with the DNF of its failing condition."""

    def __init__(self, cfg, stmt, func):
        self.stmt = stmt
        self.cfg = cfg
        gs = [g for g in cfg.guards(stmt) if isinstance(g, Branch) and isinstance(g.stmt, (ast.If, ast.While))]
        # a dominating test whose other arm never reaches the normal exit (an earlier ``if bad: raise``)
        # is no condition of this check: every execution that is not refused there comes this way
        gs = [g for g in gs if not _other_arm_refuses(cfg, g)]
        parts = [_formula(g.stmt.test, g.polarity) for g in gs]
        if isinstance(stmt, ast.Assert):
            parts.append(_formula(stmt.test, False))
        self.terms = _dnf(("and", parts)) if parts else [[]]
        self.ifs = [g.stmt for g in gs if isinstance(g.stmt, ast.If)]

    def _top(self, scope_loop):
        """First statement that has to be executed for the enforcer to be evaluated: the guarding
        ``if`` inside ``scope_loop``'s body (with ``scope_loop`` None: anywhere) that dominates
        all the others, else the enforcer itself."""
        cands = [i for i in self.ifs if scope_loop is None or _in_block(i, scope_loop.body)]
        top = self.stmt
        for i in cands:
            if self.cfg.dominates(i, top):
                top = i
        return top


def _other_arm_refuses(cfg, g) -> bool:
    """``g`` is one outcome of an ``if``; the other outcome can reach neither the normal exit of the
    function nor (through a loop) the test itself again: it always ends in a raise."""
    if not isinstance(g.stmt, ast.If):
        return False
    other = [n for n in cfg.succ.get(g.stmt, ()) if isinstance(n, Branch) and n.stmt is g.stmt and n.polarity != g.polarity]
    if len(other) != 1:
        return False
    return not cfg.reaches(other[0], cfg.exit) and not cfg.reaches(other[0], g.stmt)


def _differs(e: ast.AST, pol: bool) -> Optional[Tuple[ast.AST, ast.AST]]:
    if isinstance(e, ast.Compare) and len(e.ops) == 1:
        if (isinstance(e.ops[0], ast.NotEq) and pol) or (isinstance(e.ops[0], ast.Eq) and not pol):
            return e.left, e.comparators[0]
    return None


def _set_atom(e: ast.AST, pol: bool) -> Optional[Tuple[str, bool]]:
    """(name, is-set) for ``x`` / ``x is None`` / ``x is not None`` atoms."""
    if isinstance(e, ast.Name):
        return e.id, pol
    if isinstance(e, ast.Compare) and len(e.ops) == 1 and isinstance(e.left, ast.Name) and isinstance(e.comparators[0], ast.Constant) and e.comparators[0].value is None:
        if isinstance(e.ops[0], (ast.Is, ast.Eq)):
            return e.left.id, not pol
        if isinstance(e.ops[0], (ast.IsNot, ast.NotEq)):
            return e.left.id, pol
    return None


def _innermost_loop(node, stop):
    p = getattr(node, "_parent", None)
    while p is not None and p is not stop:
        if isinstance(p, (ast.For, ast.While)) and _in_block(node, p.body):
            return p
        p = getattr(p, "_parent", None)
    return None


# ---------------------------------------------------------------------------
# R07a
# ---------------------------------------------------------------------------
class Scope:
    """A function whose body is part of the constructor's checks: ``__init__`` itself or a
    method of the class that ``__init__`` calls on ``self`` (checks extracted into a helper)."""

    def __init__(self, fn, call: Optional[ast.Call] = None, call_stmt=None, dead: bool = False):
        self.fn, self.cfg, self.call, self.call_stmt = fn, cfg_of(fn), call, call_stmt
        cands = [s for s in walk_local(fn) if isinstance(s, (ast.Assert, ast.Raise))]
        self.swallowed = [s for s in cands if dead or _swallowed(s, fn)]
        self.enforcers = [Enforcer(self.cfg, s, fn) for s in cands if not (dead or _swallowed(s, fn))]


class InitFacts:
    def __init__(self, repo):
        self.init = repo.fn(BASE, INIT)
        self.cfg = cfg_of(self.init)
        cls = enclosing_class(self.init)
        self.scopes: List[Scope] = [Scope(self.init)]
        for c in walk_local(self.init):
            if isinstance(c, ast.Call) and isinstance(c.func, ast.Attribute) and isinstance(c.func.value, ast.Name) and c.func.value.id == "self" and cls is not None:
                r = repo.lookup_method(cls._module, cls, c.func.attr)
                if r is not None and isinstance(r[1], FuncNode) and r[1] is not self.init and enclosing_class(r[1]) is not None and all(sc.fn is not r[1] for sc in self.scopes):
                    st = self.cfg.stmt_of(c)
                    self.scopes.append(Scope(r[1], c, st, dead=_swallowed(st, self.init)))
        self.params = [a.arg for a in self.init.args.args]
        self.stores: Dict[str, List[ast.stmt]] = {n: [] for n in OWNED}
        for s in walk_local(self.init):
            if isinstance(s, ast.Assign):
                tgs, val = s.targets, s.value
            elif isinstance(s, ast.AnnAssign) and s.value is not None:
                tgs, val = [s.target], s.value
            else:
                continue
            for t in tgs:
                a = _self_attr(t)
                if a in OWNED:
                    self.stores[a].append(s)
        for n in OWNED:
            if not self.stores[n]:
                raise AnalysisError(f"C07: TemplatedFile.__init__ no longer stores self.{n}")
        self.enforcers = [e for sc in self.scopes for e in sc.enforcers]
        self.swallowed = [x for sc in self.scopes for x in sc.swallowed]

    def covered(self, sc: Scope, store: ast.stmt, node) -> bool:
        """Every path from ``store`` to the constructor's normal exit passes ``node`` of ``sc``."""
        if sc.call is None:
            return must_pass(self.cfg, store, self.cfg.exit, [node])
        return must_pass(self.cfg, store, self.cfg.exit, [sc.call_stmt]) and must_pass(sc.cfg, sc.cfg.entry, sc.cfg.exit, [node])

    def provided_stores(self, attr: str) -> List[ast.stmt]:
        out = []
        for s in self.stores[attr]:
            if any(l.kind == "param" for l in _vleaves(self.cfg, s.value, s)):
                out.append(s)
        return out

    def stored_text(self, sc: Scope, e: ast.AST, at, attr: str, conds: List[Tuple[ast.AST, bool]]) -> bool:
        """``e`` is the text stored in ``self.<attr>``: the attribute itself, or the parameter
        it is stored from (for the rendered text: under 'the parameter is not None')."""
        e = _res(sc.cfg, e, at)
        if _self_attr(e, attr):
            return True
        p = is_param(sc.cfg, e, at)
        if p is None:
            return False
        if sc.call is not None:
            # a parameter of the helper: judge the argument of the call in the constructor
            from ..flow import bind_args

            arg = bind_args(sc.call, sc.fn, bound=True).get(p)
            if arg is None:
                return False
            outer = list(self.cfg.conditions(sc.call_stmt))
            if isinstance(arg, ast.Name) and any(_set_atom(c, pol) == (p, True) and not isinstance(c, ast.Name) for c, pol in conds):
                outer.append((ast.Compare(left=ast.Name(id=arg.id, ctx=ast.Load()), ops=[ast.IsNot()], comparators=[ast.Constant(value=None)]), True))
            return self.stored_text(self.scopes[0], arg, sc.call_stmt, attr, outer)
        for s in self.stores[attr]:
            ls = _vleaves(self.cfg, s.value, s)
            if all(l.kind == "param" and l.expr.arg == p for l in ls) and ls:
                return True
            # ``a if p is None else p``: the parameter is the stored value where it is not None
            if isinstance(s.value, ast.IfExp) and any(l.kind == "param" and l.expr.arg == p for l in ls):
                if any(_set_atom(c, pol) == (p, True) and not isinstance(c, ast.Name) for c, pol in conds):
                    return True
        return False


def _list_loops(facts: InitFacts, attr: str) -> List[Tuple[Scope, ast.For, str]]:
    """``for`` statements of the constructor (or of a helper it calls on self) that iterate over
    the stored list ``attr``, with the name of the element variable."""
    out = []
    for sc in facts.scopes:
        for s in walk_local(sc.fn):
            if not isinstance(s, ast.For):
                continue
            it, tgt = s.iter, s.target
            if isinstance(it, ast.Call) and isinstance(it.func, ast.Name) and it.func.id == "enumerate" and it.args:
                it = it.args[0]
                tgt = tgt.elts[1] if isinstance(tgt, ast.Tuple) and len(tgt.elts) == 2 else None
            it = _res(sc.cfg, it, s)
            if _self_attr(it, attr) and isinstance(tgt, ast.Name):
                out.append((sc, s, tgt.id))
    return out


def _mentions(facts: InitFacts, field: str) -> bool:
    return any(isinstance(n, ast.Attribute) and n.attr == field and isinstance(n.ctx, ast.Load) for e in facts.enforcers + [type("S", (), {"stmt": s})() for s in facts.swallowed] for g in [e.stmt] + list(getattr(e, "ifs", [])) for n in ast.walk(g.test if isinstance(g, (ast.If, ast.Assert)) else g))


def _is_elem(cfg, loop: ast.For, name: str, at) -> bool:
    """``name`` at ``at`` can only be the element variable of ``loop``."""
    os_ = origins(cfg, ast.Name(id=name, ctx=ast.Load()), at)
    return bool(os_) and all(o.kind == "for" and o.stmt is loop for o in os_)


def _r07a_raw(chk, facts: InitFacts) -> None:
    init = facts.init
    loops = _list_loops(facts, "raw_sliced")
    chk.count("R07a.raw_loops", len(loops))
    found = None
    for sc, loop, x in loops:
        cfg, init = sc.cfg, sc.fn
        for en in sc.enforcers:
            if not _in_block(en.stmt, loop.body) or _innermost_loop(en.stmt, init) is not loop:
                continue
            for t in en.terms:
                if len(t) != 1:
                    continue
                d = _differs(*t[0])
                if d is None:
                    continue
                for a, b in (d, d[::-1]):
                    fa = _field(cfg, a, en.stmt)
                    if fa is not None and fa[1] == ("source_idx",) and _is_elem(cfg, loop, fa[0], en.stmt) and isinstance(_res(cfg, b, en.stmt), ast.Name):
                        found = (sc, loop, x, en, _res(cfg, b, en.stmt).id)
    if found is None:
        if not loops and _mentions(facts, "source_idx"):
            raise AnalysisError("C07/R07a: TemplatedFile.__init__ compares source_idx but not in a loop over self.raw_sliced (check rewritten; re-read it)")
        chk.fail(
            "R07a", init,
            "TemplatedFile.__init__ has no loop over the stored raw slices that refuses (assert / raise, unconditionally, with an equality test) a slice whose source_idx is not the running position: "
            "raw slices that do not tile the source are accepted",
            detail="raw list: every slice starts at the running position", construct=CON_INIT,
        )
        return
    sc, loop, x, en, pos = found
    cfg, init = sc.cfg, sc.fn
    chk.ok("R07a", CON_INIT, "raw list: every slice starts at the running position")
    bt, bf = branch_of(cfg, loop, True), branch_of(cfg, loop, False)
    top = en._top(loop)
    chk.require(
        bt is not None and must_pass(cfg, bt, loop, [top]), "R07a", en.stmt,
        "an iteration over the raw slices can reach the next slice without the position comparison being evaluated", detail="raw list: compared on every iteration", construct=CON_INIT,
    )
    # the running position
    rd = cfg.reaching()
    ds = rd.defs_at(top, pos)
    outside = [d for d in ds if d.stmt is None or not _inside(d.stmt, loop)]
    inside = [d for d in ds if d.stmt is not None and _inside(d.stmt, loop)]
    zero = bool(outside) and all(d.kind == "assign" and not d.path and isinstance(d.value, ast.Constant) and d.value.value == 0 and d.value.value is not False for d in outside)
    chk.require(zero, "R07a", outside[0].stmt if outside and outside[0].stmt is not None else loop, f"the running position '{pos}' does not start at the constant 0 on every path into the loop", detail="raw list: position starts at 0", construct=CON_INIT)

    def advance(d) -> bool:
        st = d.stmt
        if d.path:
            return False
        v = d.value
        if d.kind == "aug":
            if not (isinstance(st, ast.AugAssign) and isinstance(st.op, ast.Add)):
                return False
            arg = _len_of(cfg, v, st)
        elif d.kind == "assign":
            v = _res(cfg, v, st)
            if isinstance(v, ast.Call) and isinstance(v.func, ast.Attribute) and v.func.attr == "end_source_idx" and isinstance(v.func.value, ast.Name) and _is_elem(cfg, loop, v.func.value.id, st):
                return True
            if not (isinstance(v, ast.BinOp) and isinstance(v.op, ast.Add)):
                return False
            arg = None
            for l, r_ in ((v.left, v.right), (v.right, v.left)):
                base_ok = (isinstance(l, ast.Name) and l.id == pos) or (_field(cfg, l, st) or (None, None))[1] == ("source_idx",)
                if base_ok and _len_of(cfg, r_, st) is not None:
                    arg = _len_of(cfg, r_, st)
        else:
            return False
        fa = _field(cfg, arg, st) if arg is not None else None
        return fa is not None and fa[1] == ("raw",) and _is_elem(cfg, loop, fa[0], st)

    in_defs = []
    for s in walk_local(loop):
        if isinstance(s, ast.stmt) and _in_block(s, loop.body):
            from ..cfg import defs_of_stmt

            in_defs += [d for d in defs_of_stmt(s) if d.name == pos]
    bad = [d for d in in_defs if not advance(d)]
    advs = [d.stmt for d in in_defs if advance(d)]
    chk.require(
        not bad and bool(advs), "R07a", bad[0].stmt if bad else loop,
        f"inside the loop the running position '{pos}' is " + (f"assigned something other than its old value plus len(<slice>.raw): {short(bad[0].stmt, 60)}" if bad else "never advanced"),
        detail="raw list: position advanced by the slice's length only", construct=CON_INIT,
    )
    if advs:
        chk.require(
            bt is not None and must_pass(cfg, bt, loop, advs) and all(cfg.dominates(top, a) for a in advs), "R07a", advs[0],
            "the running position is not advanced on every iteration, or it is advanced before it was compared with the slice's start", detail="raw list: position advanced on every iteration after the comparison", construct=CON_INIT,
        )
    # total
    tot = None
    for e2 in sc.enforcers:
        if _innermost_loop(e2.stmt, init) is not None:
            continue
        for t in e2.terms:
            if len(t) != 1:
                continue
            d = _differs(*t[0])
            if d is None:
                continue
            for a, b in (d, d[::-1]):
                ra = _res(cfg, a, e2.stmt)
                lb = _len_of(cfg, b, e2.stmt)
                if isinstance(ra, ast.Name) and ra.id == pos and lb is not None and facts.stored_text(sc, lb, e2.stmt, "source_str", []):
                    if all(d_.stmt is not None and (any(d_.stmt is o.stmt for o in outside) or d_.stmt in advs) for d_ in rd.defs_at(e2.stmt, pos)):
                        tot = e2
    ok_tot = tot is not None and bf is not None and must_pass(cfg, bf, cfg.exit, [tot._top(None)])
    chk.require(
        ok_tot, "R07a", tot.stmt if tot is not None else loop,
        "after the loop over the raw slices nothing refuses (unconditionally, with an equality test, on every path to the normal exit) a final position that differs from len(<stored source text>): "
        "raw slices that stop short of, or run past, the end of the source are accepted",
        detail="raw list: final position equals the length of the stored source", construct=CON_INIT,
    )
    for s in facts.provided_stores("raw_sliced"):
        chk.require(
            facts.covered(sc, s, loop), "R07a", s,
            "a caller-provided raw slice list is stored on a path that reaches the constructor's normal exit without passing the tiling loop", detail="raw list: caller-provided list always checked", construct=CON_INIT,
        )
    chk.sample({"rule": "R07a", "list": "raw_sliced", "loop": f"{BASE}:{loop.lineno}", "element": x, "position": pos, "per_slice": short(en.stmt, 60), "total": short(tot.stmt, 60) if tot else None})


def _r07a_rendered(chk, facts: InitFacts) -> None:
    init = facts.init
    loops = _list_loops(facts, "sliced_file")
    chk.count("R07a.rendered_loops", len(loops))
    START, STOP = ("templated_slice", "start"), ("templated_slice", "stop")
    best = None
    for sc, loop, x in loops:
        cfg, init = sc.cfg, sc.fn
        chain, first = None, None
        for en in sc.enforcers:
            if not _in_block(en.stmt, loop.body) or _innermost_loop(en.stmt, init) is not loop:
                continue
            for t in en.terms:
                ds = [(i, _differs(e, p)) for i, (e, p) in enumerate(t)]
                ds = [(i, d) for i, d in ds if d is not None]
                if len(ds) != 1:
                    continue
                i, d = ds[0]
                ctx = [t[j] for j in range(len(t)) if j != i]
                for a, b in (d, d[::-1]):
                    fa = _field(cfg, a, en.stmt)
                    if not (fa is not None and fa[1] == START and _is_elem(cfg, loop, fa[0], en.stmt)):
                        continue
                    fb = _field(cfg, b, en.stmt)
                    rb = _res(cfg, b, en.stmt)
                    if fb is not None and fb[1] == STOP and fb[0] != fa[0]:
                        prev = fb[0]
                        sets = [_set_atom(e, p) for e, p in ctx]
                        if all(sa == (prev, True) for sa in sets):
                            chain = (en, prev)
                        else:
                            chain = chain or (en, prev, [short(e, 40) for (e, p), sa in zip(ctx, sets) if sa != (prev, True)])
                    elif isinstance(rb, ast.Constant) and rb.value == 0 and rb.value is not False:
                        first = (en, ctx)
        if chain is not None or first is not None:
            best = (sc, loop, x, chain, first)
    if best is None:
        if not loops and _mentions(facts, "templated_slice"):
            raise AnalysisError("C07/R07a: TemplatedFile.__init__ compares templated_slice bounds but not in a loop over self.sliced_file (check rewritten; re-read it)")
        chk.fail(
            "R07a", init,
            "TemplatedFile.__init__ has no loop over the stored rendered slices that refuses (assert / raise with an equality test) a slice that does not start where the previous one stopped: "
            "rendered slices with gaps or overlaps are accepted",
            detail="rendered list: every slice starts where the previous one stopped", construct=CON_INIT,
        )
        return
    sc, loop, x, chain, first = best
    cfg, init = sc.cfg, sc.fn
    bt, bf = branch_of(cfg, loop, True), branch_of(cfg, loop, False)
    rd = cfg.reaching()
    ok_chain = chain is not None and len(chain) == 2
    chk.require(
        ok_chain, "R07a", chain[0].stmt if chain else loop,
        "the comparison of a rendered slice's start with the previous slice's stop " + ("is missing (or not an equality test that raises)" if chain is None else f"only fails under additional conditions {chain[2] if len(chain) > 2 else []}"),
        detail="rendered list: every slice starts where the previous one stopped", construct=CON_INIT,
    )
    prev = chain[1] if chain else None
    if prev is not None:
        en = chain[0]
        top = en._top(loop)
        chk.require(bt is not None and must_pass(cfg, bt, loop, [top]), "R07a", en.stmt, "an iteration over the rendered slices can reach the next slice without the contiguity comparison being evaluated", detail="rendered list: compared on every iteration", construct=CON_INIT)
        ds = rd.defs_at(top, prev)
        outside = [d for d in ds if d.stmt is None or not _inside(d.stmt, loop)]
        none0 = bool(outside) and all(d.kind == "assign" and not d.path and isinstance(d.value, ast.Constant) and d.value.value is None for d in outside)
        chk.require(none0, "R07a", outside[0].stmt if outside and outside[0].stmt is not None else loop, f"'{prev}' (the previous slice) is not None on every path into the loop: the first slice is compared with something", detail="rendered list: no previous slice before the loop", construct=CON_INIT)
        from ..cfg import defs_of_stmt

        in_defs = [d for s in walk_local(loop) if isinstance(s, ast.stmt) and _in_block(s, loop.body) for d in defs_of_stmt(s) if d.name == prev]
        upd_ok = [d for d in in_defs if d.kind == "assign" and not d.path and isinstance(_res(cfg, d.value, d.stmt), ast.Name) and _is_elem(cfg, loop, _res(cfg, d.value, d.stmt).id, d.stmt)]
        bad = [d for d in in_defs if d not in upd_ok]
        upds = [d.stmt for d in upd_ok]
        chk.require(
            not bad and bool(upds) and bt is not None and must_pass(cfg, bt, loop, upds) and all(cfg.dominates(top, u) for u in upds), "R07a", bad[0].stmt if bad else (upds[0] if upds else loop),
            f"'{prev}' is not rebound to the current slice (and to nothing else) on every iteration after the comparison: slices are compared with a stale or wrong predecessor",
            detail="rendered list: previous slice is the element of the last iteration", construct=CON_INIT,
        )
        # first slice starts at 0
        ok_first, extra = False, None
        if first is not None:
            sets = [_set_atom(e, p) for e, p in first[1]]
            ok_first = all(sa == (prev, False) for sa in sets)
            extra = [short(e, 40) for (e, p), sa in zip(first[1], sets) if sa != (prev, False)]
        chk.require(
            ok_first and must_pass(cfg, bt, loop, [first[0]._top(loop)]), "R07a", first[0].stmt if first else loop,
            "the first rendered slice is not required to start at 0 " + ("(no equality test against the constant 0 that raises)" if first is None else f"(the test only fails under additional conditions {extra})"),
            detail="rendered list: first slice starts at 0", construct=CON_INIT,
        )
    # final stop == len(rendered text)
    fin, fin_extra = None, None
    for e2 in sc.enforcers:
        if _innermost_loop(e2.stmt, init) is not None:
            continue
        for t in e2.terms:
            ds = [(i, _differs(e, p)) for i, (e, p) in enumerate(t)]
            ds = [(i, d) for i, d in ds if d is not None]
            if len(ds) != 1:
                continue
            i, d = ds[0]
            ctx = [t[j] for j in range(len(t)) if j != i]
            for a, b in (d, d[::-1]):
                fa = _field(cfg, a, e2.stmt)
                lb = _len_of(cfg, b, e2.stmt)
                if fa is None or fa[1] != STOP or lb is None:
                    continue
                # the last element: the loop variable after the loop, the previous-slice local, or list[-1]
                last_ok = False
                dsl = rd.defs_at(e2.stmt, fa[0])
                if dsl and all((d_.kind == "for" and d_.stmt is loop) or (d_.kind == "assign" and isinstance(d_.value, ast.Constant) and d_.value.value is None) or (d_.kind == "assign" and d_.stmt is not None and _inside(d_.stmt, loop) and isinstance(d_.value, ast.Name) and _is_elem(cfg, loop, d_.value.id, d_.stmt)) for d_ in dsl) and any(d_.kind != "assign" or _inside(d_.stmt, loop) for d_ in dsl):
                    last_ok = True
                if not last_ok or not facts.stored_text(sc, lb, e2.stmt, "templated_str", ctx):
                    continue
                extra = []
                for e, p in ctx:
                    sa = _set_atom(e, p)
                    if sa is not None and sa[1] and (_follow(cfg, sa[0], e2.stmt) == fa[0] or facts.stored_text(sc, ast.Name(id=sa[0], ctx=ast.Load()), e2.stmt, "templated_str", ctx)):
                        continue  # a last element exists / the rendered text was given
                    ne = _nonempty_test(cfg, e, p, e2.stmt)
                    if ne is not None and _self_attr(_res(cfg, ne, e2.stmt), "sliced_file"):
                        continue  # the list is non-empty
                    extra.append(short(e, 40))
                if not extra:
                    fin = e2
                elif fin is None:
                    fin_extra = (e2, extra)
    ok_fin = fin is not None and bf is not None and must_pass(cfg, bf, cfg.exit, [fin._top(None)])
    chk.require(
        ok_fin, "R07a", (fin or (fin_extra[0] if fin_extra else None) or type("N", (), {"stmt": loop})()).stmt,
        "after the loop over the rendered slices nothing refuses (with an equality test that raises, on every path to the normal exit) a last slice whose stop differs from len(<stored rendered text>)"
        + (f"; the test that exists only fails under additional conditions {fin_extra[1]}" if fin is None and fin_extra else "")
        + ": rendered slices that stop short of, or run past, the end of the rendered SQL are accepted",
        detail="rendered list: last slice stops at the length of the stored rendered text", construct=CON_INIT,
    )
    for s in facts.provided_stores("sliced_file"):
        chk.require(
            facts.covered(sc, s, loop), "R07a", s,
            "a caller-provided rendered slice list is stored on a path that reaches the constructor's normal exit without passing the tiling loop", detail="rendered list: caller-provided list always checked", construct=CON_INIT,
        )
    chk.sample({"rule": "R07a", "list": "sliced_file", "loop": f"{BASE}:{loop.lineno}", "element": x, "previous": prev, "final": short(fin.stmt, 60) if fin else None})


def _r07a(chk, repo) -> InitFacts:
    facts = InitFacts(repo)
    chk.count("R07a.enforcers", len(facts.enforcers))
    for s in facts.swallowed:
        if any(isinstance(n, ast.Attribute) and n.attr in ("source_idx", "templated_slice") for n in ast.walk(s)) or any(
            isinstance(n, ast.Attribute) and n.attr in ("source_idx", "templated_slice") for g in facts.cfg.guards(s) if isinstance(g.stmt, ast.If) for n in ast.walk(g.stmt.test)
        ):
            chk.fail("R07a", s, "a tiling check of the constructor raises inside a try whose handlers may catch it in place: the TemplatedFile is built regardless", detail="tiling failure leaves the constructor", construct=CON_INIT)
    # the stored texts are the unmodified parameters (what the lengths are compared with)
    src_ok = all(all(l.kind == "param" and l.expr.arg == facts.params[1] for l in leaves(facts.cfg, s.value, s)) for s in facts.stores["source_str"])
    chk.require(src_ok, "R07a", facts.stores["source_str"][0], "self.source_str is not the unmodified source parameter: the raw tiling is checked against a different text than the caller's", detail="stored source text is the source parameter", construct=CON_INIT)
    tp = "templated_str"
    for s in facts.stores[tp]:
        ls = _vleaves(facts.cfg, s.value, s)
        ok = bool(ls) and all(l.kind == "param" and l.expr.arg in (tp, facts.params[1]) for l in ls)
        chk.require(ok, "R07a", s, "self.templated_str is not one of the unmodified text parameters: the rendered tiling is checked against a different text than the caller's", detail="stored rendered text is a text parameter", construct=CON_INIT)
    _r07a_raw(chk, facts)
    _r07a_rendered(chk, facts)
    return facts


# ---------------------------------------------------------------------------
# R07b
# ---------------------------------------------------------------------------
def _is_tf_class(repo, m, c) -> bool:
    return any(cc.name == TF and mm.relpath == BASE for mm, cc in repo.mro(m, c))


def _ann_class(repo, m, a: Optional[ast.AST], depth: int = 0):
    """Class named by an annotation (Optional[..] / quotes / ``| None`` looked through)."""
    if a is None or depth > 4:
        return None
    if isinstance(a, ast.Constant) and isinstance(a.value, str):
        try:
            a = ast.parse(a.value, mode="eval").body
        except SyntaxError:
            return None
    if isinstance(a, ast.BinOp) and isinstance(a.op, ast.BitOr):
        return _ann_class(repo, m, a.left, depth + 1) or _ann_class(repo, m, a.right, depth + 1)
    if isinstance(a, ast.Subscript) and norm(a.value).split(".")[-1] in ("Optional", "Final", "ClassVar"):
        return _ann_class(repo, m, a.slice, depth + 1)
    if isinstance(a, (ast.Name, ast.Attribute)):
        r = repo.resolve_name(m, norm(a))
        if r and isinstance(r[1], ast.ClassDef):
            return r
    return None


def _receiver(repo, node: ast.AST, recv: ast.AST, depth: int = 0):
    """('tf' | 'other', class name) for the object ``recv`` denotes at ``node``; None = unknown."""
    m = node._module
    if isinstance(recv, ast.Attribute) and recv.attr == "templated_file":
        return "tf", TF
    if isinstance(recv, ast.Call):
        r = repo.resolve_name(m, call_name(recv)) if call_name(recv) and "()" not in call_name(recv) and not call_name(recv).startswith("?") else None
        if r and isinstance(r[1], ast.ClassDef):
            return ("tf" if _is_tf_class(repo, r[0], r[1]) else "other"), r[1].name
        if isinstance(recv.func, ast.Attribute) and recv.func.attr == "from_string" and norm(recv.func.value).split(".")[-1] == TF:
            return "tf", TF
        return None
    if not isinstance(recv, ast.Name):
        return None
    fn = enclosing_function(node)
    if recv.id in ("self", "cls"):
        f = fn
        while f is not None:
            c = enclosing_class(f)
            if c is not None and isinstance(f, FuncNode) and f.args.args and f.args.args[0].arg == recv.id:
                return ("tf" if _is_tf_class(repo, c._module, c) else "other"), c.name
            f = enclosing_function(f)
        return None
    f = fn
    while f is not None:
        if isinstance(f, FuncNode):
            for a in f.args.posonlyargs + f.args.args + f.args.kwonlyargs:
                if a.arg == recv.id:
                    r = _ann_class(repo, f._module, a.annotation)
                    if r:
                        return ("tf" if _is_tf_class(repo, r[0], r[1]) else "other"), r[1].name
                    return None
            kinds = set()
            for n in walk_local(f):
                val = None
                if isinstance(n, ast.AnnAssign) and isinstance(n.target, ast.Name) and n.target.id == recv.id:
                    r = _ann_class(repo, f._module, n.annotation)
                    if r:
                        kinds.add(("tf" if _is_tf_class(repo, r[0], r[1]) else "other", r[1].name))
                        continue
                    val = n.value
                elif isinstance(n, ast.Assign) and any(isinstance(t, ast.Name) and t.id == recv.id for t in n.targets):
                    val = n.value
                elif isinstance(n, ast.Assign) and isinstance(n.value, ast.Call):
                    for t in n.targets:
                        if isinstance(t, ast.Tuple) and not any(isinstance(e, ast.Starred) for e in t.elts):
                            for i, e in enumerate(t.elts):
                                if isinstance(e, ast.Name) and e.id == recv.id:
                                    kinds.add(_result_component(repo, n.value, i))
                if val is not None and depth < 3:
                    kinds.add(_receiver(repo, n, val, depth + 1))
            if kinds:
                if None in kinds:
                    return None
                if any(k[0] == "tf" for k in kinds):
                    return "tf", TF
                return sorted(kinds)[0]
        f = enclosing_function(f)
    return None


def _result_component(repo, call: ast.Call, i: int):
    """Class of component ``i`` of the tuple a resolvable callee is annotated to return."""
    r = callee(repo, call)
    if r is None or not isinstance(r[1], FuncNode) or r[1].returns is None:
        return None
    a = r[1].returns
    if isinstance(a, ast.Constant) and isinstance(a.value, str):
        try:
            a = ast.parse(a.value, mode="eval").body
        except SyntaxError:
            return None
    if isinstance(a, ast.Subscript) and norm(a.value).split(".")[-1] in ("tuple", "Tuple") and isinstance(a.slice, ast.Tuple) and i < len(a.slice.elts):
        c = _ann_class(repo, r[0], a.slice.elts[i])
        if c:
            return ("tf" if _is_tf_class(repo, c[0], c[1]) else "other"), c[1].name
    return None


def _callee_param_mutated(repo, call: ast.Call, arg_node: ast.AST) -> Optional[str]:
    """Name of the callee when ``arg_node`` is handed to a resolvable in-tree function that
    mutates the corresponding parameter in place."""
    from ..flowutil import mutations_of

    r = callee(repo, call)
    if r is None or not isinstance(r[1], FuncNode):
        return None
    fn = r[1]
    ps = [a.arg for a in fn.args.posonlyargs + fn.args.args]
    bound = isinstance(call.func, ast.Attribute) and ps and ps[0] in ("self", "cls")
    if bound:
        ps = ps[1:]
    pname = None
    for i, a in enumerate(call.args):
        if a is arg_node and i < len(ps):
            pname = ps[i]
    for k in call.keywords:
        if k.value is arg_node:
            pname = k.arg
    if pname and mutations_of(fn, pname):
        return fn.name
    return None


def _r07b(chk, repo, facts: InitFacts) -> None:
    init = facts.init
    n_sites = n_reads = n_unres = 0

    def where_(node) -> str:
        fn = enclosing_function(node)
        while fn is not None and not hasattr(fn, "_qualname"):
            fn = enclosing_function(fn)
        return getattr(fn, "_qualname", "<module>")

    def judge(node, recv, name, how) -> None:
        nonlocal n_sites
        n_sites += 1
        fn = enclosing_function(node)
        if fn is init and isinstance(recv, ast.Name) and recv.id == "self" and how == "store":
            chk.ok("R07b", CON_INIT, f"owner store of {name}")
            return
        k = _receiver(repo, node, recv)
        if k is not None and k[0] == "other":
            chk.ok("R07b", construct_of(node), f"{how} of .{name} on a {k[1]} (not a TemplatedFile)")
            return
        who = "a TemplatedFile" if k is not None else "an object whose class cannot be resolved (it may be a TemplatedFile)"
        chk.fail(
            "R07b", node,
            f"{how} of .{name} on {who} outside TemplatedFile.__init__: the tiling checked at construction no longer describes the object",
            detail=f"{how} .{name} in {where_(node)}",
        )

    for m in repo.iter_modules():
        if not any(n in m.text for n in OWNED) and TF not in m.text:
            continue
        for node in ast.walk(m.tree):
            if isinstance(node, ast.Attribute) and node.attr in OWNED and isinstance(node.ctx, (ast.Store, ast.Del)):
                judge(node, node.value, node.attr, "store" if isinstance(node.ctx, ast.Store) else "delete")
            elif isinstance(node, ast.Call):
                cn = call_name(node)
                if cn in ("setattr", "object.__setattr__", "delattr", "object.__delattr__") and len(node.args) >= 2 and isinstance(node.args[1], ast.Constant) and node.args[1].value in OWNED:
                    judge(node, node.args[0], node.args[1].value, "setattr")
                elif isinstance(node.func, ast.Attribute) and node.func.attr in LIST_MUTATORS and isinstance(node.func.value, ast.Attribute) and node.func.value.attr in LISTS:
                    judge(node, node.func.value.value, node.func.value.attr, f"in-place {node.func.attr}()")
                elif isinstance(node.func, ast.Attribute) and node.func.attr == "update" and isinstance(node.func.value, ast.Attribute) and node.func.value.attr == "__dict__":
                    for k in node.keywords:
                        if k.arg in OWNED:
                            judge(node, node.func.value.value, k.arg, "__dict__.update")
                elif isinstance(node.func, ast.Attribute) and node.func.attr == "__new__" and node.args:
                    r = repo.resolve_name(m, norm(node.args[0])) if isinstance(node.args[0], (ast.Name, ast.Attribute)) else None
                    if (r and isinstance(r[1], ast.ClassDef) and _is_tf_class(repo, r[0], r[1])) or (isinstance(node.args[0], ast.Name) and node.args[0].id == "cls" and enclosing_class(node) is not None and _is_tf_class(repo, m, enclosing_class(node))):
                        n_sites += 1
                        chk.fail("R07b", node, "a TemplatedFile is created through __new__: the constructor's tiling checks are bypassed", detail=f"__new__ construction in {where_(node)}")
            elif isinstance(node, ast.Subscript) and isinstance(node.ctx, (ast.Store, ast.Del)):
                b = node.value
                if isinstance(b, ast.Attribute) and b.attr in LISTS:
                    judge(node, b.value, b.attr, "item assignment")
                elif isinstance(b, ast.Attribute) and b.attr == "__dict__" and isinstance(node.slice, ast.Constant) and node.slice.value in OWNED:
                    judge(node, b.value, node.slice.value, "__dict__ write")
        # reads of a TemplatedFile's list: aliases and hand-overs
        for node in ast.walk(m.tree):
            if not (isinstance(node, ast.Attribute) and node.attr in LISTS and isinstance(node.ctx, ast.Load)):
                continue
            k = _receiver(repo, node, node.value)
            if k is None:
                n_unres += 1
            if k is None or k[0] != "tf":
                continue
            n_reads += 1
            par = getattr(node, "_parent", None)
            fn = enclosing_function(node)
            if isinstance(par, (ast.Assign, ast.AnnAssign)) and par.value is node and isinstance(fn, FuncNode):
                tg = par.targets[0] if isinstance(par, ast.Assign) else par.target
                if isinstance(tg, ast.Name):
                    from ..flowutil import mutations_of

                    cfg = cfg_of(fn)
                    rd = cfg.reaching()
                    for kind, mn in mutations_of(fn, tg.id):
                        st = cfg.stmt_of(mn)
                        if st is not None and any(d.stmt is par for d in rd.defs_at(st, tg.id)):
                            n_sites += 1
                            chk.fail("R07b", mn, f"the {node.attr} list of a TemplatedFile is changed in place ({kind}) through the local '{tg.id}': the tiling checked at construction no longer describes the object", detail=f"in-place {kind} through an alias of .{node.attr} in {where_(node)}")
            elif isinstance(par, ast.Call) and (node in par.args or any(kw.value is node for kw in par.keywords)):
                cal = _callee_param_mutated(repo, par, node)
                if cal:
                    n_sites += 1
                    chk.fail("R07b", par, f"the {node.attr} list of a TemplatedFile is handed to {cal}(), which changes its parameter in place", detail=f".{node.attr} handed to mutating {cal} in {where_(node)}")
            elif isinstance(par, ast.keyword) and isinstance(getattr(par, "_parent", None), ast.Call):
                cal = _callee_param_mutated(repo, par._parent, node)
                if cal:
                    n_sites += 1
                    chk.fail("R07b", par._parent, f"the {node.attr} list of a TemplatedFile is handed to {cal}(), which changes its parameter in place", detail=f".{node.attr} handed to mutating {cal} in {where_(node)}")
    chk.count("R07b.write_sites_examined", n_sites)
    chk.count("R07b.list_reads_examined", n_reads)
    chk.count("R07b.list_reads_receiver_unresolved", n_unres)
    chk.floor("R07b.write_sites_examined", 6)
    chk.floor("R07b.list_reads_examined", 4)
    # subclasses
    n_sub = 0
    for m, c in repo.subclasses_of(TF):
        if c.name == TF and m.relpath == BASE:
            continue
        if not _is_tf_class(repo, m, c):
            continue
        n_sub += 1
        for item in c.body:
            if isinstance(item, FuncNode) and item.name == "__init__":
                calls_base = any(isinstance(x, ast.Call) and isinstance(x.func, ast.Attribute) and x.func.attr == "__init__" and (norm(x.func.value).startswith("super(") or norm(x.func.value).split(".")[-1] == TF) for x in walk_local(item))
                cfg = cfg_of(item)
                sup = [cfg.stmt_of(x) for x in walk_local(item) if isinstance(x, ast.Call) and isinstance(x.func, ast.Attribute) and x.func.attr == "__init__"]
                chk.require(calls_base and must_pass(cfg, cfg.entry, cfg.exit, sup), "R07b", item, f"{c.name}.__init__ does not call TemplatedFile.__init__ on every path: instances exist whose slices were never checked", detail=f"{c.name}.__init__ calls the base constructor")
            if isinstance(item, FuncNode) and item.name == "__new__":
                chk.fail("R07b", item, f"{c.name} defines __new__", detail=f"{c.name}.__new__")
    chk.count("R07b.subclasses", n_sub)


# ---------------------------------------------------------------------------
# R07c
# ---------------------------------------------------------------------------
def _tf_calls(repo) -> List[ast.Call]:
    out = []
    for m in repo.iter_modules():
        if TF not in m.text:
            continue
        for node in ast.walk(m.tree):
            if not isinstance(node, ast.Call):
                continue
            f = node.func
            if isinstance(f, ast.Name) and f.id == "cls":
                fn = enclosing_function(node)
                c = enclosing_class(node)
                if c is not None and c.name == TF and m.relpath == BASE and isinstance(fn, FuncNode) and fn.args.args and fn.args.args[0].arg == "cls":
                    out.append(node)
                continue
            if isinstance(f, (ast.Name, ast.Attribute)):
                cn = call_name(node)
                if not cn or cn.startswith("?") or "()" in cn or cn.split(".")[-1] != TF:
                    continue
                r = repo.resolve_name(m, cn)
                if r and isinstance(r[1], ast.ClassDef) and r[1].name == TF and r[0].relpath == BASE:
                    out.append(node)
    return out


def _same_leafset(a, b) -> bool:
    ka = {(id(l.expr) if l.kind != "param" else l.expr.arg, l.path, l.kind) for l in a}
    kb = {(id(l.expr) if l.kind != "param" else l.expr.arg, l.path, l.kind) for l in b}
    return bool(ka) and ka == kb


def _fresh_list(e: ast.AST) -> bool:
    return isinstance(e, (ast.List, ast.ListComp)) or (isinstance(e, ast.Call) and call_name(e) == "list")


def _method(repo, call: ast.Call):
    r = callee(repo, call)
    return r[1] if r is not None and isinstance(r[1], FuncNode) else None


def _check_remapper(chk, repo, fn, con: str) -> None:
    """One output slice per input slice, only ``source_slice`` replaced."""
    cfg = cfg_of(fn)
    ps = [a.arg for a in fn.args.posonlyargs + fn.args.args if a.arg not in ("self", "cls")]
    rets = [r for r in walk_local(fn) if isinstance(r, ast.Return) and r.value is not None]
    ok = bool(rets)
    why = "it returns nothing"
    for r in rets:
        ls = leaves(cfg, r.value, r)
        if not (ls and all(l.kind == "expr" and _fresh_list(l.expr) and not (isinstance(l.expr, ast.List) and l.expr.elts) for l in ls) and isinstance(r.value, ast.Name)):
            ok, why = False, f"it returns {short(r.value, 40)!r}, not a list it built itself"
            continue
        out = r.value.id
        apps = [c for c in walk_local(fn) if isinstance(c, ast.Call) and isinstance(c.func, ast.Attribute) and c.func.attr in LIST_MUTATORS + ("extend",) and isinstance(c.func.value, ast.Name) and c.func.value.id == out]
        loops = {id(_innermost_loop(c, fn)): _innermost_loop(c, fn) for c in apps}
        if len(loops) != 1 or None in loops.values() or not apps:
            ok, why = False, "the output list is not filled by one loop"
            continue
        loop = next(iter(loops.values()))
        src = leaves(cfg, loop.iter, loop)
        if not (isinstance(loop, ast.For) and isinstance(loop.target, ast.Name) and src and all(l.kind == "param" and l.expr.arg in ps for l in src)):
            ok, why = False, "the loop does not run over the slice list parameter"
            continue
        x = loop.target.id
        for c in apps:
            a0 = c.args[0] if c.args else None
            good = c.func.attr == "append" and isinstance(a0, ast.Call)
            if good and isinstance(a0.func, ast.Attribute) and a0.func.attr == "_replace":
                good = isinstance(a0.func.value, ast.Name) and a0.func.value.id == x and not a0.args and {k.arg for k in a0.keywords} == {"source_slice"}
            elif good and last_attr(a0) == "TemplatedFileSlice":
                fields = ["slice_type", "source_slice", "templated_slice"]
                st, ts = ctor_arg(a0, fields, "slice_type"), ctor_arg(a0, fields, "templated_slice")
                good = all(v is not None and _field(cfg, v, cfg.stmt_of(c)) == (x, (nm,)) for v, nm in ((st, "slice_type"), (ts, "templated_slice")))
            else:
                good = False
            if not good:
                ok, why = False, f"it appends {short(a0, 50) if a0 is not None else '?'!r}: not the input slice with only its source_slice replaced"
        st_apps = [cfg.stmt_of(c) for c in apps]
        bt = branch_of(cfg, loop, True)
        if bt is None or not must_pass(cfg, bt, loop, st_apps):
            ok, why = False, "an input slice can be dropped (an iteration reaches the next one without appending)"
        if any(_after(cfg, a, b, lambda n: n is loop) for a in st_apps for b in st_apps):
            ok, why = False, "an input slice can be emitted twice in one iteration"
    chk.require(ok, "R07c", fn, f"the variant re-mapper {fn.name}: {why}; the rendered tiling of the variant's trace is not carried over to the re-mapped list", detail=f"variant re-mapper {fn.name}: one slice out per slice in, rendered span untouched", construct=con)


def _check_generator(chk, repo, gen_fn, consumer_src_param_pos: Optional[int], con: str) -> None:
    cfg = cfg_of(gen_fn)
    ps = [a.arg for a in gen_fn.args.posonlyargs + gen_fn.args.args if a.arg not in ("self", "cls")]
    ys = [y for y in ast.walk(gen_fn) if isinstance(y, ast.Yield) and enclosing_function(y) is gen_fn]
    chk.count("R07c.variant_yields", len(ys))
    if not ys:
        chk.fail("R07c", gen_fn, f"{gen_fn.name} yields nothing: not a generator of (raw slices, rendered slices, rendered text)", detail=f"{gen_fn.name}: yields triples", construct=con)
        return
    for y in ys:
        st = cfg.stmt_of(y)
        v = y.value
        if not (isinstance(v, ast.Tuple) and len(v.elts) == 3):
            chk.fail("R07c", y, f"{gen_fn.name} yields {short(v, 50) if v is not None else 'None'!r}, not a (raw slices, rendered slices, rendered text) display", detail=f"{gen_fn.name}: yields triples", construct=con)
            continue
        raw_e, sl_e, txt_e = v.elts
        # rendered text and rendered list from the same trace object
        ft = _field(cfg, txt_e, st)
        ok_pair, why = False, "the rendered text is not <trace>.templated_str"
        remap = None
        if ft is not None and ft[1] == ("templated_str",):
            t_or = origins(cfg, ast.Name(id=ft[0], ctx=ast.Load()), st)
            why = "the rendered slices do not derive from <the same trace>.sliced_file"
            for l in leaves(cfg, sl_e, st):
                cands = []
                if l.kind == "expr" and isinstance(l.expr, ast.Call):
                    cands = [(a, l.stmt) for a in list(l.expr.args) + [k.value for k in l.expr.keywords]]
                    remap_fn = _method(repo, l.expr)
                elif l.kind == "expr":
                    cands, remap_fn = [(l.expr, l.stmt)], None
                else:
                    cands, remap_fn = [], None
                hit = False
                for a, at in cands:
                    fs = _field(l.cfg, a, at)
                    if fs is not None and fs[1] == ("sliced_file",) and fs[0] == ft[0]:
                        s_or = origins(l.cfg, ast.Name(id=fs[0], ctx=ast.Load()), at)
                        if {(id(o.expr), o.path, id(o.stmt)) for o in s_or} == {(id(o.expr), o.path, id(o.stmt)) for o in t_or}:
                            hit = True
                if not hit:
                    ok_pair = False
                    break
                ok_pair = True
                remap = remap_fn or remap
        chk.require(ok_pair, "R07c", y, f"{gen_fn.name}: {why}: a variant's slice list and its rendered text come from different renderings", detail=f"{gen_fn.name}: rendered list and rendered text of one trace", construct=con)
        if remap is not None:
            _check_remapper(chk, repo, remap, con)
        # raw list: analysis of the unmodified source parameter
        fr = _field(cfg, raw_e, st)
        ok_raw, why = False, "the raw slices are not <tracer>.raw_sliced"
        if fr is not None and fr[1] == ("raw_sliced",):
            why = "the tracer does not come from analysing the generator's unmodified source parameter"
            k_leaves = leaves(cfg, ast.Name(id=fr[0], ctx=ast.Load()), st)
            ok_raw = bool(k_leaves)
            for l in k_leaves:
                x = l.expr
                good = False
                if l.kind == "expr" and isinstance(x, ast.Call) and isinstance(x.func, ast.Attribute) and isinstance(x.func.value, ast.Name):
                    for al in leaves(l.cfg, x.func.value, l.stmt):
                        ax = al.expr
                        if al.kind == "expr" and isinstance(ax, ast.Call) and ax.args and ps and is_param(al.cfg, ax.args[0], al.stmt, ps[0]) is not None:
                            good = True
                        else:
                            good = False
                            break
                if not good:
                    ok_raw = False
        chk.require(ok_raw, "R07c", y, f"{gen_fn.name}: {why}: the variant's raw slices describe another text than the file", detail=f"{gen_fn.name}: raw list is the analysis of the unmodified source", construct=con)


def _r07c(chk, repo) -> None:
    tf_cls = repo.cls(BASE, TF)
    fields = ctor_fields(repo, tf_cls)
    for need in ("source_str", "templated_str") + LISTS:
        if need not in fields:
            raise AnalysisError(f"C07: TemplatedFile.__init__ no longer takes '{need}'")
    calls = _tf_calls(repo)
    chk.count("R07c.construction_sites", len(calls))
    chk.floor("R07c.construction_sites", 8)
    shapes: Dict[str, int] = {}
    gens_done: Set[int] = set()
    for call in sorted(calls, key=lambda c: (c._module.relpath, c.lineno)):
        fn = enclosing_function(call)
        while fn is not None and not isinstance(fn, FuncNode):
            fn = enclosing_function(fn)
        con = construct_of(call)
        tag = f"{con.split('::')[-1]}"
        if fn is None:
            chk.fail("R07c", call, "TemplatedFile constructed at module level", detail="construction inside a function")
            continue
        if any(isinstance(a, ast.Starred) for a in call.args) or any(k.arg is None for k in call.keywords):
            chk.fail("R07c", call, "TemplatedFile(*args / **kwargs): the arguments cannot be seen", detail=f"{tag}: explicit arguments")
            continue
        cfg = cfg_of(fn)
        at = cfg.stmt_of(call)
        a = {n: ctor_arg(call, fields, n) for n in ("source_str", "templated_str") + LISTS}
        given = [n for n in LISTS if a[n] is not None and not (isinstance(a[n], ast.Constant) and a[n].value is None)]
        if not given:
            shapes["unsliced"] = shapes.get("unsliced", 0) + 1
            chk.ok("R07c", con, "unsliced: the constructor builds the identity map")
            continue
        if len(given) != 2:
            chk.fail("R07c", call, f"TemplatedFile is given {given[0]} but not {[n for n in LISTS if n not in given][0]}", detail=f"{tag}: both slice lists or neither")
            continue
        t = a["templated_str"]
        t_none = t is None or any(l.kind == "expr" and isinstance(l.expr, ast.Constant) and l.expr.value is None for l in leaves(cfg, t, at))
        chk.require(
            not t_none, "R07c", call,
            "a sliced TemplatedFile is built without a rendered text (or with one that may be None): the constructor then takes the source as rendered text and skips the final-length check of the rendered slices",
            detail=f"{tag}: sliced construction passes the rendered text", construct=con,
        )
        if t_none:
            continue
        ls = {n: leaves(cfg, a[n], at) for n in ("templated_str",) + LISTS}
        src_l = leaves(cfg, a["source_str"], at) if a["source_str"] is not None else []
        allv = [l for n in ls for l in ls[n]]
        shape, ok, why = None, False, ""
        # (D) copy of an existing TemplatedFile
        fds = {n: _field(cfg, a[n], at) for n in ("source_str", "templated_str") + LISTS if a[n] is not None}
        if len(fds) == 4 and all(v is not None and v[1] == (n,) for n, v in fds.items()) and len({v[0] for v in fds.values()}) == 1:
            shape, ok = "D:copy", True
        # (A) one slicing call
        elif all(l.kind == "expr" and isinstance(l.expr, ast.Call) and len(l.path) == 1 for l in allv):
            shape = "A:call"
            callsets = {n: {id(l.expr) for l in ls[n]} for n in ls}
            paths = {n: {l.path for l in ls[n]} for n in ls}
            same = len({frozenset(v) for v in callsets.values()}) == 1
            distinct = all(len(p) == 1 for p in paths.values()) and len({next(iter(p)) for p in paths.values()}) == 3
            if not same:
                why = "the slice lists and the rendered text are components of different calls"
            elif not distinct:
                why = "the slice lists and the rendered text are not three distinct components of the call's result"
            else:
                ok = True
                for l in ls["templated_str"]:
                    c0 = l.expr.args[0] if l.expr.args else None
                    if c0 is None or not _same_leafset(leaves(l.cfg, c0, l.stmt), src_l):
                        ok, why = False, f"the slicing call is given {short(c0, 40) if c0 is not None else 'nothing'!r} as text while source_str is {short(a['source_str'], 40) if a['source_str'] is not None else '?'!r}"
        # (B) components of a generator's items
        elif all(l.kind == "for" and isinstance(l.expr, ast.Call) and len(l.path) == 1 for l in allv):
            shape = "B:generator"
            stm = {id(l.stmt) for l in allv}
            pths = [l.path for l in allv]
            if len(stm) != 1 or len(set(pths)) != 3 or len(pths) != 3:
                why = "the slice lists and the rendered text are not three distinct components of one loop variable"
            else:
                gcall = allv[0].expr
                g = _method(repo, gcall)
                c0 = gcall.args[0] if gcall.args else None
                if g is None:
                    why = f"the generator {short(gcall.func, 40)} cannot be resolved"
                elif c0 is None or not _same_leafset(leaves(cfg, c0, allv[0].stmt), src_l):
                    why = "the generator is not given the text that is passed as source_str"
                else:
                    ok = True
                    if id(g) not in gens_done:
                        gens_done.add(id(g))
                        _check_generator(chk, repo, g, 0, construct_of(g))
        # (C) lists built in this function
        elif all(l.kind == "expr" and _fresh_list(l.expr) for n in LISTS for l in ls[n]):
            shape, ok = "C:local", True
        else:
            shape = "?"
            why = "provenance of the slice lists / rendered text not recognised: " + ", ".join(f"{n} <- {ls[n][0].text() if ls[n] else '?'}" for n in ls)
        shapes[shape] = shapes.get(shape, 0) + 1
        chk.require(
            ok, "R07c", call,
            f"TemplatedFile(sliced_file=, raw_sliced=, templated_str=): {why}; slices that tile one text are attached to another",
            detail=f"{tag}: slice lists and rendered text of one provenance", construct=con,
        )
        chk.sample({"rule": "R07c", "site": f"{call._module.relpath}:{call.lineno}", "shape": shape, "ok": ok})
    for k, v in sorted(shapes.items()):
        chk.count(f"R07c.shape[{k}]", v)


# objects the variant loop is meant to accumulate into across iterations: name -> reason
R07D_ACCUMULATORS = {"variants": "the result: rendered variants keyed by their source text, filled once per kept variant"}
_FRESH_CALLS = ("deepcopy", "copy", "dict", "list", "set", "tuple")


def _r07d(chk, repo) -> None:
    """_handle_unreached_code forces an unreached if/elif branch on by writing alternate code into a
    copy of the analysed template, renders that copy, and re-maps the slices with the length deltas
    recorded for exactly those overrides.  If the object carrying the overrides (or the delta table)
    survives from one variant to the next, a later variant is rendered with overrides it has no
    deltas for: every following source slice is shifted -- literal slices then point at the wrong
    source text or past the end of the file, and none of the constructor's checks can see that."""
    f = repo.fn(JINJA, "JinjaTemplater._handle_unreached_code")
    cfg = cfg_of(f)
    loops = [n for n in walk_local(f) if isinstance(n, ast.For) and any(isinstance(c, ast.Call) and last_attr(c) == "trace" for c in ast.walk(n))]
    loops = [l for l in loops if not any(l is not o and any(x is l for x in ast.walk(o)) for o in loops)]  # outermost
    chk.count("R07d.variant_loops", len(loops))
    if not loops:
        raise AnalysisError("R07d: the loop of _handle_unreached_code that traces each variant was not found")
    n = 0
    for loop in loops:
        roots = {}
        for st in [x for b in loop.body for x in [b] + list(walk_local(b))]:
            tgs = []
            if isinstance(st, ast.Assign):
                tgs = st.targets
            elif isinstance(st, (ast.AugAssign, ast.AnnAssign)):
                tgs = [st.target]
            for t in tgs:
                if isinstance(t, (ast.Attribute, ast.Subscript)):
                    r_ = t
                    while isinstance(r_, (ast.Attribute, ast.Subscript, ast.Call)):
                        r_ = r_.func if isinstance(r_, ast.Call) else r_.value
                    if isinstance(r_, ast.Name):
                        roots.setdefault(r_.id, st)
            if isinstance(st, ast.Expr) and isinstance(st.value, ast.Call) and isinstance(st.value.func, ast.Attribute) and st.value.func.attr in MUTATORS:
                r_ = st.value.func.value
                while isinstance(r_, (ast.Attribute, ast.Subscript, ast.Call)):
                    r_ = r_.func if isinstance(r_, ast.Call) else r_.value
                if isinstance(r_, ast.Name):
                    roots.setdefault(r_.id, st)
        for name, st in sorted(roots.items()):
            n += 1
            if name in R07D_ACCUMULATORS:
                chk.ok("R07d", construct_of(st), f"{name}: reviewed accumulator ({R07D_ACCUMULATORS[name]})")
                continue
            body_stmts = [x for b in loop.body for x in [b] + list(walk_local(b))]

            def fresh_at(nm: str, at, depth: int = 0) -> bool:
                ds = cfg.reaching().defs_at(at, nm)
                if not ds or depth > 3:
                    return False
                for d in ds:
                    if d.stmt is None or not any(x is d.stmt for x in body_stmts):
                        return False  # bound outside the loop: survives from one variant to the next
                    if getattr(d, "kind", "") != "assign" or d.value is None or d.path:
                        return False
                    v = d.value
                    if isinstance(v, (ast.Dict, ast.List, ast.Set, ast.ListComp, ast.DictComp, ast.SetComp)):
                        continue
                    if isinstance(v, ast.Call) and (call_name(v).split(".")[-1] in _FRESH_CALLS or call_name(v).split(".")[-1][:1].isupper()):
                        continue
                    if isinstance(v, ast.Name) and fresh_at(v.id, d.stmt, depth + 1):
                        continue  # a plain alias of something created in this iteration
                    if isinstance(v, (ast.Attribute, ast.Subscript)):
                        # a part of another object fetched into a local (``info = t.table[k]``): it is
                        # per-iteration state exactly when the object it is reached from is
                        r0 = v
                        while isinstance(r0, (ast.Attribute, ast.Subscript)):
                            r0 = r0.value
                        if isinstance(r0, ast.Name) and fresh_at(r0.id, d.stmt, depth + 1):
                            continue
                    return False
                return True

            fresh = fresh_at(name, st)
            chk.require(
                fresh, "R07d", st,
                f"`{name}` is changed for every variant (`{short(st, 60)}`) but is not created afresh inside the variant loop: what one variant wrote (forced-branch overrides, "
                "length deltas) is still there when the next variant is rendered and re-mapped, so its source slices are shifted against the file",
                detail=f"variant loop: {name} is per-iteration state",
            )
    chk.count("R07d.mutated_objects", n)
    chk.floor("R07d.mutated_objects", 2)


TRACER = "src/sqlfluff/core/templaters/slicers/tracer.py"
PYT = "src/sqlfluff/core/templaters/python.py"
JINJA_BEGIN_TOKENS = ("block_begin", "variable_begin", "comment_begin", "raw_begin")


def _eval_str_pred(e: ast.AST, var: str, value: str):
    """Value of a side-effect free predicate over one string variable; None when it uses anything else."""
    if isinstance(e, ast.BoolOp):
        vs = [_eval_str_pred(v, var, value) for v in e.values]
        if any(v is None for v in vs):
            return None
        return all(vs) if isinstance(e.op, ast.And) else any(vs)
    if isinstance(e, ast.UnaryOp) and isinstance(e.op, ast.Not):
        v = _eval_str_pred(e.operand, var, value)
        return None if v is None else not v
    def val(x):
        if isinstance(x, ast.Name) and x.id == var:
            return value
        if isinstance(x, ast.Constant) and isinstance(x.value, str):
            return x.value
        if isinstance(x, (ast.Tuple, ast.List, ast.Set)) and all(isinstance(y, ast.Constant) for y in x.elts):
            return tuple(y.value for y in x.elts)
        return None
    if isinstance(e, ast.Call) and isinstance(e.func, ast.Attribute) and e.func.attr in ("endswith", "startswith") and len(e.args) == 1 and not e.keywords:
        r, a = val(e.func.value), val(e.args[0])
        if isinstance(r, str) and a is not None:
            return getattr(r, e.func.attr)(a)
        return None
    if isinstance(e, ast.Compare) and len(e.ops) == 1:
        l, r = val(e.left), val(e.comparators[0])
        if l is None or r is None:
            return None
        op = e.ops[0]
        if isinstance(op, ast.Eq):
            return l == r
        if isinstance(op, ast.NotEq):
            return l != r
        if isinstance(op, ast.In):
            return l in r
        if isinstance(op, ast.NotIn):
            return l not in r
    return None


def _r07e(chk, repo) -> None:
    from ..idioms import conditions_at

    n = 0
    for q, f in repo.mod(TRACER).functions():
        cs = [c for c in ast.walk(f) if isinstance(c, ast.Call) and last_attr(c) == "handle_left_whitespace_stripping" and enclosing_function(c) is f]
        if not cs:
            continue
        cfg = cfg_of(f)
        for c in cs:
            n += 1
            st = cfg.stmt_of(c)
            # the innermost tests that mention the token-type variable
            tests = []
            for e, pol in conditions_at(cfg, st):
                names = {x.id for x in ast.walk(e) if isinstance(x, ast.Name)}
                if "elem_type" in names or any("type" in nm for nm in names):
                    tests.append((e, pol))
            var = None
            for e, _ in tests:
                for x in ast.walk(e):
                    if isinstance(x, ast.Name) and "type" in x.id:
                        var = x.id
            missing = []
            for tok in JINJA_BEGIN_TOKENS:
                ok = True
                for e, pol in tests:
                    v = _eval_str_pred(e, var, tok) if var else None
                    if v is None:
                        ok = None
                        break
                    if v != pol:
                        ok = False
                if ok is None:
                    raise AnalysisError(f"R07e: cannot evaluate the test `{short(tests[0][0], 50)}` guarding handle_left_whitespace_stripping; re-confirm by hand")
                if not ok:
                    missing.append(tok)
            chk.require(
                bool(tests) and not missing, "R07e", c,
                f"{q} accounts for left whitespace stripping only under tests that are false for {missing}: whitespace removed by `{{%- raw %}}` (etc.) is then not recorded as a slice and "
                "every later raw slice sits too early in the source",
                detail=f"{q}: left whitespace stripping handled for every opening token",
            )
    chk.count("R07e.left_strip_sites", n)
    chk.floor("R07e.left_strip_sites", 1)


JINJA_T = "src/sqlfluff/core/templaters/jinja.py"


def _r07g(chk, repo) -> None:
    f = repo.fn(JINJA_T, "JinjaTemplater._handle_unreached_code")
    cfg = cfg_of(f)
    rd = cfg.reaching()
    stores = [st for st in walk_local(f) if isinstance(st, ast.Assign) and len(st.targets) == 1 and isinstance(st.targets[0], ast.Attribute) and st.targets[0].attr == "alternate_code" and isinstance(st.value, ast.Name)]
    deltas = []
    for st in walk_local(f):
        if isinstance(st, ast.Assign) and len(st.targets) == 1 and isinstance(st.targets[0], ast.Subscript) and "delta" in norm(st.targets[0].value):
            lens = [c.args[0] for c in ast.walk(st.value) if isinstance(c, ast.Call) and call_name(c) == "len" and c.args and isinstance(c.args[0], ast.Name)]
            deltas.append((st, lens))
    chk.count("R07g.alternate_code_stores", len(stores))
    chk.count("R07g.delta_stores", len(deltas))
    if not stores or not deltas:
        raise AnalysisError("R07g: _handle_unreached_code no longer stores alternate_code from a local and a length delta next to it; re-confirm the anchor by hand")
    for st in stores:
        v = st.value.id
        dv = {id(d.node) for d in rd.defs_at(st, v)}
        partner = [(ds, ln) for ds, lens in deltas for ln in lens if ln.id == v and (cfg.reaches(ds, st) or cfg.reaches(st, ds))]
        chk.require(bool(partner), "R07g", st, f"no length delta is recorded from `{v}`, the text rendered in place of the tag", detail="override tag: a delta is recorded for the rendered text")
        for ds, ln in partner:
            dd = {id(d.node) for d in rd.defs_at(ds, v)}
            chk.require(
                dd == dv, "R07g", ds,
                f"the length delta of an overridden tag is taken from `{v}` as it is at `{short(ds, 40)}`, but the text stored as alternate_code is `{v}` after a further change: the delta is "
                "off by the difference, and every source slice after that tag in the variant is shifted",
                detail="override tag: delta measured on the text that is rendered",
            )


def _r07h(chk, repo) -> None:
    from ..idioms import conditions_at

    f = repo.fn(JINJA_T, "JinjaTemplater._rectify_templated_slices")
    cfg = cfg_of(f)
    accs = {st.target.id for st in walk_local(f) if isinstance(st, ast.AugAssign) and isinstance(st.target, ast.Name)}
    accs |= {st.targets[0].id for st in walk_local(f) if isinstance(st, ast.Assign) and len(st.targets) == 1 and isinstance(st.targets[0], ast.Name) and isinstance(st.value, ast.Constant) and st.value.value == 0}
    carried = sorted(a for a in accs if any(isinstance(st, ast.AugAssign) and isinstance(st.target, ast.Name) and st.target.id == a for st in walk_local(f)))
    if len(carried) != 1:
        raise AnalysisError(f"R07h: expected one running delta in _rectify_templated_slices, found {carried}; re-confirm the anchor by hand")
    acc = carried[0]
    n = 0
    for c in [c for c in ast.walk(f) if isinstance(c, ast.Call) and last_attr(c) == "_replace"]:
        sl = None
        for k in c.keywords:
            if k.arg == "source_slice":
                sl = k.value
        if sl is None:
            continue
        st = cfg.stmt_of(c)
        if isinstance(sl, ast.Name):
            os_ = origins(cfg, sl, st)
            sl = os_[0].expr if len(os_) == 1 and os_[0].kind == "expr" else sl
        if not (isinstance(sl, ast.Call) and call_name(sl) == "slice" and len(sl.args) == 2):
            raise AnalysisError(f"R07h: cannot read the adjusted source slice {short(sl, 50)}; re-confirm the anchor by hand")
        n += 1
        eqs = []
        for e, pol in conditions_at(cfg, st):
            if pol and isinstance(e, ast.Compare) and len(e.ops) == 1 and isinstance(e.ops[0], ast.Eq):
                eqs.append((e.left, e.comparators[0]))

        def moves(b, depth=0) -> bool:
            if any(isinstance(x, ast.Name) and x.id == acc for x in ast.walk(b)):
                return True
            if isinstance(b, ast.Name) and depth < 2:
                for l, r in eqs:
                    if isinstance(l, ast.Name) and l.id == b.id and moves(r, depth + 1):
                        return True
                    if isinstance(r, ast.Name) and r.id == b.id and moves(l, depth + 1):
                        return True
                for o in origins(cfg, b, st):
                    if o.kind == "expr" and moves(o.expr, depth + 1):
                        return True
            return False

        bad = [w for w, b in (("start", sl.args[0]), ("stop", sl.args[1])) if not moves(b)]
        chk.require(
            not bad, "R07h", c,
            f"the {' and '.join(bad)} of an adjusted source slice ({short(sl, 60)}) does not move with `{acc}`, the deltas carried from earlier overridden tags: from the second rewritten tag "
            "of a variant on, the slice ends before it starts / points outside the file",
            detail="rectify: both ends of an adjusted slice carry the running delta",
        )
    chk.count("R07h.adjusted_slices", n)
    chk.floor("R07h.adjusted_slices", 2)


def _r07f(chk, repo) -> None:
    f = repo.fn(PYT, "PythonTemplater._slice_template")
    cfg = cfg_of(f)

    def parts_of(e, at, depth=0) -> Optional[List[str]]:
        """Symbolic pieces of a string expression: literal characters and the names interpolated."""
        if depth > 4:
            return None
        if isinstance(e, ast.Constant) and isinstance(e.value, str):
            return [ch for ch in e.value]
        if isinstance(e, ast.Name):
            os_ = origins(cfg, e, at)
            if os_ and all(o.kind == "expr" and not o.path for o in os_):
                # several defining expressions (a conditional expression is opened up by origins()): the
                # longest alternative describes the piece when it is present
                alts = [parts_of(o.expr, o.stmt, depth + 1) for o in os_]
                if any(a is None for a in alts):
                    return None
                return max(alts, key=len)
            return [f"<{e.id}>"]
        if isinstance(e, ast.IfExp):
            a, b = parts_of(e.body, at, depth + 1), parts_of(e.orelse, at, depth + 1)
            if a is None or b is None:
                return None
            return a if len(a) >= len(b) else b  # the non-empty arm describes the piece when present
        if isinstance(e, ast.JoinedStr):
            out: List[str] = []
            for v in e.values:
                p = parts_of(v.value if isinstance(v, ast.FormattedValue) else v, at, depth + 1)
                if p is None:
                    return None
                out += p
            return out
        if isinstance(e, ast.BinOp) and isinstance(e.op, ast.Add):
            a, b = parts_of(e.left, at, depth + 1), parts_of(e.right, at, depth + 1)
            return None if a is None or b is None else a + b
        if isinstance(e, ast.Call) and isinstance(e.func, ast.Attribute) and e.func.attr == "format" and isinstance(e.func.value, ast.Constant) and isinstance(e.func.value.value, str):
            import string
            kw = {k.arg: k.value for k in e.keywords if k.arg}
            out = []
            try:
                for lit, name, spec, conv in string.Formatter().parse(e.func.value.value):
                    out += [ch for ch in lit]
                    if name is not None:
                        if spec or conv or name not in kw:
                            return None
                        p = parts_of(kw[name], at, depth + 1)
                        if p is None:
                            return None
                        out += p
            except ValueError:
                return None
            return out
        return None

    n = 0
    for c in [c for c in ast.walk(f) if isinstance(c, ast.Call) and last_attr(c) == "RawFileSlice" and len(c.args) >= 2 and isinstance(c.args[1], ast.Constant) and c.args[1].value == "templated"]:
        n += 1
        st = cfg.stmt_of(c)
        ps = parts_of(c.args[0], st)
        if ps is None:
            # cut out of the source instead of rebuilt: the end of a field is not its first closing brace
            raw_e = c.args[0]
            if isinstance(raw_e, ast.Name):
                os_ = origins(cfg, raw_e, st)
                raw_e = os_[0].expr if len(os_) == 1 and os_[0].kind == "expr" else raw_e
            if isinstance(raw_e, ast.Subscript) and isinstance(raw_e.slice, ast.Slice) and raw_e.slice.upper is not None:
                ups = [raw_e.slice.upper]
                if isinstance(ups[0], ast.Name):
                    ups = [o.expr for o in origins(cfg, ups[0], st) if o.kind == "expr"]
                brace = [x for u in ups for x in ast.walk(u) if isinstance(x, ast.Call) and last_attr(x) in ("index", "find") and x.args and isinstance(x.args[0], ast.Constant) and x.args[0].value == "}"]
                if brace:
                    chk.fail(
                        "R07f", c,
                        f"the raw text of a replacement field is cut from the source up to the first '}}' after its start ({short(brace[0], 40)}): a format spec may itself contain fields "
                        "(`{amount:{width}}`), so the token comes out short, the source index drifts and the slices no longer tile the source",
                        detail="python templater: field token ends at the field's own closing brace",
                    )
                    continue
            raise AnalysisError(f"R07f: cannot read how the templated slice's raw text `{short(c.args[0], 50)}` is put together; re-confirm the anchor by hand")
        seq = [p for p in ps if p in ("{", "}", "!", ":") or p.startswith("<")]
        want = ["{", "<field_name>", "!", "<conversion>", ":", "<format_spec>", "}"]
        chk.require(
            seq == want, "R07f", c,
            f"the raw text recorded for a replacement field is put together as {''.join(seq)}, not {''.join(want)}: for a field with both a conversion and a format spec the slice's "
            "text differs from the source at its position, so the raw slices no longer reproduce the source",
            detail="python templater: field token rebuilt as {name!conversion:spec}",
        )
    chk.count("R07f.templated_field_slices", n)
    chk.floor("R07f.templated_field_slices", 1)


def _r07i(chk, repo) -> None:
    from ..flowutil import sole_expr_origin as _sole

    f = repo.fn(TRACER, "JinjaTracer.trace")
    cfg = cfg_of(f)
    n = 0
    for st in [x for x in walk_local(f) if isinstance(x, ast.Assign)]:
        pairs = []
        for t in st.targets:
            if isinstance(t, ast.Name):
                pairs.append((t.id, st.value))
            elif isinstance(t, ast.Tuple) and isinstance(st.value, ast.Tuple) and len(t.elts) == len(st.value.elts):
                pairs += [(x.id, v) for x, v in zip(t.elts, st.value.elts) if isinstance(x, ast.Name)]
        for name, v in pairs:
            if name != "slice_length":
                continue
            if not (isinstance(v, ast.Call) and call_name(v) == "len" and len(v.args) == 1):
                continue  # the length written by the trace itself (int(<group>)) is not measured text
            n += 1
            x = v.args[0]
            if isinstance(x, ast.Name):  # the tail held in a local
                o = _sole(cfg, x, st)
                x = o if o is not None else x
            inner = [c for c in ast.walk(x) if isinstance(c, ast.Call) and not (call_name(c) == "len" or last_attr(c) in ("group", "end", "start", "span"))]
            ok = isinstance(x, ast.Subscript) and isinstance(x.slice, ast.Slice) and x.slice.upper is None and x.slice.step is None and isinstance(x.value, ast.Name) and not inner
            chk.require(
                ok, "R07i", st,
                f"JinjaTracer.trace measures the rendered length of a templated section as `{short(v, 70)}`, not as the length of the plain tail of the trace part after its id: "
                "rendered characters are transformed or dropped before they are counted (e.g. a leading tab stripped), the section is under-counted and every later rendered slice is shifted",
                detail="trace: rendered length = len(<part>[<after id>:])", construct=f"{TRACER}::JinjaTracer.trace",
            )
    chk.count("R07i.measured_lengths", n)
    chk.floor("R07i.measured_lengths", 1)


def run(chk) -> None:
    repo = chk.repo
    chk.rule("R07i", "the rendered length of a templated section is the length of everything rendered: where JinjaTracer.trace measures it from the trace output it is len(<part>[<k>:]) of the untransformed part (no strip/replace/split between the text and len)")
    _r07i(chk, repo)
    chk.rule("R07a", "TemplatedFile.__init__ refuses (assert/raise, equality, every element, every path) raw slices that do not tile the stored source from 0 to its length and rendered slices that do not tile the stored rendered text from 0 to its length")
    chk.rule("R07b", "the slice lists and texts of a TemplatedFile are stored only in its constructor and never changed in place (directly, through an alias, or in a callee); no __new__ construction, no subclass constructor that skips the base")
    chk.rule("R07c", "every TemplatedFile construction in the tree is unsliced or passes both lists and a rendered text that is not None, all of one provenance (one slicing call on the source given / one generator item / built locally / copied from one TemplatedFile); variant generator and re-mapper keep trace, text and list together")
    facts = _r07a(chk, repo)
    _r07b(chk, repo, facts)
    _r07c(chk, repo)
    chk.rule("R07d", "each speculative variant is rendered from its own working state: every object the variant loop of _handle_unreached_code mutates is created afresh inside the loop (deepcopy / constructor / literal), except the reviewed result accumulator")
    _r07d(chk, repo)
    chk.rule("R07e", "the Jinja analyzer accounts for whitespace a `-` strip marker removes in front of EVERY opening token: the test under which handle_left_whitespace_stripping runs holds for block_begin, variable_begin, comment_begin and raw_begin")
    chk.rule("R07f", "the raw text the python templater records for a replacement field is the field as Python's format grammar writes it: '{' name ['!' conversion] [':' spec] '}', in that order")
    _r07e(chk, repo)
    _r07f(chk, repo)
    chk.rule("R07g", "the length delta recorded for an overridden tag of a speculative variant is measured on the very text that is rendered in its place: the value whose length enters length_deltas[...] and the value stored as alternate_code have the same definitions")
    chk.rule("R07h", "when a variant's slices are mapped back to the source, both ends of every adjusted source slice move with the deltas carried so far")
    _r07g(chk, repo)
    _r07h(chk, repo)
    chk.assumptions.append("assert statements are executed (the interpreter is not run with -O); CPython ast gives the program's syntax faithfully")
    chk.note(
        "Partial claim: the two tiling clauses hold for every TemplatedFile object because its constructor enforces them and nothing bypasses it. "
        "NOT decided: source slices within the file / ordered (variant re-mapping arithmetic), literal slices map to identical text, non-negative widths, "
        "an empty rendered list over non-empty rendered text (not rejected; no bundled producer), aliases of the lists kept by slicer objects. "
        "Relies on C08 R08b / C09 R09e (rendered text = render of the same source), C09 R09d (placeholder bounds), C31 R31b."
    )


from ..selftest import Variant  # noqa: E402

DBT = "plugins/sqlfluff-templater-dbt/sqlfluff_templater_dbt/templater.py"
LFILE = "src/sqlfluff/core/linter/linted_file.py"

_RAW_ASSERT = (
    "            assert rfs.source_idx == pos, (\n"
    "                \"TemplatedFile. Consistency fail on running source length\"\n"
    "                f\": {pos} != {rfs.source_idx}\"\n"
    "            )\n"
)
_RENDERED_LOOP = (
    "        for tfs in self.sliced_file:\n"
    "            if previous_slice:\n"
    "                if tfs.templated_slice.start != previous_slice.templated_slice.stop:\n"
    "                    raise SQLFluffSkipFile(  # pragma: no cover\n"
    "                        \"Templated slices found to be non-contiguous. \"\n"
    "                        f\"{tfs.templated_slice} (starting\"\n"
    "                        f\" {self.templated_str[tfs.templated_slice]!r})\"\n"
    "                        f\" does not follow {previous_slice.templated_slice} \"\n"
    "                        \"(starting \"\n"
    "                        f\"{self.templated_str[previous_slice.templated_slice]!r}\"\n"
    "                        \")\"\n"
    "                    )\n"
    "            else:\n"
    "                if tfs.templated_slice.start != 0:\n"
    "                    raise SQLFluffSkipFile(  # pragma: no cover\n"
    "                        \"First Templated slice not started at index 0 \"\n"
    "                        f\"(found slice {tfs.templated_slice})\"\n"
    "                    )\n"
    "            previous_slice = tfs\n"
)
_FINAL = (
    "        if self.sliced_file and templated_str is not None and tfs:\n"
    "            if tfs.templated_slice.stop != len(templated_str):\n"
)

_RAW_TOTAL = (
    "        assert pos == len(self.source_str), (\n"
    "            \"TemplatedFile. Consistency fail on total source length\"\n"
    "            f\": {pos} != {len(self.source_str)}\"\n"
    "        )\n"
)
_FINAL_FULL = (
    "        if self.sliced_file and templated_str is not None and tfs:\n"
    "            if tfs.templated_slice.stop != len(templated_str):\n"
    "                raise SQLFluffSkipFile(  # pragma: no cover\n"
    "                    \"Length of templated file mismatch with final slice: \"\n"
    "                    f\"{len(templated_str)} != {tfs.templated_slice.stop}.\"\n"
    "                )\n"
)

VARIANTS: List[Variant] = [
    Variant(
        "r07i-leading-tabs-not-counted", TRACER,
        "                alt_id, slice_length = m_id.group(0), len(p[len(m_id.group(0)) + 1 :])\n",
        "                alt_id = m_id.group(0)\n                slice_length = len(p[len(alt_id) + 1 :].lstrip(\"\\t\"))\n",
        "R07i", "JinjaTracer.trace", "seeded C07-10",
    ),
    Variant(
        "r07i-tail-bounded", TRACER,
        "                alt_id, slice_length = m_id.group(0), len(p[len(m_id.group(0)) + 1 :])\n",
        "                alt_id, slice_length = m_id.group(0), len(p[len(m_id.group(0)) + 1 : 4096])\n",
        "R07i", "JinjaTracer.trace", "long rendered values truncated",
    ),
    Variant(
        "quiet-r07i-id-through-a-local", TRACER,
        "                alt_id, slice_length = m_id.group(0), len(p[len(m_id.group(0)) + 1 :])\n",
        "                alt_id = m_id.group(0)\n                rendered = p[len(alt_id) + 1 :]\n                slice_length = len(rendered)\n",
        "QUIET", None, "R07i: id and tail through locals",
    ),
    Variant(
        "override-tag-changed-after-its-delta-was-taken", JINJA_T,
        "                    tracer_trace.raw_slice_info[\n                        raw_file_slice\n                    ].alternate_code = new_source\n                    override_raw_slices.append(branch)\n                    length_deltas[raw_file_slice.source_idx] = len(new_source) - len(\n                        raw_file_slice.raw\n                    )\n",
        "                    length_deltas[raw_file_slice.source_idx] = len(new_source) - len(\n                        raw_file_slice.raw\n                    )\n                    if raw_file_slice.raw.endswith(\"-%}\"):\n                        new_source = new_source[:-2] + \"-%}\"\n                    tracer_trace.raw_slice_info[\n                        raw_file_slice\n                    ].alternate_code = new_source\n                    override_raw_slices.append(branch)\n",
        "R07g", "_handle_unreached_code", "seeded C07-5",
    ),
    Variant(
        "stretched-slice-forgets-the-carried-delta", JINJA_T,
        "                                tfs.source_slice.stop + carried_delta - d,\n",
        "                                tfs.source_slice.stop - d,\n",
        "R07h", "_rectify_templated_slices", "seeded C01-6 (same effect): the second rewritten tag of a variant gets an inverted slice",
    ),
    Variant(
        "quiet-stretched-slice-from-the-matched-index", JINJA_T,
        "                                tfs.source_slice.start + carried_delta,\n                                tfs.source_slice.stop + carried_delta - d,\n",
        "                                idx,\n                                tfs.source_slice.stop + carried_delta - d,\n",
        "QUIET", None, "R07h: the start written as the index it was just tested equal to",
    ),
    Variant(
        "left-strip-not-handled-for-raw-begin", TRACER,
        '            if elem_type.endswith("_begin"):\n',
        '            if elem_type in ("block_begin", "variable_begin", "comment_begin"):\n',
        "R07e", "analyze", "seeded C07-3: `{%- raw %}` with whitespace in front",
    ),
    Variant(
        "quiet-left-strip-test-spelled-out", TRACER,
        '            if elem_type.endswith("_begin"):\n',
        '            if elem_type in ("block_begin", "variable_begin", "comment_begin", "raw_begin", "linestatement_begin"):\n',
        "QUIET", None, "R07e: the opening tokens listed (every one that can carry a strip marker is there)",
    ),
    Variant(
        "field-token-rebuilt-spec-before-conversion", PYT,
        '                constructed_token = "{{{field_name}{conv}{spec}}}".format(\n',
        '                constructed_token = "{{{field_name}{spec}{conv}}}".format(\n',
        "R07f", "_slice_template", "seeded C07-4 (same effect): `{name!r:>8}` is recorded as `{name:>8!r}`",
    ),
    Variant(
        "quiet-field-token-as-an-f-string", PYT,
        '                constructed_token = "{{{field_name}{conv}{spec}}}".format(\n                    field_name=field_name,\n                    conv=f"!{conversion}" if conversion else "",\n                    spec=f":{format_spec}" if format_spec else "",\n                )\n',
        '                conv = f"!{conversion}" if conversion else ""\n                spec = f":{format_spec}" if format_spec else ""\n                constructed_token = f"{{{field_name}{conv}{spec}}}"\n',
        "QUIET", None, "R07f: the same token as an f-string over two locals",
    ),
    # behaviour-preserving refactors: must stay quiet
    Variant(
        "quiet-raw-lengths-through-locals-and-mirrored", BASE,
        "        for rfs in self.raw_sliced:\n" + _RAW_ASSERT + "            pos += len(rfs.raw)\n" + _RAW_TOTAL,
        "        for rfs in self.raw_sliced:\n            assert pos == rfs.source_idx, f\"running source length: {pos} != {rfs.source_idx}\"\n            raw_len = len(rfs.raw)\n            pos += raw_len\n"
        "        source_len = len(self.source_str)\n        if pos != source_len:\n            raise AssertionError(f\"total source length: {pos} != {source_len}\")\n",
        "QUIET", None, "comparison mirrored, lengths through locals, the total check as if/raise",
    ),
    Variant(
        "quiet-rendered-first-slice-branch-first", BASE,
        _RENDERED_LOOP,
        "        for tfs in self.sliced_file:\n"
        "            if previous_slice is None:\n"
        "                if tfs.templated_slice.start != 0:\n"
        "                    raise SQLFluffSkipFile(f\"First Templated slice not started at index 0 (found slice {tfs.templated_slice})\")\n"
        "            elif tfs.templated_slice.start != previous_slice.templated_slice.stop:\n"
        "                raise SQLFluffSkipFile(f\"Templated slices found to be non-contiguous at {tfs.templated_slice}\")\n"
        "            previous_slice = tfs\n",
        "QUIET", None, "arms swapped, 'is None' test, nested if merged into elif",
    ),
    Variant(
        "quiet-rendered-checks-as-conjunctions", BASE,
        _RENDERED_LOOP,
        "        for tfs in self.sliced_file:\n"
        "            if previous_slice is not None and tfs.templated_slice.start != previous_slice.templated_slice.stop:\n"
        "                raise SQLFluffSkipFile(f\"Templated slices found to be non-contiguous at {tfs.templated_slice}\")\n"
        "            if previous_slice is None and tfs.templated_slice.start != 0:\n"
        "                raise SQLFluffSkipFile(f\"First Templated slice not started at index 0 (found slice {tfs.templated_slice})\")\n"
        "            previous_slice = tfs\n",
        "QUIET", None, "nested ifs merged into two conjunctions",
    ),
    Variant(
        "quiet-final-check-one-conjunction", BASE,
        _FINAL_FULL,
        "        if (\n            self.sliced_file\n            and templated_str is not None\n            and tfs\n            and tfs.templated_slice.stop != len(templated_str)\n        ):\n"
        "            raise SQLFluffSkipFile(  # pragma: no cover\n"
        "                \"Length of templated file mismatch with final slice: \"\n"
        "                f\"{len(templated_str)} != {tfs.templated_slice.stop}.\"\n"
        "            )\n",
        "QUIET", None, "nested ifs merged into one conjunction",
    ),
    Variant(
        "quiet-final-check-early-return", BASE,
        _FINAL_FULL,
        "        if not self.sliced_file or templated_str is None or not tfs:\n            return\n"
        "        if tfs.templated_slice.stop != len(templated_str):\n"
        "            raise SQLFluffSkipFile(  # pragma: no cover\n"
        "                \"Length of templated file mismatch with final slice: \"\n"
        "                f\"{len(templated_str)} != {tfs.templated_slice.stop}.\"\n"
        "            )\n",
        "QUIET", None, "the exemptions leave early (the check is the last thing the constructor does)",
    ),
    Variant(
        "quiet-rendered-text-store-as-statement", BASE,
        "        self.templated_str = source_str if templated_str is None else templated_str\n",
        "        if templated_str is None:\n            self.templated_str = source_str\n        else:\n            self.templated_str = templated_str\n",
        "QUIET", None, "conditional expression spelled as if/else",
    ),
    Variant(
        "quiet-variant-info-through-local", JINJA,
        "                    tracer_trace.raw_slice_info[\n                        raw_file_slice\n                    ].alternate_code = new_source\n",
        "                    slice_info = tracer_trace.raw_slice_info[raw_file_slice]\n                    slice_info.alternate_code = new_source\n",
        "QUIET", None, "the record written to is fetched into a local first (it belongs to the per-variant copy)",
    ),
    Variant(
        "quiet-variant-state-constructor-calls", JINJA,
        "            override_raw_slices = []\n",
        "            override_raw_slices = list()\n",
        "QUIET", None, "[] spelled list()",
    ),
    Variant(
        "quiet-python-slicing-result-indexed", PY,
        "        raw_sliced, sliced_file, new_str = self.slice_file(\n            in_str,\n            render_func=render_func,\n            config=config,\n        )\n",
        "        sliced = self.slice_file(\n            in_str,\n            render_func=render_func,\n            config=config,\n        )\n        raw_sliced = sliced[0]\n        sliced_file = sliced[1]\n        new_str = sliced[2]\n",
        "QUIET", None, "result triple indexed instead of unpacked",
    ),
    Variant(
        "quiet-python-construction-positional", PY,
        "            TemplatedFile(\n                source_str=in_str,\n                templated_str=new_str,\n                fname=fname,\n                sliced_file=sliced_file,\n                raw_sliced=raw_sliced,\n            ),\n            [],\n",
        "            TemplatedFile(in_str, fname, new_str, sliced_file, raw_sliced),\n            [],\n",
        "QUIET", None, "arguments passed by position",
    ),
    Variant(
        "quiet-variant-consumer-unpacks-in-body", JINJA,
        "        for raw_sliced, sliced_file, templated_str in self._handle_unreached_code(\n            in_str, render_func, uncovered_literal_idxs\n        ):\n            yield (\n",
        "        for variant in self._handle_unreached_code(\n            in_str, render_func, uncovered_literal_idxs\n        ):\n            raw_sliced, sliced_file, templated_str = variant\n            yield (\n",
        "QUIET", None, "loop variable kept whole and unpacked in the body",
    ),
    Variant(
        "quiet-variant-generator-yields-through-locals", JINJA,
        "            yield (\n                tracer_copy.raw_sliced,\n                adjusted_slices,\n                trace.templated_str,\n            )\n",
        "            variant_raw = tracer_copy.raw_sliced\n            variant_text = trace.templated_str\n            yield variant_raw, adjusted_slices, variant_text\n",
        "QUIET", None, "yielded components through locals",
    ),
    # breaking twins in the spellings the QUIET sweep taught the rules to read
    Variant(
        "variant-info-through-local-of-the-shared-tracer", JINJA,
        "                    tracer_trace.raw_slice_info[\n                        raw_file_slice\n                    ].alternate_code = new_source\n",
        "                    slice_info = tracer_copy.raw_slice_info[raw_file_slice]\n                    slice_info.alternate_code = new_source\n",
        "R07d", "_handle_unreached_code", "the record fetched into a local belongs to the tracer shared by all variants",
    ),
    Variant(
        "rendered-conjunction-check-needs-a-flag", BASE,
        _RENDERED_LOOP,
        "        for tfs in self.sliced_file:\n"
        "            if previous_slice is not None and tfs.templated_slice.start != previous_slice.templated_slice.stop and fname:\n"
        "                raise SQLFluffSkipFile(f\"Templated slices found to be non-contiguous at {tfs.templated_slice}\")\n"
        "            if previous_slice is None and tfs.templated_slice.start != 0:\n"
        "                raise SQLFluffSkipFile(f\"First Templated slice not started at index 0 (found slice {tfs.templated_slice})\")\n"
        "            previous_slice = tfs\n",
        "R07a", "__init__", "conjunction spelling with an extra condition on the contiguity check",
    ),
    Variant(
        "variant-overrides-on-one-shared-copy", JINJA,
        "            tracer_trace = copy.deepcopy(tracer_copy)\n",
        "            tracer_trace = tracer_copy\n",
        "R07d", "_handle_unreached_code", "seeded C07-1 (same effect): overrides written for one variant leak into the next",
    ),
    Variant(
        "quiet-variant-copy-through-helper-name", JINJA,
        "            tracer_trace = copy.deepcopy(tracer_copy)\n",
        "            fresh_tracer = copy.deepcopy(tracer_copy)\n            tracer_trace = fresh_tracer\n",
        "QUIET", None, "the per-variant copy passed through another local",
    ),
    # ---- behaviour-preserving edits: the check must stay quiet -------------------------------
    Variant(
        "quiet-raw-check-as-if-raise-through-locals", BASE,
        _RAW_ASSERT + "            pos += len(rfs.raw)\n",
        "            start = rfs.source_idx\n            if start != pos:\n                raise ValueError(f\"raw slices do not tile the source: {pos} != {start}\")\n            pos = pos + len(rfs.raw)\n",
        "QUIET", None, "assert spelled if/raise, slice start through a local, += spelled out",
    ),
    Variant(
        "quiet-raw-loop-enumerate-and-end-source-idx", BASE,
        "        for rfs in self.raw_sliced:\n" + _RAW_ASSERT + "            pos += len(rfs.raw)\n",
        "        raw_list = self.raw_sliced\n        for n, piece in enumerate(raw_list):\n            assert piece.source_idx == pos, f\"slice {n}: {pos} != {piece.source_idx}\"\n            pos = piece.end_source_idx()\n",
        "QUIET", None, "list through a local, enumerate, element renamed, position advanced with end_source_idx()",
    ),
    Variant(
        "quiet-rendered-loop-early-continue", BASE,
        _RENDERED_LOOP,
        "        for piece in self.sliced_file:\n"
        "            if previous_slice is None:\n"
        "                if piece.templated_slice.start != 0:\n"
        "                    raise SQLFluffSkipFile(f\"First Templated slice not started at index 0 (found slice {piece.templated_slice})\")\n"
        "                previous_slice = piece\n"
        "                continue\n"
        "            expected = previous_slice.templated_slice.stop\n"
        "            if not piece.templated_slice.start == expected:\n"
        "                raise SQLFluffSkipFile(f\"Templated slices found to be non-contiguous at {piece.templated_slice}\")\n"
        "            previous_slice = piece\n"
        "        tfs = previous_slice\n",
        "QUIET", None, "first-slice arm as an early continue, identity test, == negated, expected stop through a local, last element taken from the previous-slice local",
    ),
    Variant(
        "quiet-final-check-through-locals", BASE,
        _FINAL,
        "        last = tfs\n        if len(self.sliced_file) > 0 and templated_str is not None and last is not None:\n            end = last.templated_slice.stop\n            if end != len(self.templated_str):\n",
        "QUIET", None, "last element and its stop through locals, non-emptiness by len(), stored text instead of the parameter",
    ),
    Variant(
        "quiet-jinja-process-result-through-temp", JINJA,
        "            raw_sliced, sliced_file, out_str = self.slice_file(\n                in_str,\n                render_func=render_func,\n                config=config,\n            )\n",
        "            sliced = self.slice_file(\n                in_str,\n                render_func=render_func,\n                config=config,\n            )\n            raw_sliced, sliced_file, out_str = sliced\n",
        "QUIET", None, "slicing result unpacked through a temp",
    ),
    Variant(
        "quiet-read-only-alias-of-the-list", LFILE,
        "        for idx, file_slice in enumerate(self.templated_file.sliced_file):\n",
        "        rendered_slices = self.templated_file.sliced_file\n        for idx, file_slice in enumerate(rendered_slices):\n",
        "QUIET", None, "a local alias that is only iterated",
    ),
    Variant(
        "quiet-checks-extracted-into-helper-methods", BASE,
        "        # Consistency check raw string and slices.\n        pos = 0\n        rfs: RawFileSlice\n        for rfs in self.raw_sliced:\n" + _RAW_ASSERT + "            pos += len(rfs.raw)\n"
        "        assert pos == len(self.source_str), (\n            \"TemplatedFile. Consistency fail on total source length\"\n            f\": {pos} != {len(self.source_str)}\"\n        )\n\n"
        "        # Consistency check templated string and slices.\n        previous_slice: Optional[TemplatedFileSlice] = None\n        tfs: Optional[TemplatedFileSlice] = None\n" + _RENDERED_LOOP + _FINAL,
        "        self._check_raw_tiling()\n        self._check_rendered_tiling(templated_str)\n\n"
        "    def _check_raw_tiling(self) -> None:\n        pos = 0\n        for rfs in self.raw_sliced:\n" + _RAW_ASSERT + "            pos += len(rfs.raw)\n"
        "        assert pos == len(self.source_str), (\n            \"TemplatedFile. Consistency fail on total source length\"\n            f\": {pos} != {len(self.source_str)}\"\n        )\n\n"
        "    def _check_rendered_tiling(self, rendered: Optional[str]) -> None:\n        previous_slice: Optional[TemplatedFileSlice] = None\n        tfs: Optional[TemplatedFileSlice] = None\n" + _RENDERED_LOOP
        + "        templated_str = rendered\n        if self.sliced_file and rendered is not None and tfs:\n            if tfs.templated_slice.stop != len(rendered):\n",
        "QUIET", None, "both tiling checks moved into methods that the constructor calls unconditionally",
    ),
    # ---- breaking edits: the constructor's checks (R07a) ----------------------------------------
    Variant(
        "raw-start-check-weakened-to-ordering", BASE,
        "            assert rfs.source_idx == pos, (\n", "            assert rfs.source_idx >= pos, (\n",
        "R07a", "TemplatedFile.__init__", "gaps between raw slices are accepted",
    ),
    Variant(
        "raw-start-mismatch-resynchronised-instead-of-refused", BASE,
        _RAW_ASSERT, "            if rfs.source_idx != pos:\n                pos = rfs.source_idx\n",
        "R07a", "TemplatedFile.__init__",
    ),
    Variant(
        "raw-total-check-weakened", BASE,
        "        assert pos == len(self.source_str), (\n", "        assert pos <= len(self.source_str), (\n",
        "R07a", "TemplatedFile.__init__", "raw slices may stop short of the end of the file",
    ),
    Variant(
        "raw-total-compared-with-rendered-text", BASE,
        "        assert pos == len(self.source_str), (\n", "        assert pos == len(self.templated_str), (\n",
        "R07a", "TemplatedFile.__init__",
    ),
    Variant(
        "raw-position-advanced-before-comparison", BASE,
        "        for rfs in self.raw_sliced:\n" + _RAW_ASSERT + "            pos += len(rfs.raw)\n",
        "        for rfs in self.raw_sliced:\n            pos += len(rfs.raw)\n" + _RAW_ASSERT.replace("rfs.source_idx == pos", "rfs.end_source_idx() == pos").replace("{rfs.source_idx}", "{rfs.end_source_idx()}"),
        "R07a", "TemplatedFile.__init__", "compares each slice with itself: always true",
    ),
    Variant(
        "rendered-contiguity-weakened-to-no-overlap", BASE,
        "                if tfs.templated_slice.start != previous_slice.templated_slice.stop:\n",
        "                if tfs.templated_slice.start < previous_slice.templated_slice.stop:\n",
        "R07a", "TemplatedFile.__init__", "gaps in the rendered tiling are accepted",
    ),
    Variant(
        "rendered-first-slice-check-weakened", BASE,
        "                if tfs.templated_slice.start != 0:\n", "                if tfs.templated_slice.start < 0:\n",
        "R07a", "TemplatedFile.__init__",
    ),
    Variant(
        "rendered-previous-slice-never-advances", BASE,
        "            previous_slice = tfs\n", "            previous_slice = previous_slice or tfs\n",
        "R07a", "TemplatedFile.__init__", "every slice is compared with the first one",
    ),
    Variant(
        "rendered-final-check-only-for-literal-tail", BASE,
        "        if self.sliced_file and templated_str is not None and tfs:\n",
        "        if self.sliced_file and templated_str is not None and tfs and tfs.slice_type == \"literal\":\n",
        "R07a", "TemplatedFile.__init__",
    ),
    Variant(
        "rendered-final-check-weakened", BASE,
        "            if tfs.templated_slice.stop != len(templated_str):\n", "            if tfs.templated_slice.stop > len(templated_str):\n",
        "R07a", "TemplatedFile.__init__", "the witnessed random-render case (16 over 25) is accepted",
    ),
    Variant(
        "checks-skipped-for-empty-raw-list", BASE,
        "        # Consistency check raw string and slices.\n        pos = 0\n",
        "        if not self.raw_sliced:\n            return\n        # Consistency check raw string and slices.\n        pos = 0\n",
        "R07a", "TemplatedFile.__init__", "an early return on a path that skips both tiling loops",
    ),
    # ---- breaking edits: bypass / invalidation (R07b) -------------------------------------------
    Variant(
        "second-writer-of-the-rendered-list-in-linter", LINTER,
        "        linter_logger.info(\"LEXING RAW (%s)\", templated_file.fname)\n",
        "        linter_logger.info(\"LEXING RAW (%s)\", templated_file.fname)\n        templated_file.sliced_file = [s for s in templated_file.sliced_file if s.slice_type != \"comment\"]\n",
        "R07b", "_lex_templated_file", "comment slices dropped after construction: the rendered tiling has holes",
    ),
    Variant(
        "list-sorted-in-place-through-alias-in-lexer", LEXER,
        "    templated_file_slices = templated_file.sliced_file\n",
        "    templated_file_slices = templated_file.sliced_file\n    templated_file_slices.sort(key=lambda s: s.source_slice.start)\n",
        "R07b", "_iter_segments", "sorting by source position reorders the rendered tiling of loops",
    ),
    Variant(
        "raw-list-extended-in-place-by-a-reader", LFILE,
        "        for idx, file_slice in enumerate(self.templated_file.sliced_file):\n",
        "        self.templated_file.raw_sliced.append(self.templated_file.raw_sliced[-1])\n        for idx, file_slice in enumerate(self.templated_file.sliced_file):\n",
        "R07b", "fix_string",
    ),
    Variant(
        "setattr-writer-in-from-string", BASE,
        "        return cls(source_str=raw, fname=\"<string>\")\n",
        "        tf = cls(source_str=raw, fname=\"<string>\")\n        setattr(tf, \"raw_sliced\", [])\n        return tf\n",
        "R07b", "from_string",
    ),
    Variant(
        "constructed-through-new-and-dict-update", BASE,
        "        return cls(source_str=raw, fname=\"<string>\")\n",
        "        tf = cls.__new__(cls)\n        tf.__dict__.update(source_str=raw, templated_str=raw, fname=\"<string>\", sliced_file=[], raw_sliced=[])\n        return tf\n",
        "R07b", "from_string", "the constructor and its checks are bypassed",
    ),
    Variant(
        "list-handed-to-a-callee-that-pops-from-it", JINJA,
        "        raw_slice = raw_sliced[idx]\n        if raw_slice.slice_type != \"literal\" or not raw_slice.raw.isspace():\n",
        "        raw_slice = raw_sliced.pop(idx)\n        if raw_slice.slice_type != \"literal\" or not raw_slice.raw.isspace():\n",
        "R07b", "process_with_variants", "the helper is handed templated_file.raw_sliced",
    ),
    # ---- breaking edits: producers (R07c) -------------------------------------------------------
    Variant(
        "jinja-process-drops-the-rendered-text-argument", JINJA,
        "                    source_str=in_str,\n                    templated_str=out_str,\n",
        "                    source_str=in_str,\n",
        "R07c", "JinjaTemplater.process", "the constructor then skips the final-length check",
    ),
    Variant(
        "variant-built-with-the-root-rendering", JINJA,
        "                    source_str=in_str,\n                    templated_str=templated_str,\n",
        "                    source_str=in_str,\n                    templated_str=templated_file.templated_str,\n",
        "R07c", "process_with_variants", "a variant's slices attached to the root variant's text",
    ),
    Variant(
        "remapper-drops-zero-length-slices", JINJA,
        "            # No delta match. Just shift evenly.\n            adjusted_slices.append(\n",
        "            # No delta match. Just shift evenly.\n            if is_zero_slice(tfs.templated_slice):\n                continue\n            adjusted_slices.append(\n",
        "R07c", "_rectify_templated_slices",
    ),
    Variant(
        "remapper-also-moves-the-rendered-span", JINJA,
        "                tfs._replace(\n                    source_slice=slice(\n                        tfs.source_slice.start + carried_delta,\n                        tfs.source_slice.stop + carried_delta,\n                    )\n                )\n",
        "                tfs._replace(\n                    source_slice=slice(\n                        tfs.source_slice.start + carried_delta,\n                        tfs.source_slice.stop + carried_delta,\n                    ),\n                    templated_slice=slice(\n                        tfs.templated_slice.start + carried_delta,\n                        tfs.templated_slice.stop + carried_delta,\n                    ),\n                )\n",
        "R07c", "_rectify_templated_slices",
    ),
    Variant(
        "variant-raw-slices-from-stripped-source", JINJA,
        "        analyzer = self._get_jinja_analyzer(in_str, self._get_jinja_env())\n        tracer_copy = analyzer.analyze(render_func)\n",
        "        analyzer = self._get_jinja_analyzer(in_str.rstrip(), self._get_jinja_env())\n        tracer_copy = analyzer.analyze(render_func)\n",
        "R07c", "_handle_unreached_code",
    ),
    Variant(
        "variant-text-of-one-trace-list-of-another", JINJA,
        "                adjusted_slices,\n                trace.templated_str,\n",
        "                adjusted_slices,\n                sorted_variants[0][1].templated_str,\n",
        "R07c", "_handle_unreached_code",
    ),
    Variant(
        "dbt-slices-a-stripped-copy-of-the-source", DBT,
        "            raw_sliced, sliced_file, templated_sql = self.slice_file(\n                source_dbt_sql,\n",
        "            raw_sliced, sliced_file, templated_sql = self.slice_file(\n                source_dbt_sql.strip(),\n",
        "R07c", "templater.py", "slices of another text than the one recorded as source",
    ),
    Variant(
        "python-lists-and-text-from-different-slicing-calls", PY,
        "        return (\n            TemplatedFile(\n                source_str=in_str,\n                templated_str=new_str,\n",
        "        _, _, new_str = self.slice_file(in_str.strip(), render_func=render_func, config=config)\n        return (\n            TemplatedFile(\n                source_str=in_str,\n                templated_str=new_str,\n",
        "R07c", "PythonTemplater.process",
    ),
]
