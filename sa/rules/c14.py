"""C14 — layout fixes change only whitespace.

Scope: ``src/sqlfluff/rules/layout/`` and ``src/sqlfluff/utils/reflow/``.  The clause
decided is *what this code is able to put into, or take out of, a fix*.

R14a  who may construct / who may edit
      * every constructor call of a ``BaseSegment`` subclass (class hierarchy read from
        the source) is ``WhitespaceSegment`` or ``NewlineSegment``; a constant text
        argument is whitespace only; a constant ``SourceFix`` text likewise;
      * every ``x.edit(<raw>)`` has a receiver established as whitespace / newline /
        indent (see "establishing" below).  A receiver positively established as
        something else is a violation; a receiver about which nothing is known is
        counted in the evidence (``R14a.edit_ambiguous``) unless it is a reviewed site;
      * every other ``x.edit(...)`` passes only ``source_fixes`` / ``source_str``
        (template placeholder bookkeeping, no token text).

R14b  every ``LintFix.delete(x)`` / ``LintFix("delete", x)`` is either
      ``WS``    x established as whitespace / newline / indent, or
      ``MOVE``  the same expression is re-inserted by a ``LintFix.create_*`` /
                ``replace`` that accompanies the delete (same statement list, or every
                branch of a sibling ``if``; same result list), or
      reviewed  one of the sites read once and frozen in ``REVIEWED_DELETES`` together
                with the facts it relies on (``witnesses``: normalised fragments that
                must still occur in the function).
      Any other delete is able to remove a token.  In addition nobody in
      ``rules/layout`` may call ``ReflowSequence.without()`` (the one API whose purpose
      is to delete a caller-chosen code segment).

Establishing "x is whitespace-like" (types whitespace, newline, indent, dedent), all
syntactic, on resolved facts (reaching definitions, dominance):
  * a dominating ``x.is_type(<ws types>)`` / ``x.is_whitespace`` test (also inside the
    same boolean expression or comprehension filter), with x not re-bound in between;
  * x is an element of a whitespace collection: iteration variable, subscript,
    ``.get()``; collections: ``.select/.select_children/.children/.first/.last`` with a
    whitespace predicate (``sp.is_type(..)``, ``sp.is_whitespace()``, a lambda testing
    ``is_type``), a collection for which ``c.all(sp.is_type(..))`` dominates, a list
    built only from whitespace elements (display, ``append``, ``extend``, ``+``),
    ``Segments(*c)``, ``list/tuple/reversed(c)``, slices, filtered comprehensions,
    the return value of a local function all of whose returns are such collections;
  * the ReflowPoint invariant: ``p.segments`` where ``p`` is ``self`` inside class
    ``ReflowPoint``, ``cast(ReflowPoint, ..)``, ``ReflowPoint(..)``, guarded by
    ``isinstance(.., ReflowPoint)``, or the point returned by ``respace_point`` /
    ``indent_to``.  (Every ``ReflowPoint(...)`` construction in scope is itself
    checked to receive only whitespace-like segments.)
  * ``context.segment`` of a rule whose ``SegmentSeekerCrawler`` type set is whitespace.

Tests are read through boolean locals that hold them (one definition, nothing read re-bound since);
a lone ``(get_consumed_whitespace(x) or "").isspace()`` arm is whitespace evidence like the ``or``
of the two; R14c accepts the comment test in a local, ``block is not None`` for ``block``, and the
result tuple through a local; the computed-kind proof follows the anchor binding met *after* the
store of "replace" (the two stores in either order); a re-creating fix built into a local counts
where that local is handed to the result list.
"""

from __future__ import annotations

import ast
from typing import Dict, List, Optional, Tuple

from ..cfg import atoms, cfg_of, origins
from ..idioms import atoms_at, branch_atoms, conditions_at
from ..index import (
    AnalysisError,
    FuncNode,
    arg_of,
    call_name,
    enclosing_class,
    enclosing_function,
    kwarg,
    last_attr,
    norm,
    qualname,
    short,
    walk_local,
)
from ..report import construct_of

SCOPES = ("src/sqlfluff/rules/layout/", "src/sqlfluff/utils/reflow/")
ELEMENTS = "src/sqlfluff/utils/reflow/elements.py"
WS_TYPES = {"whitespace", "newline", "indent", "dedent"}
WS_CLASSES = {"WhitespaceSegment", "NewlineSegment"}
EDIT_BOOKKEEPING_KW = {"source_fixes", "source_str"}
MAX_DEPTH = 18

L = "rules/layout/"
F = "utils/reflow/"

# ---------------------------------------------------------------------------
# R14b frozen table: sites read once (2026-09) that the syntactic prover cannot
# establish on its own.  key: (path below src/sqlfluff/ :: function, normalised call)
# value: (class, reason, witnesses)
# ---------------------------------------------------------------------------
REVIEWED_DELETES: Dict[Tuple[str, str], tuple] = {
    (L + "LT09.py::Rule_LT09._eval_multiple_select_target_elements", "LintFix.delete(ws)"): (
        "WS",
        "second site: iterates select_targets_info.pre_from_whitespace, which _get_indexes builds as list(siblings_post.select(sp.is_type('whitespace'), stop_seg=from_segment))",
        ["pre_from_whitespace = siblings_post.select(sp.is_type('whitespace'), stop_seg=from_segment)", "list(pre_from_whitespace)"],
        1,
    ),
    (L + "LT09.py::Rule_LT09._eval_single_select_target_element", "LintFix.delete(seg)"): (
        "MOVE+WS",
        "initial_deletes holds target_seg and modifier[0] (both re-inserted through insert_buff by the LintFix.replace in the same list) and segments tested is_type('whitespace')/is_whitespace; "
        "the later loop deletes to_delete (= [target_seg] or a loop_while=whitespace selection) and move_after_select_clause, which -- its indent / dedent metas apart (no text; left out since repo 12ae6b1 because an edit cannot hold them) -- is re-created after the select clause in the same fix list",
        [
            "insert_buff = [WhitespaceSegment(), target_seg]",
            "insert_buff = [WhitespaceSegment(), modifier[0]] + insert_buff",
            "LintFix.replace(select_children[select_targets_info.first_new_line_idx], insert_buff)",
            "if select_children[target_idx - 1].is_type('whitespace'):",
            "select_children[modifier_idx + 2].is_whitespace",
            "to_delete = select_children.reversed().select(loop_while=sp.is_type('whitespace'), start_seg=select_children[start_idx])",
            "moved_segments = [seg for seg in move_after_select_clause if not seg.is_meta]",
            "LintFix.create_after(select_clause[0], ([NewlineSegment()] if add_newline else []) + moved_segments)",
        ],
        2,
    ),
    (F + "rebreak.py::rebreak_sequence", "LintFix.delete(seg)"): (
        "WS",
        "iterates elem_buff[loc.prev.adj_pt_idx].segments / elem_buff[loc.next.adj_pt_idx].segments: adj_pt_idx is by construction (_RebreakIndices.from_elements) the index of the ReflowPoint adjacent to the target",
        ["for seg in elem_buff[loc.prev.adj_pt_idx].segments:", "for seg in elem_buff[loc.next.adj_pt_idx].segments:"],
        2,
    ),
    (F + "sequence.py::ReflowSequence.without", "LintFix.delete(target)"): (
        "API",
        "public helper whose purpose is to remove a caller-chosen block; no caller in rules/layout or utils/reflow (checked below), used by non-layout rules only",
        [],
        1,
    ),
}

# .edit(raw) sites that needed a review: none today (all three are proven mechanically)
REVIEWED_EDITS: Dict[Tuple[str, str], tuple] = {}


REVIEWED_POINTS: Dict[Tuple[str, str], tuple] = {
    (F + "sequence.py::ReflowSequence.without",
     "ReflowPoint(segments=self.elements[removal_idx - 1].segments + self.elements[removal_idx + 1].segments)"): (
        "WS",
        "elements alternate block/point and the removed element is checked not to be a ReflowPoint, so its two neighbours are points",
        ["isinstance(self.elements[removal_idx], ReflowPoint)"],
        1,
    ),
}

# ---------------------------------------------------------------------------
# prover
# ---------------------------------------------------------------------------


class Prover:
    def __init__(self, repo, mods=()):
        self.repo = repo
        self.mods = list(mods)
        self._inprogress = set()

    # -- helpers ------------------------------------------------------------
    def _const_types(self, func, args, at) -> Optional[set]:
        out = set()
        for a in args:
            if isinstance(a, ast.Constant) and isinstance(a.value, str):
                out.add(a.value)
            elif isinstance(a, ast.Starred) and isinstance(a.value, ast.Name) and isinstance(func, FuncNode):
                for o in origins(cfg_of(func), a.value, at):
                    if o.kind == "expr" and isinstance(o.expr, (ast.Set, ast.Tuple, ast.List)) and all(
                        isinstance(x, ast.Constant) and isinstance(x.value, str) for x in o.expr.elts
                    ):
                        out |= {x.value for x in o.expr.elts}
                    else:
                        return None
            else:
                return None
        return out or None

    def _facts(self, func, node, at) -> List[Tuple[ast.AST, bool, object]]:
        """(atom, polarity, guard-or-None) known when ``node`` is evaluated."""
        out = []
        if isinstance(func, FuncNode) and at is not None:
            cfg = cfg_of(func)
            for g in cfg.guards(at):
                if isinstance(g.stmt, (ast.If, ast.While)):
                    # a test held in a boolean local (one definition, nothing it reads re-bound since) reads as the test itself
                    out += [(e, pol, g) for e, pol in atoms_at(cfg, g.stmt.test, g.polarity, g.stmt)]
        # inside the statement: boolean operators, conditional expressions, comprehension filters
        p = node
        while p is not None and p is not at:
            par = getattr(p, "_parent", None)
            if isinstance(par, ast.BoolOp):
                is_and = isinstance(par.op, ast.And)
                for v in par.values:
                    if v is p:
                        break
                    out += [(e, pol, None) for e, pol in atoms(v, is_and)]
            elif isinstance(par, ast.IfExp) and p is not par.test:
                out += [(e, pol, None) for e, pol in atoms(par.test, p is par.body)]
            elif isinstance(par, (ast.ListComp, ast.GeneratorExp, ast.SetComp)) and p is par.elt:
                for gen in par.generators:
                    for cond in gen.ifs:
                        out += [(e, pol, None) for e, pol in atoms(cond, True)]
            elif isinstance(par, (ast.If, ast.While)) and p is par.test:
                break
            if isinstance(par, ast.stmt):
                break
            p = par
        return out

    def _same_binding(self, func, text_names, guard, at) -> bool:
        if guard is None or not isinstance(func, FuncNode):
            return True
        rd = cfg_of(func).reaching()
        for n in text_names:
            if rd.defs_at(guard.stmt, n) != rd.defs_at(at, n):
                # loop variables are (re)bound by the loop statement that also guards
                a = {d for d in rd.defs_at(at, n)}
                b = {d for d in rd.defs_at(guard.stmt, n)}
                if a - b:
                    return False
        return True

    def tested(self, func, e: ast.AST, at) -> Optional[Tuple[str, str]]:
        """('WS'|'NONWS', fact) from tests on the very expression."""
        text = norm(e)
        names = {n.id for n in ast.walk(e) if isinstance(n, ast.Name)}
        verdict = None
        for atom, pol, g in self._facts(func, e, at):
            if isinstance(atom, ast.Call) and isinstance(atom.func, ast.Attribute) and atom.func.attr == "is_type" and norm(atom.func.value) == text:
                ts = self._const_types(func, atom.args, at)
                if ts is None or not pol:
                    continue
                if not self._same_binding(func, names, g, at):
                    continue
                if ts <= WS_TYPES:
                    return "WS", short(atom, 70)
                if not (ts & WS_TYPES):
                    verdict = ("NONWS", short(atom, 70))
            elif isinstance(atom, ast.Attribute) and norm(atom.value) == text and self._same_binding(func, names, g, at):
                if atom.attr == "is_whitespace" and pol:
                    return "WS", short(atom, 70)
                if atom.attr in ("is_code", "is_comment") and pol:
                    verdict = ("NONWS", short(atom, 70))
            elif pol and isinstance(atom, ast.Call) and isinstance(atom.func, ast.Attribute) and atom.func.attr == "isspace" and self._ws_evidence(func, atom, text, at) and self._same_binding(func, names, g, at):
                return "WS", short(atom, 70)
            elif isinstance(atom, ast.BoolOp) and isinstance(atom.op, ast.Or) and pol and self._same_binding(func, names, g, at):
                # every alternative is whitespace evidence for the same expression
                if all(self._ws_evidence(func, v, text, at) for v in atom.values):
                    return "WS", short(atom, 90)
        return verdict

    def nonws(self, func, e: ast.AST, at, depth=0) -> Optional[str]:
        """Positive evidence that ``e`` is *not* whitespace-like (tests on it or on what it aliases)."""
        t = self.tested(func, e, at)
        if t is not None:
            return t[1] if t[0] == "NONWS" else None
        if depth > 3 or not isinstance(func, FuncNode) or at is None:
            return None
        if isinstance(e, ast.Call) and call_name(e) in ("cast", "typing.cast") and len(e.args) == 2:
            return self.nonws(func, e.args[1], at, depth + 1)
        if isinstance(e, ast.Name):
            ds = cfg_of(func).reaching().defs_at(at, e.id)
            if len(ds) == 1:
                d = next(iter(ds))
                if d.kind == "assign" and not d.path and isinstance(d.value, (ast.Name, ast.Call)):
                    return self.nonws(func, d.value, d.stmt, depth + 1)
        return None

    def _ws_evidence(self, func, v: ast.AST, text: str, at) -> bool:
        if isinstance(v, ast.Call) and isinstance(v.func, ast.Attribute) and v.func.attr == "is_type" and norm(v.func.value) == text:
            ts = self._const_types(func, v.args, at)
            return ts is not None and ts <= WS_TYPES
        if isinstance(v, ast.Attribute) and v.attr == "is_whitespace" and norm(v.value) == text:
            return True
        # (get_consumed_whitespace(x) or "").isspace(): a template placeholder that swallowed only whitespace
        if isinstance(v, ast.Call) and isinstance(v.func, ast.Attribute) and v.func.attr == "isspace" and not v.args:
            for n in ast.walk(v.func.value):
                if isinstance(n, ast.Call) and call_name(n) == "get_consumed_whitespace" and len(n.args) == 1 and norm(n.args[0]) == text:
                    return True
        return False

    def _ws_pred(self, func, p: Optional[ast.AST], at) -> bool:
        if p is None:
            return False
        if isinstance(p, ast.Call):
            n = last_attr(p)
            if n == "is_type":
                ts = self._const_types(func, p.args, at)
                return ts is not None and ts <= WS_TYPES
            if n == "is_whitespace" and not p.args:
                return True
            if n == "and_":
                return any(self._ws_pred(func, a, at) for a in p.args)
            if n == "or_":
                return bool(p.args) and all(self._ws_pred(func, a, at) for a in p.args)
            return False
        if isinstance(p, ast.Lambda) and len(p.args.args) == 1:
            v = p.args.args[0].arg
            b = p.body
            conj = b.values if isinstance(b, ast.BoolOp) and isinstance(b.op, ast.And) else [b]
            for c in conj:
                if isinstance(c, ast.Call) and isinstance(c.func, ast.Attribute) and c.func.attr == "is_type" and norm(c.func.value) == v:
                    ts = self._const_types(func, c.args, at)
                    if ts is not None and ts <= WS_TYPES:
                        return True
                if isinstance(c, ast.Attribute) and c.attr == "is_whitespace" and norm(c.value) == v:
                    return True
        return False

    def _resolve_callee(self, func, call: ast.Call):
        """(module, FunctionDef) for a call to a local/module function or own method."""
        m = func._module
        if isinstance(call.func, ast.Name):
            r = self.repo.resolve_name(m, call.func.id)
            if r and isinstance(r[1], FuncNode):
                return r
        if isinstance(call.func, ast.Attribute) and isinstance(call.func.value, ast.Name) and call.func.value.id in ("self", "cls"):
            c = enclosing_class(func)
            if c is not None:
                r = self.repo.lookup_method(m, c, call.func.attr)
                if r:
                    return r
        return None

    def _returns(self, callee) -> List[ast.Return]:
        return [n for n in walk_local(callee) if isinstance(n, ast.Return)]

    def _comp_binding(self, name_node: ast.Name):
        """Comprehension generator that binds this name, if any."""
        p = getattr(name_node, "_parent", None)
        child = name_node
        while p is not None and not isinstance(p, ast.stmt):
            if isinstance(p, (ast.ListComp, ast.GeneratorExp, ast.SetComp, ast.DictComp)):
                for gen in p.generators:
                    if any(isinstance(t, ast.Name) and t.id == name_node.id for t in ast.walk(gen.target)):
                        return p, gen
            child, p = p, getattr(p, "_parent", None)
        return None

    # -- is the value a whitespace-like segment? ----------------------------------
    def seg(self, func, e: ast.AST, at, depth=0) -> Optional[str]:
        if depth > MAX_DEPTH:
            return None
        t = self.tested(func, e, at)
        if t and t[0] == "WS":
            return f"test {t[1]}"
        if isinstance(e, ast.Constant) and e.value is None:
            return "None"
        if isinstance(e, ast.Call) and call_name(e) in ("cast", "typing.cast") and len(e.args) == 2:
            return self.seg(func, e.args[1], at, depth + 1)
        if isinstance(e, ast.Call) and call_name(e) in WS_CLASSES:
            return f"{call_name(e)}(..)"
        if isinstance(e, ast.Call) and isinstance(e.func, ast.Attribute) and e.func.attr == "edit":
            r = self.seg(func, e.func.value, at, depth + 1)
            return f"edit of [{r}]" if r else None
        if isinstance(e, ast.IfExp):
            a, b = self.seg(func, e.body, at, depth + 1), self.seg(func, e.orelse, at, depth + 1)
            return f"{a} | {b}" if a and b else None
        if isinstance(e, ast.Name):
            cb = self._comp_binding(e)
            if cb is not None:
                comp, gen = cb
                if isinstance(gen.target, ast.Name):
                    for cond in gen.ifs:
                        for atom, pol in atoms(cond, True):
                            if pol and isinstance(atom, ast.Call) and isinstance(atom.func, ast.Attribute) and atom.func.attr == "is_type" and norm(atom.func.value) == e.id:
                                ts = self._const_types(func, atom.args, at)
                                if ts is not None and ts <= WS_TYPES:
                                    return f"comprehension filter {short(atom, 60)}"
                    r = self.coll(func, gen.iter, at, depth + 1)
                    return f"element of [{r}]" if r else None
                return None
            if not isinstance(func, FuncNode) or at is None:
                return None
            ds = cfg_of(func).reaching().defs_at(at, e.id)
            if not ds:
                return None
            reasons = []
            for d in ds:
                r = None
                if d.kind == "assign":
                    r = self._through(func, d.value, d.path, d.stmt, depth, "seg")
                elif d.kind == "param":
                    r = self._param(func, e.id, "seg", depth)
                elif d.kind == "for":
                    it = d.value
                    path = d.path
                    if isinstance(it, ast.Call) and call_name(it) == "enumerate" and path[:1] == (1,) and it.args:
                        it, path = it.args[0], path[1:]
                    if not path:
                        c = self.coll(func, it, d.stmt, depth + 1)
                        r = f"element of [{c}]" if c else None
                if r is None:
                    return None
                reasons.append(r)
            return " / ".join(sorted(set(reasons)))
        if isinstance(e, ast.Subscript) and not isinstance(e.slice, ast.Slice):
            c = self.coll(func, e.value, at, depth + 1)
            return f"element of [{c}]" if c else None
        if isinstance(e, ast.Call):
            if isinstance(e.func, ast.Attribute) and e.func.attr == "get":
                c = self.coll(func, e.func.value, at, depth + 1)
                return f"element of [{c}]" if c else None
            callee = self._resolve_callee(func, e)
            if callee is not None:
                rs = []
                for ret in self._returns(callee[1]):
                    if ret.value is None:
                        continue
                    r = self.seg(callee[1], ret.value, ret, depth + 1)
                    if r is None:
                        return None
                    rs.append(r)
                return f"{callee[1].name}() returns " + " / ".join(sorted(set(rs))) if rs else None
        if isinstance(e, ast.Attribute) and norm(e) == "context.segment":
            c = enclosing_class(func)
            if c is not None:
                ts = self._crawler_types(func._module, c)
                if ts is not None and ts <= WS_TYPES:
                    return f"crawler types {sorted(ts)}"
        return None

    def _through(self, func, value, path, stmt, depth, mode) -> Optional[str]:
        """Definition ``value`` selected by tuple ``path``."""
        while path and isinstance(value, (ast.Tuple, ast.List)) and isinstance(path[0], int) and path[0] < len(value.elts):
            value, path = value.elts[path[0]], path[1:]
        prove = self.seg if mode == "seg" else self.coll
        if not path:
            return prove(func, value, stmt, depth + 1)
        if isinstance(value, ast.Call) and len(path) == 1 and isinstance(path[0], int):
            callee = self._resolve_callee(func, value)
            if callee is None:
                return None
            rs = []
            for ret in self._returns(callee[1]):
                if not (isinstance(ret.value, ast.Tuple) and path[0] < len(ret.value.elts)):
                    return None
                r = (self.seg if mode == "seg" else self.coll)(callee[1], ret.value.elts[path[0]], ret, depth + 1)
                if r is None:
                    return None
                rs.append(r)
            return f"{callee[1].name}()[{path[0]}]: " + " / ".join(sorted(set(rs))) if rs else None
        return None

    def _param(self, func, name: str, mode: str, depth: int) -> Optional[str]:
        """Parameter of a function in scope: every call site in scope passes a proven value."""
        if depth > MAX_DEPTH or not isinstance(func, FuncNode):
            return None
        key = (id(func), name, mode)
        if key in self._inprogress:
            return "(recursive)"
        params = [a.arg for a in func.args.posonlyargs + func.args.args]
        if name not in params or name in ("self", "cls"):
            return None
        idx = params.index(name)
        is_method = enclosing_class(func) is not None and params[:1] in (["self"], ["cls"])
        callers = []
        for m in self.mods:
            for c in ast.walk(m.tree):
                if not isinstance(c, ast.Call):
                    continue
                if is_method:
                    if isinstance(c.func, ast.Attribute) and c.func.attr == func.name:
                        callers.append((m, c, idx - 1))
                elif isinstance(c.func, ast.Name) and c.func.id == func.name:
                    r = self.repo.resolve_name(m, func.name)
                    if r and r[1] is func:
                        callers.append((m, c, idx))
        if not callers:
            return None
        self._inprogress.add(key)
        try:
            rs = []
            for m, c, i in callers:
                a = arg_of(c, i, name)
                cf = _outer_function(c)
                if a is None or not isinstance(cf, FuncNode):
                    return None
                at = cfg_of(cf).stmt_of(c)
                r = (self.seg if mode == "seg" else self.coll)(cf, a, at, depth + 1)
                if r is None:
                    return None
                rs.append(r)
            return f"parameter '{name}': every caller in scope passes " + " / ".join(sorted(set(rs)))
        finally:
            self._inprogress.discard(key)

    def _crawler_types(self, m, c) -> Optional[set]:
        for mm, cc in self.repo.mro(m, c):
            for item in cc.body:
                if isinstance(item, ast.Assign) and len(item.targets) == 1 and isinstance(item.targets[0], ast.Name) and item.targets[0].id == "crawl_behaviour":
                    v = item.value
                    if isinstance(v, ast.Call) and call_name(v) == "SegmentSeekerCrawler":
                        t = arg_of(v, 0, "types")
                        if isinstance(t, ast.Set) and all(isinstance(x, ast.Constant) for x in t.elts):
                            return {x.value for x in t.elts}
                    return None
        return None

    # -- is the value a collection of whitespace-like segments? ---------------------
    def coll(self, func, e: ast.AST, at, depth=0) -> Optional[str]:
        if depth > MAX_DEPTH:
            return None
        text = norm(e)
        for atom, pol, g in self._facts(func, e, at):
            if pol and isinstance(atom, ast.Call) and isinstance(atom.func, ast.Attribute) and atom.func.attr == "all" and norm(atom.func.value) == text and atom.args:
                if self._ws_pred(func, atom.args[0], at):
                    return f"test {short(atom, 70)}"
        if isinstance(e, ast.IfExp):
            a, b = self.coll(func, e.body, at, depth + 1), self.coll(func, e.orelse, at, depth + 1)
            return f"{a} | {b}" if a and b else None
        if isinstance(e, (ast.List, ast.Tuple)):
            rs = []
            for x in e.elts:
                r = self.coll(func, x.value, at, depth + 1) if isinstance(x, ast.Starred) else self.seg(func, x, at, depth + 1)
                if r is None:
                    return None
                rs.append(r)
            return "display(" + ", ".join(sorted(set(rs))) + ")"
        if isinstance(e, ast.BinOp) and isinstance(e.op, ast.Add):
            a, b = self.coll(func, e.left, at, depth + 1), self.coll(func, e.right, at, depth + 1)
            return f"{a} + {b}" if a and b else None
        if isinstance(e, ast.Subscript) and isinstance(e.slice, ast.Slice):
            return self.coll(func, e.value, at, depth + 1)
        if isinstance(e, (ast.ListComp, ast.GeneratorExp)) and len(e.generators) == 1:
            gen = e.generators[0]
            if isinstance(gen.target, ast.Name):
                r = self.seg(func, e.elt, at, depth + 1)
                return f"comprehension({r})" if r else None
            return None
        if isinstance(e, ast.Attribute) and e.attr == "segments":
            p = self.point(func, e.value, at, depth + 1)
            return f"ReflowPoint.segments ({p})" if p else None
        if isinstance(e, ast.Name):
            if not isinstance(func, FuncNode) or at is None:
                return None
            ds = cfg_of(func).reaching().defs_at(at, e.id)
            if not ds:
                return None
            rs = []
            for d in ds:
                r = None
                if d.kind == "assign":
                    r = self._through(func, d.value, d.path, d.stmt, depth, "coll")
                elif d.kind == "aug":
                    r = self.coll(func, d.value, d.stmt, depth + 1)
                elif d.kind == "param":
                    r = self._param(func, e.id, "coll", depth)
                if r is None:
                    return None
                rs.append(r)
            # element stores  name[i] = x
            for c in walk_local(func):
                if isinstance(c, ast.Assign):
                    for t in c.targets:
                        if isinstance(t, ast.Subscript) and isinstance(t.value, ast.Name) and t.value.id == e.id and not isinstance(t.slice, ast.Slice):
                            r = self.seg(func, c.value, c, depth + 1)
                            if r is None:
                                return None
                            rs.append(f"store({r})")
            # in-place growth of the list anywhere in the function
            for c in walk_local(func):
                if isinstance(c, ast.Call) and isinstance(c.func, ast.Attribute) and isinstance(c.func.value, ast.Name) and c.func.value.id == e.id:
                    st = cfg_of(func).stmt_of(c)
                    if c.func.attr == "append" and c.args:
                        r = self.seg(func, c.args[0], st, depth + 1)
                    elif c.func.attr == "insert" and len(c.args) == 2:
                        r = self.seg(func, c.args[1], st, depth + 1)
                    elif c.func.attr == "extend" and c.args:
                        r = self.coll(func, c.args[0], st, depth + 1)
                    else:
                        continue
                    if r is None:
                        return None
                    rs.append(f"{c.func.attr}({r})")
            return "list of " + " / ".join(sorted(set(rs)))
        if isinstance(e, ast.Call):
            cn = call_name(e)
            la = last_attr(e)
            if cn in ("list", "tuple", "reversed", "sorted") and e.args:
                return self.coll(func, e.args[0], at, depth + 1)
            if cn == "Segments":
                rs = []
                for x in e.args:
                    r = self.coll(func, x.value, at, depth + 1) if isinstance(x, ast.Starred) else self.seg(func, x, at, depth + 1)
                    if r is None:
                        return None
                    rs.append(r)
                return "Segments(" + ", ".join(sorted(set(rs))) + ")"
            if isinstance(e.func, ast.Attribute):
                recv = e.func.value
                if la == "reversed" and not e.args:
                    return self.coll(func, recv, at, depth + 1)
                if la in ("select", "select_children"):
                    sel = arg_of(e, 0, "select_if")
                    lw = arg_of(e, 1, "loop_while")
                    if self._ws_pred(func, sel, at):
                        return f"{la}(select_if={short(sel, 50)})"
                    if sel is None and self._ws_pred(func, lw, at):
                        return f"{la}(loop_while={short(lw, 50)})"
                    r = self.coll(func, recv, at, depth + 1)
                    return f"{la} of [{r}]" if r else None
                if la in ("children", "first", "last"):
                    p = e.args[0] if e.args else None
                    if self._ws_pred(func, p, at):
                        return f"{la}({short(p, 50)})"
                    if la in ("first", "last"):
                        r = self.coll(func, recv, at, depth + 1)
                        return f"{la} of [{r}]" if r else None
                    return None
                if la == "get_children":
                    ts = self._const_types(func, e.args, at)
                    if ts is not None and ts <= WS_TYPES:
                        return f"get_children({sorted(ts)})"
                    return None
            callee = self._resolve_callee(func, e)
            if callee is not None:
                rs = []
                for ret in self._returns(callee[1]):
                    if ret.value is None:
                        return None
                    r = self.coll(callee[1], ret.value, ret, depth + 1)
                    if r is None:
                        return None
                    rs.append(r)
                return f"{callee[1].name}() returns " + " / ".join(sorted(set(rs))) if rs else None
        return None

    # -- is the value a ReflowPoint? -------------------------------------------------
    def point(self, func, x: ast.AST, at, depth=0) -> Optional[str]:
        if depth > MAX_DEPTH:
            return None
        if isinstance(x, ast.Name) and x.id == "self":
            c = enclosing_class(func)
            return "self in ReflowPoint" if c is not None and c.name == "ReflowPoint" else None
        if isinstance(x, ast.Call):
            if call_name(x) in ("cast", "typing.cast") and len(x.args) == 2 and norm(x.args[0]).strip("'\"") == "ReflowPoint":
                return "cast(ReflowPoint)"
            if call_name(x) == "ReflowPoint":
                return "ReflowPoint(...)"
        text = norm(x)
        for atom, pol, g in self._facts(func, x, at):
            if pol and isinstance(atom, ast.Call) and call_name(atom) == "isinstance" and len(atom.args) == 2 and norm(atom.args[1]) == "ReflowPoint":
                if norm(atom.args[0]) == text:
                    return "isinstance(.., ReflowPoint)"
                # x = <tested expr> assigned after the test
                if isinstance(x, ast.Name) and isinstance(func, FuncNode) and at is not None:
                    os_ = origins(cfg_of(func), x, at)
                    if os_ and all(o.kind == "expr" and not o.path and norm(o.expr) == norm(atom.args[0]) for o in os_):
                        return "isinstance(.., ReflowPoint) on the assigned expression"
        if isinstance(x, ast.Name) and isinstance(func, FuncNode) and at is not None:
            rd = cfg_of(func).reaching()
            ds = rd.defs_at(at, x.id)
            if not ds:
                return None
            rs = []
            for d in ds:
                r = None
                if d.kind == "param":
                    for a in func.args.posonlyargs + func.args.args + func.args.kwonlyargs:
                        if a.arg == x.id and a.annotation is not None and norm(a.annotation).strip("'\"") == "ReflowPoint":
                            r = "parameter annotated ReflowPoint"
                elif d.kind == "assign":
                    v, path = d.value, d.path
                    while path and isinstance(v, (ast.Tuple, ast.List)) and isinstance(path[0], int) and path[0] < len(v.elts):
                        v, path = v.elts[path[0]], path[1:]
                    if not path:
                        r = self.point(func, v, d.stmt, depth + 1)
                    elif isinstance(v, ast.Call) and len(path) == 1 and last_attr(v) in ("respace_point", "indent_to"):
                        r = self._point_method_returns_point(last_attr(v), path[0])
                if r is None:
                    return None
                rs.append(r)
            return " / ".join(sorted(set(rs)))
        return None

    def _point_method_returns_point(self, meth: str, idx) -> Optional[str]:
        try:
            c = self.repo.cls(ELEMENTS, "ReflowPoint")
        except AnalysisError:
            return None
        for item in c.body:
            if isinstance(item, FuncNode) and item.name == meth and item.returns is not None:
                ann = item.returns
                if isinstance(ann, ast.Subscript) and isinstance(ann.slice, ast.Tuple) and isinstance(idx, int) and idx < len(ann.slice.elts):
                    if "ReflowPoint" in norm(ann.slice.elts[idx]):
                        return f"ReflowPoint.{meth}()[{idx}] (declared return type)"
        return None


# ---------------------------------------------------------------------------
# computed kind "replace"
# ---------------------------------------------------------------------------


def _dynamic_replace_unsafe(cfg, call: ast.Call, kind: ast.Name, at) -> Optional[str]:
    """``LintFix(kind, anchor, [whitespace..])`` with ``kind`` a local that may hold "replace".

    For every assignment D of the constant "replace" to ``kind``: (i) D is dominated by a
    positive ``X.is_type(<whitespace types>)`` test, (ii) the anchor variable is, at D, bound to
    that same X, and (iii) D's value cannot arrive at the call along a path that re-binds the
    anchor variable in between (a value left over from an earlier loop iteration).  Returns a
    reason when one of them fails, None when all hold."""
    anchor = _fix_anchor(call)
    if not isinstance(anchor, ast.Name):
        return "the anchor of the computed-kind fix is not a plain local"
    rd = cfg.reaching()

    def assigns(name: str):
        out = []
        for node in cfg.nodes:
            if isinstance(node, (ast.Assign, ast.AnnAssign, ast.AugAssign)):
                tg = node.targets if isinstance(node, ast.Assign) else [node.target]
                if any(isinstance(t, ast.Name) and t.id == name for t in tg) or any(
                    isinstance(t, (ast.Tuple, ast.List)) and any(isinstance(x, ast.Name) and x.id == name for x in ast.walk(t)) for t in tg
                ):
                    out.append(node)
            elif isinstance(node, (ast.For, ast.With)) and any(isinstance(x, ast.Name) and x.id == name and isinstance(x.ctx, ast.Store) for x in ast.walk(node.target if isinstance(node, ast.For) else node)):
                out.append(node)
        return out

    kind_defs = assigns(kind.id)
    anchor_defs = assigns(anchor.id)
    # an assignment whose value mentions the kind variable itself passes the old value on: it does not overwrite it
    killers = [k_ for k_ in kind_defs if not any(isinstance(x, ast.Name) and x.id == kind.id for x in ast.walk(getattr(k_, "value", None) or ast.Pass()))]

    def ws_tested(stmt):
        """Expressions known (by a dominating positive ``X.is_type(<whitespace types>)``, also through a
        boolean local) to be whitespace at ``stmt``; a test on the anchor variable itself counts for the
        values the variable holds at ``stmt`` provided it was not re-bound since the test."""
        out = set()
        for g in cfg.guards(stmt):
            for e, pol in branch_atoms(cfg, g):
                if pol and isinstance(e, ast.Call) and last_attr(e) == "is_type" and isinstance(e.func, ast.Attribute) and e.args:
                    ts = {a.value for a in e.args if isinstance(a, ast.Constant)}
                    if len(ts) == len(e.args) and ts <= WS_TYPES:
                        x = norm(e.func.value)
                        if x == anchor.id:
                            if rd.defs_at(g.stmt, anchor.id) == rd.defs_at(stmt, anchor.id):
                                out |= {norm(a.value) for a in rd.defs_at(stmt, anchor.id) if getattr(a, "kind", None) == "assign" and a.value is not None and not a.path}
                        else:
                            out.add(x)
        return out

    def plain_value(node):
        """``V`` when ``node`` is exactly ``anchor = V``."""
        if isinstance(node, ast.Assign) and len(node.targets) == 1 and isinstance(node.targets[0], ast.Name) and node.targets[0].id == anchor.id:
            return node.value
        if isinstance(node, ast.AnnAssign) and isinstance(node.target, ast.Name) and node.target.id == anchor.id and node.value is not None:
            return node.value
        return None

    for d in kind_defs:
        if not (isinstance(d, ast.Assign) and isinstance(d.value, ast.Constant) and d.value.value == "replace"):
            continue
        # (i): the store of "replace" is under a whitespace test at all
        ws_exprs = ws_tested(d)
        if not ws_exprs:
            return f"`{kind.id} = 'replace'` is not under a test that the segment to replace is whitespace"
        # (ii) + (iii) forward from d; stop at other definitions of the kind; remember the last binding of
        # the anchor met on the way (None: the bindings in force at d)
        st = cfg.stmt_of(call)
        seen = set()
        stack = [(d, None)]
        while stack:
            node, last = stack.pop()
            for m_ in cfg.succ.get(node, ()):
                if m_ is not d and m_ in killers:
                    continue  # the value of d is overwritten here
                nl = m_ if m_ in anchor_defs else last
                if m_ is st:
                    if nl is None:
                        ads = rd.defs_at(d, anchor.id)
                        bound = {norm(a.value) for a in ads if getattr(a, "kind", None) == "assign" and a.value is not None and not a.path}
                        if len(ads) != len(bound) or not bound or not bound <= ws_exprs:
                            return f"where `{kind.id} = 'replace'` is set, `{anchor.id}` is not (only) the segment that was tested to be whitespace ({sorted(ws_exprs)})"
                    else:
                        # the anchor was (re-)bound after the store: fine only when that binding itself is
                        # `anchor = X` under a test that X is whitespace (the two stores written in the other order)
                        v = plain_value(nl)
                        if v is None or norm(v) not in ws_tested(nl) - {anchor.id}:
                            return (
                                f"the value 'replace' assigned to `{kind.id}` can still be in force when `{anchor.id}` has been re-bound "
                                "(it is not reset before the next anchor is chosen, e.g. in the next loop iteration)"
                            )
                if (id(m_), id(nl)) in seen:
                    continue
                seen.add((id(m_), id(nl)))
                stack.append((m_, nl))
    return None


# ---------------------------------------------------------------------------
# MOVE
# ---------------------------------------------------------------------------

_CREATE_KINDS = ("create_before", "create_after", "replace")


def _fix_kind(c: ast.Call) -> Optional[str]:
    cn = call_name(c)
    if cn.startswith("LintFix."):
        return cn.split(".", 1)[1]
    if cn == "LintFix":
        k = arg_of(c, 0, "edit_type")
        if isinstance(k, ast.Constant) and isinstance(k.value, str):
            return k.value
        return "?dynamic"
    return None


def _fix_anchor(c: ast.Call) -> Optional[ast.AST]:
    if call_name(c) == "LintFix":
        return arg_of(c, 1, "anchor")
    return arg_of(c, 0, "anchor_segment")


def _fix_edit(c: ast.Call) -> Optional[ast.AST]:
    if call_name(c) == "LintFix":
        return arg_of(c, 2, "edit")
    return arg_of(c, 1, "edit_segments")


def _mentions(func, e: ast.AST, text: str, at, depth=0) -> bool:
    """Does the edit expression contain ``text`` (directly or via a local list)?"""
    for n in ast.walk(e):
        if isinstance(n, ast.expr) and not isinstance(n, ast.Starred) and norm(n) == text:
            return True
    if depth >= 2 or not isinstance(func, FuncNode):
        return False
    for n in ast.walk(e):
        if isinstance(n, ast.Name):
            rd = cfg_of(func).reaching()
            for d in rd.defs_at(at, n.id):
                if d.kind in ("assign", "aug") and d.value is not None and _mentions(func, d.value, text, d.stmt, depth + 1):
                    return True
            for c in walk_local(func):
                if isinstance(c, ast.Call) and isinstance(c.func, ast.Attribute) and c.func.attr in ("append", "extend", "insert") and norm(c.func.value) == n.id:
                    if any(_mentions(func, a, text, cfg_of(func).stmt_of(c), depth + 1) for a in c.args):
                        return True
    return False


def _sink_name(st: ast.stmt) -> Optional[str]:
    if isinstance(st, (ast.Assign, ast.AnnAssign)):
        t = st.targets[0] if isinstance(st, ast.Assign) else st.target
        return t.id if isinstance(t, ast.Name) else None
    if isinstance(st, ast.AugAssign) and isinstance(st.target, ast.Name):
        return st.target.id
    if isinstance(st, ast.Expr) and isinstance(st.value, ast.Call) and isinstance(st.value.func, ast.Attribute) and st.value.func.attr in ("append", "extend") and isinstance(st.value.func.value, ast.Name):
        return st.value.func.value.id
    return None


def _handed_over(st: ast.stmt, name: ast.Name) -> bool:
    """Is ``name`` itself an element added to the sink of ``st`` (``s.append(x)``, ``s += [x]``,
    ``s.extend([.., x])``, ``s = [.., x, ..]``, ``s = s + [x]``) -- not merely mentioned in it?"""
    par = getattr(name, "_parent", None)
    if isinstance(par, ast.Call) and par is getattr(st, "value", None) and isinstance(par.func, ast.Attribute) and par.func.attr == "append" and par.args and par.args[0] is name:
        return True
    if isinstance(par, (ast.List, ast.Tuple)) and any(x is name for x in par.elts):
        gp = getattr(par, "_parent", None)
        while isinstance(gp, ast.BinOp) and isinstance(gp.op, ast.Add):
            gp = getattr(gp, "_parent", None)
        if gp is st and isinstance(st, (ast.Assign, ast.AnnAssign, ast.AugAssign)):
            return True
        if isinstance(gp, ast.Call) and gp is getattr(st, "value", None) and isinstance(gp.func, ast.Attribute) and gp.func.attr == "extend":
            return True
    return False


def _chain(st: ast.AST, func) -> List[ast.AST]:
    out = [st]
    p = getattr(st, "_parent", None)
    while p is not None and p is not func:
        out.append(p)
        p = getattr(p, "_parent", None)
    out.append(func)
    return out


def _field_of(parent: ast.AST, child: ast.AST) -> Optional[str]:
    for name in ("body", "orelse", "finalbody", "handlers"):
        v = getattr(parent, name, None)
        if isinstance(v, list) and child in v:
            return name
    return None


def _always(stmt: ast.AST, creates: set) -> bool:
    """Does executing ``stmt`` (normally) always execute one of the create statements?"""
    if stmt in creates:
        return True
    if isinstance(stmt, ast.If):
        return any(_always(s, creates) for s in stmt.body) and bool(stmt.orelse) and any(_always(s, creates) for s in stmt.orelse)
    if isinstance(stmt, ast.Try):
        return any(_always(s, creates) for s in stmt.body)
    if isinstance(stmt, (ast.With, ast.AsyncWith)):
        return any(_always(s, creates) for s in stmt.body)
    return False


def move_proof(func, cfg, delete_call: ast.Call, recv: ast.AST) -> Optional[str]:
    text = norm(recv)
    dst = cfg.stmt_of(delete_call)
    if dst is None:
        return None
    cands = []
    for c in walk_local(func):
        if isinstance(c, ast.Call) and _fix_kind(c) in _CREATE_KINDS:
            ed = _fix_edit(c)
            cst = cfg.stmt_of(c)
            if ed is not None and cst is not None and _mentions(func, ed, text, cst):
                cands.append((c, cst))
                # ``fx = LintFix.create_*(..)`` ... ``fixes.append(fx)``: the statement that hands the local
                # (still holding exactly this fix) to a result list is where the fix is added
                if isinstance(cst, ast.Assign) and cst.value is c and len(cst.targets) == 1 and isinstance(cst.targets[0], ast.Name):
                    held = cst.targets[0].id
                    rd = cfg.reaching()
                    for u in walk_local(func):
                        if isinstance(u, ast.Name) and isinstance(u.ctx, ast.Load) and u.id == held:
                            ust = cfg.stmt_of(u)
                            if ust is None or ust is cst or _sink_name(ust) in (None, held):
                                continue
                            ds = rd.defs_at(ust, held)
                            if ds and all(d_.stmt is cst for d_ in ds) and _handed_over(ust, u):
                                cands.append((c, ust))
    if not cands:
        return None
    sink = _sink_name(dst)
    cands = [(c, cst) for c, cst in cands if sink is not None and _sink_name(cst) == sink or cst is dst]
    if not cands:
        return None
    creates = {cst for _, cst in cands}
    if dst in creates:
        c = [c for c, cst in cands if cst is dst][0]
        return f"{_fix_kind(c)} in the same statement"
    dchain = _chain(dst, func)
    for c, cst in cands:
        cchain = _chain(cst, func)
        common = next((p for p in dchain if any(p is q for q in cchain)), None)
        if common is None or common is dst or common is cst:
            continue
        dchild = dchain[dchain.index(common) - 1]
        cchild = cchain[[i for i, q in enumerate(cchain) if q is common][0] - 1]
        fd, fc = _field_of(common, dchild), _field_of(common, cchild)
        if fd is None or fd != fc:
            continue  # different branches of the same statement: alternatives, not companions
        if _always(cchild, creates):
            return f"{_fix_kind(c)}({short(_fix_edit(c), 50)}) at line offset {cst.lineno - func.lineno:+d} in {func.name}"
    return None


# ---------------------------------------------------------------------------


def _rel(m) -> str:
    return m.relpath[len("src/sqlfluff/"):]


def _key(m, func, call) -> Tuple[str, str]:
    return (f"{_rel(m)}::{qualname(func) if func is not None else '<module>'}", norm(call))


def _outer_function(n: ast.AST):
    f = enclosing_function(n)
    while f is not None and isinstance(f, ast.Lambda):
        f = enclosing_function(f)
    return f


def _witnesses_ok(func, wits) -> List[str]:
    if not wits:
        return []
    text = ast.unparse(func)
    # also look at sibling functions of the same module for facts established there
    mod_text = ast.unparse(func._module.tree)
    return [w for w in wits if w not in text and w not in mod_text]


def _is_segment_class(repo, m, name: str):
    """(class name, is_raw) if ``name`` denotes a BaseSegment subclass."""
    r = repo.resolve_name(m, name)
    cands = []
    if r and isinstance(r[1], ast.ClassDef):
        cands = [r]
    elif r is None and "." not in name and name not in m.defs and name[:1].isupper():
        cands = repo.class_index().get(name, [])
    for mm, cc in cands:
        names = [x.name for _, x in repo.mro(mm, cc)]
        if "BaseSegment" in names:
            return cc.name, "RawSegment" in names
    return None


def _r14c(chk, repo) -> None:
    """Respacing may strip the newline between two blocks ("touch:inline" and friends).  Next to a
    comment that glues the following code onto the comment line: the code becomes comment text.
    determine_constraints therefore withdraws the strip request whenever either neighbour holds a
    comment -- unconditionally, whatever the source of the request (block config, parent config,
    or the caller's argument)."""
    chk.rule(
        "R14c",
        "determine_constraints withdraws newline stripping next to a comment on every path: the `= False` store guarded by the comment test has no other "
        "guard than the existence of both blocks, and no later store can switch stripping back on",
    )
    f = repo.fn("src/sqlfluff/utils/reflow/respace.py", "determine_constraints")
    cfg = cfg_of(f)
    params = {a.arg for a in f.args.args}
    def _ret_tuple(r):
        v = r.value
        if isinstance(v, ast.Name):  # the result tuple held in a local
            os_ = origins(cfg, v, r)
            v = os_[0].expr if len(os_) == 1 and os_[0].kind == "expr" and not os_[0].path else None
        return v if isinstance(v, ast.Tuple) and len(v.elts) == 3 else None

    rets = [t for t in (_ret_tuple(r) for r in walk_local(f) if isinstance(r, ast.Return)) if t is not None]
    if not rets or not all(isinstance(t.elts[2], ast.Name) for t in rets):
        raise AnalysisError("determine_constraints: (pre, post, strip_newlines) return not found")
    flag = rets[0].elts[2].id

    def is_comment_test(e) -> bool:
        return any(
            isinstance(c, ast.Call) and last_attr(c) == "is_type" and any(isinstance(a, ast.Constant) and a.value == "comment" for a in c.args) for c in ast.walk(e)
        ) or any(isinstance(a, ast.Attribute) and a.attr == "is_comment" for a in ast.walk(e))

    stores = [n for n in walk_local(f) if isinstance(n, ast.Assign) and any(isinstance(t, ast.Name) and t.id == flag for t in n.targets)
              and isinstance(n.value, ast.Constant) and n.value.value is False]
    def is_presence_test(e, pol) -> bool:
        """``block`` true / ``block is not None`` true / ``block is None`` false, for a parameter."""
        if isinstance(e, ast.Name):
            return pol and e.id in params
        if isinstance(e, ast.Compare) and len(e.ops) == 1 and isinstance(e.left, ast.Name) and e.left.id in params and isinstance(e.comparators[0], ast.Constant) and e.comparators[0].value is None:
            return (isinstance(e.ops[0], ast.IsNot) and pol) or (isinstance(e.ops[0], ast.Is) and not pol)
        return False

    guarded = []
    for st in stores:
        ifs = [g for g in cfg.guards(st) if isinstance(g.stmt, ast.If)]
        if any(pol and is_comment_test(e) for g in ifs for e, pol in branch_atoms(cfg, g)):
            guarded.append((st, ifs))
    chk.count("R14c.comment_guards", len(guarded))
    if not chk.require(bool(guarded), "R14c", f, "determine_constraints no longer switches newline stripping off next to a comment: a stripped newline glues code onto a `--` comment",
                       detail="comment guard exists"):
        return
    for st, ifs in guarded:
        extra = []
        for g in ifs:
            ats = branch_atoms(cfg, g)
            if any(is_comment_test(e) for e, _ in ats):
                continue  # the comment test itself, or the false arm of a sibling comment test (if/elif)
            if ats and all(is_presence_test(e, pol) for e, pol in ats):
                continue  # `if prev_block and next_block:` -- needed to look at their segments at all
            extra.append(short(g.stmt.test, 60) + ("" if g.polarity else " (false)"))
        chk.require(
            not extra, "R14c", st,
            f"the comment guard only runs under {extra}: when newline stripping was requested by another source (a block's own spacing config, the caller) "
            "it is not withdrawn and the newline after a comment is deleted",
            detail="comment guard is unconditional",
        )
        later = [n for n in walk_local(f) if n is not st and isinstance(n, (ast.Assign, ast.AugAssign)) and any(
            isinstance(x, ast.Name) and x.id == flag and isinstance(x.ctx, ast.Store) for t in (n.targets if isinstance(n, ast.Assign) else [n.target]) for x in ast.walk(t)
        ) and cfg.reaches(st, n)]
        chk.require(not later, "R14c", st, "a later store can switch newline stripping back on after the comment guard", detail="comment guard is the last word")


def _r14d(chk, repo) -> None:
    from ..idioms import conditions_at

    f = repo.fn("src/sqlfluff/rules/layout/LT09.py", "Rule_LT09._eval_single_select_target_element")
    cfg = cfg_of(f)
    n = 0

    def says_no_comment(e, pol) -> bool:
        if isinstance(e, ast.UnaryOp) and isinstance(e.op, ast.Not):
            return says_no_comment(e.operand, not pol)
        if not (isinstance(e, ast.Compare) and len(e.ops) == 1):
            return False
        l, op, r = e.left, e.ops[0], e.comparators[0]
        if isinstance(r, ast.Attribute) and r.attr == "comment_after_select_idx":
            l, r = r, l
        if not (isinstance(l, ast.Attribute) and l.attr == "comment_after_select_idx"):
            return False
        minus1 = isinstance(r, ast.UnaryOp) and isinstance(r.op, ast.USub) and isinstance(r.operand, ast.Constant) and r.operand.value == 1
        if minus1 and isinstance(op, ast.NotEq):
            return not pol
        if minus1 and isinstance(op, ast.Eq):
            return pol
        if isinstance(r, ast.Constant) and r.value == 0 and isinstance(op, ast.Lt):
            return pol
        if isinstance(r, ast.Constant) and r.value == 0 and isinstance(op, ast.GtE):
            return not pol
        return False

    for r in [r for r in walk_local(f) if isinstance(r, ast.Return) and r.value is not None]:
        vs = [o.expr for o in origins(cfg, r.value, r)] if isinstance(r.value, ast.Name) else [r.value]
        for v in vs:
            if not (isinstance(v, ast.Call) and last_attr(v) == "LintResult"):
                continue
            fx = kwarg(v, "fixes") or (v.args[1] if len(v.args) > 1 else None)
            if fx is None or (isinstance(fx, ast.Constant) and fx.value is None):
                continue
            n += 1
            ok = any(says_no_comment(e, pol) for e, pol in conditions_at(cfg, r))
            chk.require(
                ok, "R14d", r,
                "LT09 returns fixes that move the single select target up to the SELECT line on a path where a comment may follow SELECT on that line "
                "(`comment_after_select_idx == -1` is not known here): behind an inline comment the target becomes comment text",
                detail="LT09 single target: fixes only when no comment follows SELECT on its line",
            )
    chk.count("R14d.fix_returns", n)
    chk.floor("R14d.fix_returns", 1)
    # the scan that sets comment_after_select_idx walks over everything that can stand between the
    # SELECT keyword and the first target on that line
    g = repo.fn("src/sqlfluff/rules/layout/LT09.py", "Rule_LT09._get_indexes")
    gcfg = cfg_of(g)
    scans = 0
    for c in [c for c in ast.walk(g) if isinstance(c, ast.Call) and last_attr(c) == "select" and kwarg(c, "loop_while") is not None and kwarg(c, "stop_seg") is not None]:
        if not any(isinstance(a, ast.Call) and last_attr(a) == "is_type" and any(isinstance(x, ast.Constant) and x.value == "comment" for x in a.args) for a in c.args):
            continue
        scans += 1
        lw = kwarg(c, "loop_while")
        if isinstance(lw, ast.Name):
            os_ = origins(gcfg, lw, gcfg.stmt_of(c))
            lw = os_[0].expr if len(os_) == 1 and os_[0].kind == "expr" else lw
        types, meta = set(), False
        if isinstance(lw, ast.Call) and last_attr(lw) == "or_":
            for a in lw.args:
                if isinstance(a, ast.Call) and last_attr(a) == "is_type":
                    types |= {x.value for x in a.args if isinstance(x, ast.Constant)}
                if isinstance(a, ast.Call) and last_attr(a) == "is_meta":
                    meta = True
        need = {"comment", "whitespace", "select_clause_modifier"}
        chk.require(
            need <= types and meta, "R14d", c,
            f"the scan for a comment after SELECT continues only over {sorted(types)}{' and metas' if meta else ''}: it stops at {sorted(need - types) or 'a meta'} before reaching a comment "
            "further along the SELECT line, the 'do not autofix' gate does not fire and the target is moved up behind that comment",
            detail="LT09: comment scan walks over comments, whitespace, metas and the select modifier",
        )
    chk.count("R14d.comment_scans", scans)
    chk.floor("R14d.comment_scans", 1)


def _r14f(chk, repo) -> None:
    f = repo.fn("src/sqlfluff/utils/reflow/elements.py", "ReflowPoint.respace_point")
    cfg = cfg_of(f)
    dc = [c for c in ast.walk(f) if isinstance(c, ast.Call) and last_attr(c) == "determine_constraints"]
    if len(dc) != 1:
        raise AnalysisError("R14f: respace_point no longer calls determine_constraints exactly once; re-confirm the anchor by hand")
    n = 0
    for c in [c for c in ast.walk(f) if isinstance(c, ast.Call) and last_attr(c) == "process_spacing"]:
        a = kwarg(c, "strip_newlines") or (c.args[1] if len(c.args) > 1 else None)
        if a is None:
            chk.fail("R14f", c, "process_spacing is called without the stripping switch decided by determine_constraints", detail="respace_point: stripping switch from determine_constraints")
            continue
        n += 1
        ok = False
        if isinstance(a, ast.Name):
            os_ = origins(cfg, a, cfg.stmt_of(c))
            ok = bool(os_) and all(o.kind == "expr" and o.expr is dc[0] and tuple(o.path) == (2,) for o in os_)
        chk.require(
            ok, "R14f", c,
            f"the stripping switch handed to process_spacing (`{short(a, 40)}`) is not exactly the third component of determine_constraints(...): that function has already combined the caller's "
            "request with the comment veto, so anything OR-ed in afterwards strips the newline after a `--` comment and glues the next keyword onto it",
            detail="respace_point: stripping switch is determine_constraints' verdict",
        )
    chk.count("R14f.process_spacing_calls", n)
    chk.floor("R14f.process_spacing_calls", 1)


def _r14e(chk, repo) -> None:
    from ..idioms import conditions_at

    f = repo.fn("src/sqlfluff/rules/layout/LT12.py", "get_trailing_newlines")
    cfg = cfg_of(f)
    loops = [l for l in walk_local(f) if isinstance(l, ast.For) and isinstance(l.iter, ast.Call) and last_attr(l.iter) == "recursive_crawl_all"]
    if not loops:
        raise AnalysisError("R14e: get_trailing_newlines has no recursive_crawl_all scan; re-confirm the anchor by hand")
    n = 0
    for l in loops:
        breaks = [b for b in ast.walk(l) if isinstance(b, ast.Break)]
        chk.require(bool(breaks), "R14e", l, "the backward scan never stops: every newline of the file is a 'trailing newline' and LT12 deletes them", detail="LT12 scan: has a stop")
        for b in breaks:
            n += 1
            bad = []
            for e, pol in conditions_at(cfg, b):
                if isinstance(e, ast.UnaryOp) and isinstance(e.op, ast.Not):
                    e, pol = e.operand, not pol
                neg_ok = (
                    (isinstance(e, ast.Attribute) and e.attr in ("is_whitespace", "is_meta"))
                    or (isinstance(e, ast.Call) and last_attr(e) == "is_type" and all(isinstance(a, ast.Constant) for a in e.args))
                )
                if not (neg_ok and not pol):
                    bad.append(("" if pol else "not ") + short(e, 40))
            chk.require(
                not bad, "R14e", b,
                f"the backward scan for trailing newlines only stops under {bad}: it walks back through segments that are neither whitespace nor metas (comments), "
                "so newlines between trailing comment lines are 'trailing' too and LT12 deletes them (`-- a` / `-- b` become `-- a-- b`)",
                detail="LT12 scan: stops at the first non-whitespace, non-meta segment",
            )
    chk.count("R14e.scan_stops", n)
    chk.floor("R14e.scan_stops", 1)


def run(chk) -> None:
    chk.rule("R14a", "in rules/layout and utils/reflow only WhitespaceSegment/NewlineSegment are constructed (constant text whitespace-only); x.edit(raw) only on whitespace/newline/indent receivers; other .edit() calls pass only source_fixes/source_str")
    chk.rule("R14b", "every LintFix delete in rules/layout and utils/reflow removes something established as whitespace/newline/indent, or is one half of a move (same expression re-created alongside), or is a reviewed site whose recorded facts still hold; layout rules do not call ReflowSequence.without()")
    repo = chk.repo
    _r14c(chk, repo)
    chk.rule("R14d", "LT09 (single select target) returns a result with fixes only where `comment_after_select_idx == -1` is known: a target is never moved up onto a SELECT line that carries a comment")
    chk.rule("R14e", "LT12's backward scan for trailing newlines ends at the first segment that is not whitespace / a meta / the end-of-file marker -- in particular at a comment: the conditions of its `break` are only negated is_whitespace / is_meta / is_type(..) tests")
    _r14d(chk, repo)
    _r14e(chk, repo)
    chk.rule("R14f", "the comment veto of determine_constraints is final: in ReflowPoint.respace_point the newline-stripping switch handed to process_spacing (and read afterwards) is the third component of determine_constraints' result and nothing else -- the caller's request has already been folded in there")
    _r14f(chk, repo)
    mods = [m for s in SCOPES for m in repo.iter_modules(s)]
    pv = Prover(repo, mods)
    used: Dict[Tuple[str, str], int] = {}
    if len(mods) < 15:
        raise AnalysisError(f"layout/reflow scope has only {len(mods)} modules")
    seen_del, seen_edit = set(), set()
    ambiguous = []
    for m in mods:
        for n in ast.walk(m.tree):
            if not isinstance(n, ast.Call):
                continue
            func = _outer_function(n)
            cfg = cfg_of(func) if isinstance(func, FuncNode) else None
            at = cfg.stmt_of(n) if cfg is not None else None
            cn = call_name(n)
            la = last_attr(n)
            # ---------------- constructors -----------------------------------
            if cn and not isinstance(n.func, ast.Call) and cn.split(".")[-1][:1].isupper():
                sc = _is_segment_class(repo, m, cn)
                if sc is not None:
                    cname, is_raw = sc
                    chk.count("R14a.segment_constructor_calls")
                    if chk.require(
                        cname in WS_CLASSES, "R14a", n,
                        f"layout/reflow code constructs a {cname} ({'raw token' if is_raw else 'composite segment'}): a fix carrying it inserts non-whitespace text",
                        detail=f"constructs {short(n, 100)}",
                    ):
                        raw = arg_of(n, 0, "raw")
                        if raw is None:
                            chk.count("R14a.ctor_default_text")
                        elif isinstance(raw, ast.Constant):
                            chk.count("R14a.ctor_constant_text")
                            chk.require(
                                isinstance(raw.value, str) and (raw.value == "" or raw.value.isspace()), "R14a", n,
                                f"{cname} constructed with constant text {raw.value!r} that is not whitespace", detail=f"constant text of {short(n, 100)}",
                            )
                        else:
                            chk.count("R14a.ctor_dynamic_text")
                        chk.sample({"rule": "R14a", "site": f"{m.relpath}:{n.lineno}", "constructs": short(n, 70)}, limit=4)
                    continue
                if cn == "SourceFix":
                    chk.count("R14a.sourcefix_constructions")
                    t = arg_of(n, 0, "edit")
                    if isinstance(t, ast.Constant):
                        chk.require(
                            isinstance(t.value, str) and (t.value == "" or t.value.isspace()), "R14a", n,
                            f"SourceFix with constant text {t.value!r} that is not whitespace rewrites template source with non-whitespace", detail=f"constant text of {short(n, 100)}",
                        )
                    continue
                if cn == "ReflowPoint":
                    chk.count("R14a.reflowpoint_constructions")
                    segs = arg_of(n, 0, "segments")
                    r = pv.coll(func, segs, at) if segs is not None and func is not None else None
                    if segs is None:
                        r = "no segments"
                    if r is not None:
                        chk.count("R14a.reflowpoint_args_whitespace")
                        chk.ok("R14a", construct_of(n), f"{short(n, 70)} [{r[:80]}]")
                        continue
                    key = _key(m, func, n)
                    ent = REVIEWED_POINTS.get(key)
                    if ent is not None:
                        seen_edit.add(key)
                        used[key] = used.get(key, 0) + 1
                        missing = _witnesses_ok(func, ent[2])
                        chk.require(not missing and used[key] <= ent[3], "R14a", n, f"reviewed ReflowPoint construction relied on {missing or 'a single site'}", detail=f"reviewed point: {short(n, 100)}")
                        chk.count("R14a.reflowpoint_args_reviewed")
                        continue
                    chk.fail(
                        "R14a", n,
                        f"ReflowPoint built from {short(segs, 60)!r}, which is not established to hold only whitespace/newline/indent segments: "
                        "the ReflowPoint invariant (points hold nothing but whitespace) is what licenses the deletes and edits of point segments",
                        detail=f"point segments: {short(n, 100)}",
                    )
                    continue
            # ---------------- .edit(...) ---------------------------------------
            if la == "edit" and isinstance(n.func, ast.Attribute):
                chk.count("R14a.edit_sites")
                recv = n.func.value
                kws = {k.arg for k in n.keywords}
                has_raw = bool(n.args) or "raw" in kws
                if not has_raw:
                    chk.require(
                        kws <= EDIT_BOOKKEEPING_KW, "R14a", n,
                        f".edit() passes {sorted(kws - EDIT_BOOKKEEPING_KW)} besides source_fixes/source_str", detail=f"keywords of {short(n, 100)}",
                    )
                    chk.count("R14a.edit_sourcefix_only")
                    continue
                r = pv.seg(func, recv, at) if func is not None else None
                if r is not None:
                    chk.count("R14a.edit_raw_on_whitespace")
                    chk.ok("R14a", construct_of(n), f"{short(n, 80)} [{r[:80]}]")
                    chk.sample({"rule": "R14a", "site": f"{m.relpath}:{n.lineno}", "edit": short(n, 60), "receiver_is_whitespace_because": r[:140]}, limit=8)
                    continue
                t = pv.nonws(func, recv, at) if func is not None else None
                if t is not None:
                    chk.fail(
                        "R14a", n,
                        f"{short(n, 60)} sets the text of a segment established as non-whitespace ({t}): a layout fix would change token text",
                        detail=f"raw edit of non-whitespace: {short(n, 100)}",
                    )
                    continue
                key = _key(m, func, n)
                ent = REVIEWED_EDITS.get(key)
                if ent is not None:
                    seen_edit.add(key)
                    used[key] = used.get(key, 0) + 1
                    missing = _witnesses_ok(func, ent[2])
                    chk.require(not missing and used[key] <= ent[3], "R14a", n, f"reviewed .edit(raw) site relied on {missing or 'being the only such site in the function'}", detail=f"reviewed edit: {short(n, 100)}")
                    chk.count("R14a.edit_reviewed")
                    continue
                chk.count("R14a.edit_ambiguous")
                ambiguous.append(f"{m.relpath}:{n.lineno} {short(n, 60)}")
                continue
            # ---------------- who may call without() -----------------------------
            if la == "without" and isinstance(n.func, ast.Attribute) and m.relpath.startswith(SCOPES[0]):
                chk.fail("R14b", n, "layout rule calls ReflowSequence.without(): deletes a caller-chosen code segment", detail=f"without(): {short(n, 100)}")
                continue
            # ---------------- deletes --------------------------------------------
            kind = _fix_kind(n)
            if kind is None:
                continue
            chk.count("R14b.lintfix_constructions")
            if kind == "?dynamic":
                # LintFix(<variable kind>, anchor, edit): the kind must only ever be create/replace
                k = arg_of(n, 0, "edit_type")
                vals = set()
                okk = isinstance(k, ast.Name) and cfg is not None
                if okk:
                    for o in origins(cfg, k, at):
                        if o.kind == "expr" and isinstance(o.expr, ast.Constant):
                            vals.add(o.expr.value)
                        else:
                            okk = False
                chk.require(
                    okk and vals <= set(_CREATE_KINDS), "R14b", n,
                    f"LintFix with a computed kind that may be {sorted(map(str, vals)) or 'anything'}: cannot exclude a delete of a non-whitespace anchor", detail=f"dynamic kind: {short(n, 100)}",
                )
                if okk and "replace" in vals:
                    # a `replace` by freshly built whitespace removes its anchor: wherever the kind can be
                    # "replace", the anchor must be the segment that was established as whitespace
                    why = _dynamic_replace_unsafe(cfg, n, k, at)
                    chk.require(
                        why is None, "R14b", n,
                        f"LintFix with a computed kind: {why} -- a `replace` by whitespace then deletes a token that is not whitespace (e.g. a comment)",
                        detail=f"dynamic replace anchors whitespace: {short(n, 100)}",
                    )
                continue
            if kind != "delete":
                continue
            chk.count("R14b.delete_sites")
            recv = _fix_anchor(n)
            if recv is None or func is None or cfg is None:
                chk.fail("R14b", n, "delete fix whose anchor expression cannot be located", detail=f"delete: {short(n, 100)}")
                continue
            r = pv.seg(func, recv, at)
            if r is not None:
                chk.count("R14b.delete_WS")
                chk.ok("R14b", construct_of(n), f"{short(n, 60)} WS[{r[:90]}]")
                chk.sample({"rule": "R14b", "site": f"{m.relpath}:{n.lineno}", "delete": short(recv, 50), "class": "WS", "because": r[:160]}, limit=12)
                continue
            mv = move_proof(func, cfg, n, recv)
            if mv is not None:
                chk.count("R14b.delete_MOVE")
                chk.ok("R14b", construct_of(n), f"{short(n, 60)} MOVE[{mv}]")
                chk.sample({"rule": "R14b", "site": f"{m.relpath}:{n.lineno}", "delete": short(recv, 50), "class": "MOVE", "re-created by": mv}, limit=12)
                continue
            key = _key(m, func, n)
            ent = REVIEWED_DELETES.get(key)
            if ent is not None:
                seen_del.add(key)
                used[key] = used.get(key, 0) + 1
                missing = _witnesses_ok(func, ent[2])
                chk.require(
                    not missing, "R14b", n,
                    f"delete site was classified {ent[0]} on the strength of {missing!r}, which no longer occurs in the code: the deleted segment is no longer established as whitespace / moved",
                    detail=f"reviewed delete: {short(n, 80)}",
                )
                chk.require(
                    used[key] <= ent[3], "R14b", n,
                    f"{used[key]} unproven delete sites with this text in the function, only {ent[3]} were reviewed: a new delete is not covered by the review",
                    detail=f"reviewed delete count: {short(n, 80)}",
                )
                chk.count("R14b.delete_reviewed")
                continue
            t = pv.tested(func, recv, at)
            chk.fail(
                "R14b", n,
                f"LintFix delete of {short(recv, 50)!r}: not established as whitespace/newline/indent"
                + (f" (it is established as non-whitespace by {t[1]})" if t and t[0] == "NONWS" else "")
                + ", not re-created by an accompanying create/replace, not a reviewed site — a layout fix could remove a token",
                detail=f"delete: {short(n, 100)}",
            )
    if ambiguous:
        chk.note("R14a .edit(raw) receivers about which nothing is known (not judged): " + "; ".join(ambiguous))
    # callers of without() anywhere in reflow utilities (API entry is fine, internal use is not)
    stale = [k for k in list(REVIEWED_DELETES) + list(REVIEWED_EDITS) + list(REVIEWED_POINTS) if k not in seen_del and k not in seen_edit]
    chk.count("R14b.table_entries_unused", len(stale))
    if stale:
        chk.note("reviewed-table entries not needed on this tree (site proven mechanically or gone): " + "; ".join(f"{a}: {b}" for a, b in stale))
    chk.floor("R14a.segment_constructor_calls", 15)
    chk.floor("R14a.edit_sites", 4)
    chk.floor("R14b.delete_sites", 20)
    chk.floor("R14a.reflowpoint_constructions", 10)


# ---------------------------------------------------------------------------
from ..selftest import Variant  # noqa: E402

LT = "src/sqlfluff/rules/layout/"
RF = "src/sqlfluff/utils/reflow/"

VARIANTS: List[Variant] = [
    Variant(
        "caller-request-ored-back-over-the-comment-veto", "src/sqlfluff/utils/reflow/elements.py",
        "        pre_constraint, post_constraint, strip_newlines = determine_constraints(\n            prev_block, next_block, strip_newlines\n        )\n",
        "        pre_constraint, post_constraint, inline_constraint = determine_constraints(\n            prev_block, next_block, strip_newlines\n        )\n        strip_newlines = strip_newlines or inline_constraint\n",
        "R14f", "respace_point", "seeded C14-7",
    ),
    Variant(
        "quiet-constraints-result-kept-whole", "src/sqlfluff/utils/reflow/elements.py",
        "        pre_constraint, post_constraint, strip_newlines = determine_constraints(\n            prev_block, next_block, strip_newlines\n        )\n",
        "        constraints = determine_constraints(prev_block, next_block, strip_newlines)\n        pre_constraint, post_constraint, strip_newlines = constraints\n",
        "QUIET", None, "R14f: the result through a local before it is unpacked",
    ),
    Variant(
        "lt09-gate-only-for-inline-comments", "src/sqlfluff/rules/layout/LT09.py",
        "        if select_targets_info.comment_after_select_idx != -1:\n",
        "        if select_targets_info.comment_after_select_idx != -1 and select_children[\n            select_targets_info.comment_after_select_idx\n        ].is_type(\"inline_comment\"):\n",
        "R14d", "_eval_single_select_target_element", "seeded C14-3: `SELECT /* x */ -- y` + target on the next line",
    ),
    Variant(
        "lt09-comment-scan-stops-at-the-modifier", "src/sqlfluff/rules/layout/LT09.py",
        "                    sp.is_type(\"select_clause_modifier\"),\n",
        "",
        "R14d", "_get_indexes", "the defect repaired in /repo: `SELECT DISTINCT -- c` + target on the next line",
    ),
    Variant(
        "quiet-lt09-gate-through-a-boolean-local", "src/sqlfluff/rules/layout/LT09.py",
        "        if select_targets_info.comment_after_select_idx != -1:\n",
        "        comment_on_select_line = select_targets_info.comment_after_select_idx >= 0\n        if comment_on_select_line:\n",
        "QUIET", None, "R14d: the gate held in a boolean local, spelled >= 0",
    ),
    Variant(
        "lt12-scan-stops-at-code-only", "src/sqlfluff/rules/layout/LT12.py",
        "        if not seg.is_whitespace and not seg.is_type(\"dedent\", \"end_of_file\"):\n",
        "        if seg.is_code:\n",
        "R14e", "get_trailing_newlines", "seeded C14-4: trailing comment lines are glued together",
    ),
    Variant(
        "quiet-lt12-scan-continue-form", "src/sqlfluff/rules/layout/LT12.py",
        "        if not seg.is_whitespace and not seg.is_type(\"dedent\", \"end_of_file\"):\n            break\n",
        "        if seg.is_whitespace or seg.is_type(\"dedent\", \"end_of_file\"):\n            continue\n        break\n",
        "QUIET", None, "R14e: the same stop written as continue / break",
    ),

    Variant(
        "respace-comment-guard-only-under-parent-config", RF + "respace.py",
        "        # Prohibit stripping newlines adjacent to comment segments (either\n        # immediately before or immediately after this point), since doing\n        # so could glue code to a comment marker and change meaning.\n        if any(seg.is_type(\"comment\") for seg in prev_block.segments) or any(\n            seg.is_type(\"comment\") for seg in next_block.segments\n        ):\n            strip_newlines = False\n",
        "            if any(seg.is_type(\"comment\") for seg in prev_block.segments) or any(\n                seg.is_type(\"comment\") for seg in next_block.segments\n            ):\n                strip_newlines = False\n",
        "R14c", "determine_constraints", "seeded C14-1: `count -- how many\\n    (*)` becomes `count -- how many    (*)`",
    ),
    Variant(
        "quiet-respace-comment-guard-helper-local", RF + "respace.py",
        "        if any(seg.is_type(\"comment\") for seg in prev_block.segments) or any(\n            seg.is_type(\"comment\") for seg in next_block.segments\n        ):\n            strip_newlines = False\n",
        "        if any(seg.is_type(\"comment\") for seg in prev_block.segments):\n            strip_newlines = False\n        elif any(seg.is_type(\"comment\") for seg in next_block.segments):\n            strip_newlines = False\n",
        "QUIET", None, "disjunction spelled as if/elif",
    ),
    # behaviour-preserving refactors: must stay quiet
    Variant(
        "quiet-respace-comment-test-in-boolean-local", RF + "respace.py",
        "        if any(seg.is_type(\"comment\") for seg in prev_block.segments) or any(\n            seg.is_type(\"comment\") for seg in next_block.segments\n        ):\n            strip_newlines = False\n",
        "        next_to_comment = any(seg.is_type(\"comment\") for seg in prev_block.segments) or any(\n            seg.is_type(\"comment\") for seg in next_block.segments\n        )\n        if next_to_comment:\n            strip_newlines = False\n",
        "QUIET", None, "comment test held in a boolean local",
    ),
    Variant(
        "quiet-respace-blocks-tested-against-none", RF + "respace.py",
        "    within_spacing = \"\"\n    if prev_block and next_block:\n",
        "    within_spacing = \"\"\n    if prev_block is not None and next_block is not None:\n",
        "QUIET", None, "ReflowBlock defines neither __bool__ nor __len__: `is not None` is the same test",
    ),
    Variant(
        "quiet-respace-result-through-local", RF + "respace.py",
        "    return pre_constraint, post_constraint, strip_newlines\n",
        "    constraints = (pre_constraint, post_constraint, strip_newlines)\n    return constraints\n",
        "QUIET", None, "result tuple through a local",
    ),
    Variant(
        "quiet-respace-comment-guard-nested-ifs", RF + "respace.py",
        "        if any(seg.is_type(\"comment\") for seg in prev_block.segments) or any(\n            seg.is_type(\"comment\") for seg in next_block.segments\n        ):\n            strip_newlines = False\n",
        "        if not any(seg.is_type(\"comment\") for seg in prev_block.segments):\n            if any(seg.is_type(\"comment\") for seg in next_block.segments):\n                strip_newlines = False\n        else:\n            strip_newlines = False\n",
        "QUIET", None, "disjunction spelled as nested ifs",
    ),
    Variant(
        "quiet-lt06-all-test-in-boolean-local", LT + "LT06.py",
        "            if intermediate_segments.all(sp.is_type(\"whitespace\", \"newline\")):\n",
        "            only_spacing = intermediate_segments.all(sp.is_type(\"whitespace\", \"newline\"))\n            if only_spacing:\n",
        "QUIET", None, "whitespace-only test held in a boolean local",
    ),
    Variant(
        "quiet-lt06-fixes-built-by-loop", LT + "LT06.py",
        "                return LintResult(\n                    anchor=intermediate_segments[0],\n                    fixes=[LintFix.delete(seg) for seg in intermediate_segments],\n                )\n",
        "                fixes = []\n                for seg in intermediate_segments:\n                    fixes.append(LintFix.delete(seg))\n                return LintResult(\n                    anchor=intermediate_segments[0],\n                    fixes=fixes,\n                )\n",
        "QUIET", None, "comprehension turned into a loop",
    ),
    Variant(
        "quiet-lt06-early-returns", LT + "LT06.py",
        "        if intermediate_segments:\n            # It's only safe to fix if there is only whitespace\n            # or newlines in the intervening section.\n            if intermediate_segments.all(sp.is_type(\"whitespace\", \"newline\")):\n                return LintResult(\n                    anchor=intermediate_segments[0],\n                    fixes=[LintFix.delete(seg) for seg in intermediate_segments],\n                )\n            else:\n                # It's not all whitespace, just report the error.\n                return LintResult(\n                    anchor=intermediate_segments[0],\n                )\n        return LintResult()\n",
        "        if not intermediate_segments:\n            return LintResult()\n        if not intermediate_segments.all(sp.is_type(\"whitespace\", \"newline\")):\n            # It's not all whitespace, just report the error.\n            return LintResult(\n                anchor=intermediate_segments[0],\n            )\n        return LintResult(\n            anchor=intermediate_segments[0],\n            fixes=[LintFix.delete(seg) for seg in intermediate_segments],\n        )\n",
        "QUIET", None, "nested ifs turned into early returns",
    ),
    Variant(
        "quiet-lt09-newline-test-in-boolean-local", LT + "LT09.py",
        "                if next_segment.is_type(\"newline\"):\n",
        "                followed_by_newline = next_segment.is_type(\"newline\")\n                if followed_by_newline:\n",
        "QUIET", None, "type test held in a boolean local",
    ),
    Variant(
        "quiet-lt09-nested-delete-condition-merged", LT + "LT09.py",
        "                        if delete_last_newline:\n                            fixes.append(LintFix.delete(next_segment))\n",
        "                        if delete_last_newline and next_segment is not None:\n                            fixes.append(LintFix.delete(next_segment))\n",
        "QUIET", None, "an always-true conjunct added to the inner test",
    ),
    Variant(
        "quiet-lt08-whitespace-test-in-boolean-local", LT + "LT08.py",
        "                    if forward_slice[comma_seg_idx + 1].is_type(\"whitespace\"):\n                        fix_type = \"replace\"\n",
        "                    lands_on_whitespace = forward_slice[comma_seg_idx + 1].is_type(\"whitespace\")\n                    if lands_on_whitespace:\n                        fix_type = \"replace\"\n",
        "QUIET", None, "whitespace test held in a boolean local",
    ),
    Variant(
        "quiet-lt08-kind-set-before-anchor", LT + "LT08.py",
        "                            fix_point = forward_slice[seg_idx - 1]\n                            fix_type = \"replace\"\n",
        "                            fix_type = \"replace\"\n                            fix_point = forward_slice[seg_idx - 1]\n",
        "QUIET", None, "two independent assignments reordered",
    ),
    Variant(
        "quiet-lt08-fix-keyword-arguments", LT + "LT08.py",
        "                LintFix(\n                    fix_type,\n                    fix_point,\n                    [NewlineSegment()] * num_newlines,\n                )\n",
        "                LintFix(\n                    edit_type=fix_type,\n                    anchor=fix_point,\n                    edit=[NewlineSegment()] * num_newlines,\n                )\n",
        "QUIET", None, "LintFix arguments by keyword",
    ),
    Variant(
        "quiet-lt08-kind-local-renamed", LT + "LT08.py",
        "fix_type",
        "edit_kind",
        "QUIET", None, "computed-kind local renamed everywhere", 4,
    ),
    Variant(
        "quiet-lt15-crawler-types-positional", LT + "LT15.py",
        "SegmentSeekerCrawler(types={\"newline\"}, provide_raw_stack=True)",
        "SegmentSeekerCrawler({\"newline\"}, provide_raw_stack=True)",
        "QUIET", None, "types passed positionally",
    ),
    Variant(
        "quiet-lt15-delete-context-segment-directly", LT + "LT15.py",
        "                fixes=[LintFix.delete(context_seg)],\n",
        "                fixes=[LintFix.delete(context.segment)],\n",
        "QUIET", None, "alias local bypassed",
    ),
    Variant(
        "quiet-reindent-whitespace-deletes-by-loop", RF + "reindent.py",
        "    fixes = [\n        # Remove the comment from it's current position, and any\n        # whitespace in the previous point.\n        LintFix.delete(comment_seg),\n        *[\n            LintFix.delete(ws)\n            for ws in line_buffer[-2].segments\n            if ws.is_type(\"whitespace\")\n        ],\n    ]\n",
        "    fixes = [LintFix.delete(comment_seg)]\n    for ws in line_buffer[-2].segments:\n        if ws.is_type(\"whitespace\"):\n            fixes.append(LintFix.delete(ws))\n",
        "QUIET", None, "starred comprehension turned into a loop",
    ),
    Variant(
        "quiet-reindent-create-through-local", RF + "reindent.py",
        "    fixes.append(\n        # NOTE: This looks a little convoluted, but we create\n        # *before* a block here rather than *after* a point,\n        # because the point may have been modified already by\n        # reflow code and may not be a reliable anchor.\n        LintFix.create_before(\n            anchor,\n            [\n                comment_seg,\n                *new_point.segments,\n            ],\n        )\n    )\n",
        "    reinsert = LintFix.create_before(\n        anchor,\n        [\n            comment_seg,\n            *new_point.segments,\n        ],\n    )\n    fixes.append(reinsert)\n",
        "QUIET", None, "the re-creating fix built into a local, then appended",
    ),
    Variant(
        "quiet-reindent-moved-segments-through-local", RF + "reindent.py",
        '    fixes.append(\n        # NOTE: This looks a little convoluted, but we create\n        # *before* a block here rather than *after* a point,\n        # because the point may have been modified already by\n        # reflow code and may not be a reliable anchor.\n        LintFix.create_before(\n            anchor,\n            [\n                comment_seg,\n                *new_point.segments,\n            ],\n        )\n    )\n',
        '    moved_segments = [comment_seg, *new_point.segments]\n    fixes.append(\n        LintFix.create_before(anchor_segment=anchor, edit_segments=moved_segments)\n    )\n',
        "QUIET", None, "re-created segments listed in a local; keyword arguments",
    ),
    Variant(
        "quiet-process-spacing-nested-ifs", RF + "respace.py",
        '            if strip_newlines and seg.is_type("newline"):\n                reflow_logger.debug("    Stripping newline: %s", seg)\n                removal_buffer.append(seg)\n                result_buffer.append(\n                    LintResult(\n                        seg, [LintFix.delete(seg)], description="Unexpected line break."\n                    )\n                )\n                # Carry on as though it wasn\'t here.\n                continue\n',
        '            if strip_newlines:\n                if seg.is_type("newline"):\n                    reflow_logger.debug("    Stripping newline: %s", seg)\n                    removal_buffer.append(seg)\n                    stripped = LintFix.delete(seg)\n                    result_buffer.append(\n                        LintResult(seg, [stripped], description="Unexpected line break.")\n                    )\n                    # Carry on as though it wasn\'t here.\n                    continue\n',
        "QUIET", None, "conjunction as nested ifs; the delete fix through a local",
    ),
    Variant(
        "quiet-sequence-point-test-in-boolean-local", RF + "sequence.py",
        "            if (\n                seg.is_type(\"whitespace\", \"newline\", \"indent\")\n                or (get_consumed_whitespace(seg) or \"\").isspace()\n            ):\n",
        "            point_like = (\n                seg.is_type(\"whitespace\", \"newline\", \"indent\")\n                or (get_consumed_whitespace(seg) or \"\").isspace()\n            )\n            if point_like:\n",
        "QUIET", None, "point-like test held in a boolean local",
    ),
    Variant(
        "quiet-sequence-point-test-split-if-elif", RF + "sequence.py",
        "            if (\n                seg.is_type(\"whitespace\", \"newline\", \"indent\")\n                or (get_consumed_whitespace(seg) or \"\").isspace()\n            ):\n                # Add to the buffer and move on.\n                seg_buff.append(seg)\n                continue\n            elif elem_buff or seg_buff:\n",
        "            if seg.is_type(\"whitespace\", \"newline\", \"indent\"):\n                seg_buff.append(seg)\n                continue\n            elif (get_consumed_whitespace(seg) or \"\").isspace():\n                seg_buff.append(seg)\n                continue\n            elif elem_buff or seg_buff:\n",
        "QUIET", None, "`or` split into if/elif with the same action",
    ),
    Variant(
        "quiet-elements-edit-raw-by-keyword", RF + "elements.py",
        "ws_seg.edit(desired_indent)",
        "ws_seg.edit(raw=desired_indent)",
        "QUIET", None, "raw passed by keyword",
    ),
    # breaking twins of the spellings accepted above
    Variant(
        "reindent-create-in-local-never-appended", RF + "reindent.py",
        '    fixes.append(\n        # NOTE: This looks a little convoluted, but we create\n        # *before* a block here rather than *after* a point,\n        # because the point may have been modified already by\n        # reflow code and may not be a reliable anchor.\n        LintFix.create_before(\n            anchor,\n            [\n                comment_seg,\n                *new_point.segments,\n            ],\n        )\n    )\n',
        '    reinsert = LintFix.create_before(\n        anchor,\n        [\n            comment_seg,\n            *new_point.segments,\n        ],\n    )\n    reflow_logger.debug("    Would re-insert: %s", reinsert)\n',
        "R14b", "LintFix.delete(comment_seg)", "the re-creating fix is built but never added to the fix list",
    ),
    Variant(
        "lt08-kind-set-before-anchor-of-other-segment", LT + "LT08.py",
        "                            fix_point = forward_slice[seg_idx - 1]\n                            fix_type = \"replace\"\n",
        "                            fix_type = \"replace\"\n                            fix_point = forward_slice[seg_idx]\n",
        "R14b", "LT08", "the anchor bound after the store is not the segment that was tested",
    ),
    Variant(
        "lt08-boolean-local-tests-another-segment", LT + "LT08.py",
        "                    if forward_slice[comma_seg_idx + 1].is_type(\"whitespace\"):\n                        fix_type = \"replace\"\n",
        "                    lands_on_whitespace = forward_slice[comma_seg_idx].is_type(\"whitespace\")\n                    if lands_on_whitespace:\n                        fix_type = \"replace\"\n",
        "R14b", "LT08", "the local holds a test of a different segment",
    ),
    Variant(
        "lt06-boolean-local-holds-another-test", LT + "LT06.py",
        "            if intermediate_segments.all(sp.is_type(\"whitespace\", \"newline\")):\n",
        "            only_spacing = intermediate_segments.all(sp.is_type(\"whitespace\", \"newline\", \"comment\"))\n            if only_spacing:\n",
        "R14b", "Rule_LT06._eval", "comments between the name and the bracket would be deleted",
    ),
    Variant(
        "sequence-second-arm-takes-comments", RF + "sequence.py",
        "            if (\n                seg.is_type(\"whitespace\", \"newline\", \"indent\")\n                or (get_consumed_whitespace(seg) or \"\").isspace()\n            ):\n                # Add to the buffer and move on.\n                seg_buff.append(seg)\n                continue\n            elif elem_buff or seg_buff:\n",
        "            if seg.is_type(\"whitespace\", \"newline\", \"indent\"):\n                seg_buff.append(seg)\n                continue\n            elif (get_consumed_whitespace(seg) or \"x\").isspace() or seg.is_comment:\n                seg_buff.append(seg)\n                continue\n            elif elem_buff or seg_buff:\n",
        "R14a", "point segments", "breaking twin of the if/elif spelling",
    ),
    Variant(
        "respace-comment-local-tested-with-parent-config", RF + "respace.py",
        "        if any(seg.is_type(\"comment\") for seg in prev_block.segments) or any(\n            seg.is_type(\"comment\") for seg in next_block.segments\n        ):\n            strip_newlines = False\n",
        "        next_to_comment = any(seg.is_type(\"comment\") for seg in prev_block.segments) or any(\n            seg.is_type(\"comment\") for seg in next_block.segments\n        )\n        if within_constraint:\n            if next_to_comment:\n                strip_newlines = False\n",
        "R14c", "determine_constraints", "seeded C14-1 in the boolean-local spelling",
    ),
    Variant(
        "respace-comment-guard-needs-a-non-presence-test", RF + "respace.py",
        "    within_spacing = \"\"\n    if prev_block and next_block:\n",
        "    within_spacing = \"\"\n    if prev_block is not None and next_block is not None and strip_newlines is not None:\n        pass\n    if prev_block and next_block and not strip_newlines:\n",
        "R14c", "determine_constraints", "the whole block, comment guard included, is skipped when stripping was requested",
    ),
    Variant(
        "lt08-fix-kind-default-hoisted-out-of-the-loop", LT + "LT08.py",
        "            fix_type = \"create_before\"  # In most cases we just insert newlines.\n            if comma_style == \"oneline\":\n",
        "            fix_type = \"create_before\" if bracket_idx == bracket_indices[0] else fix_type\n            if comma_style == \"oneline\":\n",
        "R14b", "LT08", "seeded C14-2 (same effect): 'replace' left over from an earlier CTE deletes a comment",
    ),
    Variant(
        "quiet-lt08-fix-kind-through-two-locals", LT + "LT08.py",
        "                    if forward_slice[comma_seg_idx + 1].is_type(\"whitespace\"):\n                        fix_type = \"replace\"\n",
        "                    if fix_point.is_type(\"whitespace\"):\n                        fix_type = \"replace\"\n",
        "QUIET", None, "the whitespace test spelled on the anchor variable itself",
    ),
    Variant(
        "lt10-inserts-a-comma-symbol", LT + "LT10.py",
        "            edit_segments.append(NewlineSegment())\n",
        "            edit_segments.append(SymbolSegment(\",\", type=\"comma\"))\n",
        "R14a", "constructs SymbolSegment",
    ),
    Variant(
        "reindent-newline-replaced-by-semicolon-text", RF + "reindent.py",
        'replacement_segs.append(WhitespaceSegment(" "))',
        'replacement_segs.append(WhitespaceSegment(";"))',
        "R14a", "constant text of WhitespaceSegment",
    ),
    Variant(
        "lt12-placeholder-gets-raw-text", LT + "LT12.py",
        "[_template_segment.edit(source_fixes=[source_fix])],",
        "[_template_segment.edit(\"\\n\", source_fixes=[source_fix])],",
        "R14a", "raw edit of non-whitespace",
    ),
    Variant(
        "lt12-sourcefix-writes-semicolon", LT + "LT12.py",
        '            source_fix = SourceFix(\n                "\\n",',
        '            source_fix = SourceFix(\n                ";\\n",',
        "R14a", "constant text of SourceFix",
    ),
    Variant(
        "sequence-point-swallows-any-segment", RF + "sequence.py",
        '                seg.is_type("whitespace", "newline", "indent")\n                or (get_consumed_whitespace(seg) or "").isspace()\n',
        '                seg.is_type("whitespace", "newline", "indent", "comment")\n                or (get_consumed_whitespace(seg) or "").isspace()\n',
        "R14a", "point segments", "comments would become part of points, whose segments reflow deletes freely",
    ),
    Variant(
        "lt06-deletes-whatever-stands-between", LT + "LT06.py",
        '            if intermediate_segments.all(sp.is_type("whitespace", "newline")):',
        "            if intermediate_segments:",
        "R14b", "Rule_LT06._eval",
    ),
    Variant(
        "lt10-modifier-deleted-but-not-reinserted", LT + "LT10.py",
        "            WhitespaceSegment(),\n            select_clause_modifier,\n        ]",
        "            WhitespaceSegment(),\n        ]",
        "R14b", "LintFix.delete(select_clause_modifier)",
    ),
    Variant(
        "lt09-deletes-next-sibling-unconditionally", LT + "LT09.py",
        '                elif next_segment.is_type("whitespace"):',
        "                else:",
        "R14b", "LintFix.delete(next_segment)",
    ),
    Variant(
        "rebreak-trailing-target-not-recreated", RF + "rebreak.py",
        "                        LintFix.create_after(\n                            create_anchor,\n                            [loc.target],",
        "                        LintFix.create_after(\n                            create_anchor,\n                            [NewlineSegment()],",
        "R14b", "LintFix.delete(loc.target)",
    ),
    Variant(
        "lt15-crawler-also-visits-comments", LT + "LT15.py",
        'SegmentSeekerCrawler(types={"newline"}, provide_raw_stack=True)',
        'SegmentSeekerCrawler(types={"newline", "comment"}, provide_raw_stack=True)',
        "R14b", "Rule_LT15._eval",
    ),
    Variant(
        "lt07-deletes-the-closing-bracket", LT + "LT07.py",
        "                        LintFix.create_before(\n                            seg,\n                            [\n                                NewlineSegment(),\n                            ],\n                        )",
        "                        LintFix.delete(seg)",
        "R14b", "Rule_LT07._eval",
    ),
    Variant(
        "respace-point-also-prunes-the-next-block", RF + "elements.py",
        "            list(self.segments), strip_newlines\n",
        "            list(self.segments) + list(next_block.segments if next_block else ()), strip_newlines\n",
        "R14b", "process_spacing", "process_spacing deletes trailing/duplicate whitespace of whatever it is given; it must only be given a point's segments",
    ),
    Variant(
        "reindent-comment-move-loses-the-comment", RF + "reindent.py",
        "            [\n                comment_seg,\n                *new_point.segments,\n            ],",
        "            [\n                *new_point.segments,\n            ],",
        "R14b", "LintFix.delete(comment_seg)",
    ),
    Variant(
        "lt09-reviewed-guard-removed", LT + "LT09.py",
        '        if select_children[target_idx - 1].is_type("whitespace"):\n            initial_deletes.append(select_children[target_idx - 1])',
        "        if target_idx:\n            initial_deletes.append(select_children[target_idx - 1])",
        "R14b", "reviewed delete", "a reviewed site loses the test it was reviewed with",
    ),
    Variant(
        "rebreak-second-unreviewed-delete-in-reviewed-function", RF + "rebreak.py",
        "                    for seg in elem_buff[loc.next.adj_pt_idx].segments:\n                        fixes.append(LintFix.delete(seg))\n",
        "                    for seg in elem_buff[loc.next.adj_pt_idx].segments:\n                        fixes.append(LintFix.delete(seg))\n                    for seg in elem_buff[loc.next.adj_pt_idx + 1].segments:\n                        fixes.append(LintFix.delete(seg))\n",
        "R14b", "reviewed delete count",
    ),
    Variant(
        "lt05-uses-without-to-drop-a-token", LT + "LT05.py",
        "            .break_long_lines()\n",
        "            .without(context.segment)\n            .break_long_lines()\n",
        "R14b", "without()",
    ),
]
