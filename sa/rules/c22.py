"""C22 — exit codes reflect only unsuppressed failures.

R22a  every violation count that can influence a ``sys.exit`` argument of the
      lint / fix / format commands and their helpers (data- or control-wise, also
      through the return value of a module-local helper) is suppression-filtered
      AND warning-filtered.
R22b  the ``LintedDir`` counters those sinks read are only ever advanced by such
      counts, or by constant increments guarded by the record's warning status.
R22d  ``LintingResult.stats``: the "exit code" entry is ``fail_code`` exactly when
      the summed ``violations`` statistic is positive, and that statistic is the
      filtered counter.
R22e  exit constants: EXIT_SUCCESS=0, EXIT_FAIL=1, EXIT_ERROR=2; the CLI user-error
      handler exits with EXIT_ERROR; the three commands run their linter calls
      inside that handler; ``--nofail`` is the only way lint ignores its exit code.
R22f  every violation handed to a ``LintedFile`` has had the ``ignore`` and
      ``warnings`` configuration applied: the list passed to the constructor is
      flagged by a loop calling ``ignore_if_in`` and ``warning_if_in`` on every
      element, unconditionally, after the list's last extension.
(R22c — user errors through the runners' funnels — lives with C24's R24d.)

Accepted spellings (decided on dominance / origins, never on local names):
* a test hoisted into a boolean local stands for its expression (``_expand_atoms``);
  ``sys.exit(...)`` ends its branch, so ``if a: ...; sys.exit(x)`` establishes ``not a`` for
  the code that follows (``_conditions`` – the shared CFG gives the call a fall-through edge).
* R22d: the 'exit code' entry may be a conditional expression, an if/else statement or a
  default that is overridden; judged by which parameter can be the *final* value when the
  ``["violations"]`` statistic is positive / zero; ``> 0``, ``!= 0``, ``>= 1`` and truthiness
  are the same test of a count.  The per-dir 'violations' entry may sit in a dict display or
  a ``dict(...)`` call, the counter read directly or through a local.
* R22e: constants as plain or annotated assignments; the handler's test as
  ``is``/``==`` known true or ``is not``/``!=`` known false; the handler object built in
  the ``with`` item or held in a local bound only by that construction.
* R22f: one loop applying both flagging methods or several whole-list loops that together
  apply both (each validated on its own); the list handed on under a plain alias.
"""

from __future__ import annotations

import ast
from typing import List, Optional, Set, Tuple

from ..cfg import Branch, Synthetic, atoms, cfg_of, origins
from ..counts import Counts, FIL, UNF, CountInfo, zero_test
from ..index import AnalysisError, FuncNode, call_name, calls_in, enclosing_class, kwarg, last_attr, norm, short, walk_local

CLI = "src/sqlfluff/cli/commands.py"
CLI_INIT = "src/sqlfluff/cli/__init__.py"
LDIR = "src/sqlfluff/core/linter/linted_dir.py"
LRES = "src/sqlfluff/core/linter/linting_result.py"


def _names(e) -> Set[str]:
    return {n.id for n in ast.walk(e) if isinstance(n, ast.Name)}


def _expand_atoms(cfg, e: ast.expr, pol: bool, at, depth: int = 0) -> List[Tuple[ast.expr, bool]]:
    """Atomic facts of ``e`` having truth ``pol`` at ``at``, seeing through a test hoisted into a
    boolean local (``flag = not nofail; if flag:``): a plain name bound by exactly one
    expression whose own names still have the same bindings at ``at`` stands for that
    expression.  ``and``/``or``/``not`` are split as in ``cfg.conditions``."""
    out: List[Tuple[ast.expr, bool]] = []
    for a, p_ in atoms(e, pol):
        if isinstance(a, ast.Name) and depth < 5 and at is not None:
            os_ = origins(cfg, a, at)
            if len(os_) == 1 and os_[0].kind == "expr" and not os_[0].path and os_[0].stmt is not None and not isinstance(os_[0].expr, ast.Constant):
                o = os_[0]
                rd = cfg.reaching()
                if all(rd.defs_at(o.stmt, nm) == rd.defs_at(at, nm) for nm in _names(o.expr)):
                    out += _expand_atoms(cfg, o.expr, p_, o.stmt, depth + 1)
                    continue
        out.append((a, p_))
    return out


def _is_exit_stmt(n) -> bool:
    return isinstance(n, ast.Expr) and isinstance(n.value, ast.Call) and call_name(n.value) == "sys.exit"


def _exc_edge_target(cfg, m) -> bool:
    return m is cfg.raise_exit or (isinstance(m, Branch) and isinstance(m.stmt, ast.ExceptHandler)) or (
        isinstance(m, Synthetic) and not isinstance(m, Branch) and str(getattr(m, "label", "")).startswith("finally")
    )


def _reach_noreturn(cfg, goal, blocked) -> bool:
    """Is there a path entry -> goal that does not pass ``blocked`` and never *continues past* a
    ``sys.exit(...)`` statement (the shared CFG gives such a statement a fall-through edge;
    it has none: only its exception edges are real)."""
    seen, stack = {cfg.entry}, [cfg.entry]
    while stack:
        n = stack.pop()
        if n is goal:
            return True
        succ = cfg.succ[n]
        if _is_exit_stmt(n):
            succ = [m for m in succ if _exc_edge_target(cfg, m)]
        for m in succ:
            if m in seen or m is blocked:
                continue
            seen.add(m)
            stack.append(m)
    return False


def _conditions(cfg, stmt) -> List[Tuple[ast.expr, bool]]:
    """``cfg.conditions(stmt)`` plus the tests established by an earlier branch that ends in
    ``sys.exit(...)`` (``if a: ...; sys.exit(x)`` followed by code: ``not a`` holds there),
    every atom expanded through boolean locals."""
    raw: List[Tuple[ast.expr, bool, object]] = []
    have = set()
    for g in cfg.guards(stmt):
        if isinstance(g.stmt, (ast.If, ast.While)):
            have.add(id(g))
            raw.append((g.stmt.test, g.polarity, g.stmt))
    if _reach_noreturn(cfg, stmt, None):
        for n in cfg.nodes:
            if isinstance(n, Branch) and isinstance(n.stmt, (ast.If, ast.While)) and id(n) not in have and cfg.reachable(n):
                if not _reach_noreturn(cfg, stmt, n):
                    raw.append((n.stmt.test, n.polarity, n.stmt))
    out: List[Tuple[ast.expr, bool]] = []
    for test, pol, at in raw:
        out += _expand_atoms(cfg, test, pol, at)
    return out


def _switch_off(cfg, stmt) -> bool:
    """``fix_even_unparsable`` (the parameter, read directly or through a local) is known false at ``stmt``."""
    from ..flowutil import param_origin

    for e2, pol in _conditions(cfg, stmt):
        if isinstance(e2, ast.UnaryOp) and isinstance(e2.op, ast.Not):
            e2, pol = e2.operand, not pol
        if pol or not isinstance(e2, ast.Name):
            continue
        at = cfg.stmt_of(e2)
        if e2.id == "fix_even_unparsable" or param_origin(cfg, e2, at) == "fix_even_unparsable":
            return True
    return False


def _is_handler_with(cfg, w) -> bool:
    """``with PathAndUserErrorHandler(...):`` – the context manager built in place or held in a
    local that is bound only by such a construction."""
    if not isinstance(w, (ast.With, ast.AsyncWith)):
        return False
    for i in w.items:
        e = i.context_expr
        if isinstance(e, ast.Call) and last_attr(e) == "PathAndUserErrorHandler":
            return True
        if isinstance(e, ast.Name):
            os_ = origins(cfg, e, w)
            if os_ and all(o.kind == "expr" and not o.path and isinstance(o.expr, ast.Call) and last_attr(o.expr) == "PathAndUserErrorHandler" for o in os_):
                return True
    return False


def _inside_handler(f, c) -> bool:
    cfg = cfg_of(f)
    p = c
    while p is not None and p is not f:
        if _is_handler_with(cfg, p):
            return True
        p = getattr(p, "_parent", None)
    return False


def _violations_sign(e: ast.expr, pol: bool) -> Optional[bool]:
    """True: the fact says the ``["violations"]`` statistic is positive; False: it is zero;
    None: the fact is not a test of that statistic.  ``> 0``, ``!= 0``, ``>= 1`` and plain
    truthiness are the same test of a non-negative count (``== 0``, ``<= 0``, ``< 1`` its negation)."""
    zt = zero_test(e)
    q, asserts_zero = zt if zt else (e, False)
    if not (isinstance(q, ast.Subscript) and isinstance(q.slice, ast.Constant) and q.slice.value == "violations"):
        return None
    return (not asserts_zero) if pol else asserts_zero


def _influencing_exprs(f, sinks: List[Tuple[ast.expr, object]]) -> List[Tuple[ast.expr, object]]:
    """Expressions (with their statement) whose value can influence the sink
    expressions: the sinks themselves, the tests that guard them, and –
    transitively – the right-hand sides and guards of assignments to any name
    they mention."""
    cfg = cfg_of(f)
    out: List[Tuple[ast.expr, object]] = []
    rel: Set[str] = set()
    seen_stmt = set()

    def add_expr(e, st):
        out.append((e, st))
        rel.update(_names(e))

    for e, st in sinks:
        add_expr(e, st)
        for t, pol in cfg.conditions(st):
            add_expr(t, cfg.stmt_of(t) or st)
    changed = True
    while changed:
        changed = False
        for n in walk_local(f):
            tgt = val = None
            if isinstance(n, ast.Assign):
                tgt, val = n.targets, n.value
            elif isinstance(n, ast.AugAssign):
                tgt, val = [n.target], n.value
            elif isinstance(n, ast.AnnAssign) and n.value is not None:
                tgt, val = [n.target], n.value
            if tgt is None or id(n) in seen_stmt:
                continue
            if {x.id for t in tgt for x in ast.walk(t) if isinstance(x, ast.Name)} & rel:
                seen_stmt.add(id(n))
                add_expr(val, n)
                for t, pol in cfg.conditions(n):
                    add_expr(t, cfg.stmt_of(t) or n)
                changed = True
    return out


def run(chk) -> None:
    repo = chk.repo
    chk.rule("R22a", "every violation count that can influence a sys.exit argument of lint/fix/format is suppression- and warning-filtered")
    chk.rule("R22b", "LintedDir counters read by the exit computations are only advanced by filtered counts or by warning-guarded constant increments")
    chk.rule("R22g", "in the fix drivers a count that includes parse errors influences the exit status only where fix_even_unparsable is known to be off")
    chk.rule("R22d", "LintingResult.stats derives 'exit code' only from the filtered violations statistic")
    chk.rule("R22e", "exit constants are 0/1/2; user errors exit with EXIT_ERROR inside PathAndUserErrorHandler; commands run linter calls inside it")
    counts = Counts(repo)
    cli = repo.mod(CLI)

    # ---- R22a ------------------------------------------------------------------
    local_funcs = {q: f for q, f in cli.functions() if "." not in q}
    visited = set()
    influencing_attrs: Set[str] = set()

    def analyse(f, sinks, depth, via):
        key = (f.name, tuple(id(s[0]) for s in sinks))
        if key in visited or depth > 3:
            return
        visited.add(key)
        cfg = cfg_of(f)
        for e, st in _influencing_exprs(f, sinks):
            for n in ast.walk(e):
                if not isinstance(n, (ast.Call, ast.Attribute, ast.Subscript)):
                    continue
                ci: Optional[CountInfo] = None
                if isinstance(n, (ast.Call, ast.Attribute)):
                    ci = counts.classify_expr_shallow(n)
                if ci is None and isinstance(n, ast.Subscript):
                    ci = counts.classify(f, n, st) if isinstance(n.value, ast.Call) else None
                if ci is None and isinstance(n, ast.Call) and last_attr(n) in counts.tuple_summaries and False:
                    pass
                if ci is not None and ci.kind == "MIXED" and not isinstance(n, ast.Attribute):
                    ci = None  # sum(...) over a counter: the attribute node inside is judged itself
                if ci is not None:
                    chk.count("R22a.count_reads")
                    good = ci.kind in (FIL,) and ci.warn_filtered
                    if ci.kind == "CONST":
                        good = True
                    if isinstance(n, ast.Attribute) and n.attr in counts.attr_kinds:
                        # a LintedDir counter: every advance is judged on its own by R22b;
                        # here only an unfiltered advance is a direct R22a violation
                        influencing_attrs.add(n.attr)
                        infos = counts.attr_kinds[n.attr]
                        good = all((i.kind == FIL and i.warn_filtered) or i.kind == "CONST" for i in infos)
                        bad_i = [i for i in infos if not ((i.kind == FIL and i.warn_filtered) or i.kind == "CONST")]
                        if bad_i:
                            ci = bad_i[0]
                    # serialised fixable count from records keeps warnings by design (informational)
                    chk.require(
                        good, "R22a", n,
                        f"a count that is not {'suppression' if ci.kind != FIL else 'warning'}-filtered can influence the exit status of {via}: {ci!r}",
                        detail=f"{f.name}: exit-influencing count {short(n, 70)}",
                    )
                    chk.sample({"rule": "R22a", "function": f.name, "site": f"{CLI}:{getattr(n, 'lineno', 0)}", "count": repr(ci)})
                    # R22g: with fix_even_unparsable a parse error does not block fixing and must not fail the run
                    fparams = [a.arg for a in f.args.args + f.args.kwonlyargs]
                    if "fix_even_unparsable" in fparams and ci.types is not None and "SQLParseError" in set(ci.types):
                        chk.count("R22g.parse_error_counts_in_fix_drivers")
                        stn = cfg.stmt_of(n) or st
                        gated = _switch_off(cfg, stn)
                        chk.require(
                            gated, "R22g", n,
                            f"{f.name}: a count that includes parse errors ({short(n, 60)}) can influence the exit status without a dominating `not fix_even_unparsable`: "
                            "with --FIX-EVEN-UNPARSABLE the file is fixed, nothing unfixable remains, and the run still exits 1 (the path driver returns the "
                            "pre-existing exit code in that case)",
                            detail=f"{f.name}: parse-error count is gated by not fix_even_unparsable",
                        )
                # names bound from tuple summaries (a, b = X.count_tmp_prs_errors())
            for nm in [x for x in ast.walk(e) if isinstance(x, ast.Name)]:
                ci = counts.classify(f, nm, st)
                if ci is not None and ci.via.startswith(tuple(counts.tuple_summaries)):
                    chk.count("R22a.count_reads")
                    chk.require(
                        ci.kind == FIL and ci.warn_filtered, "R22a", nm,
                        f"a count that is not suppression/warning-filtered can influence the exit status of {via}: {ci!r}",
                        detail=f"{f.name}: exit-influencing component {nm.id}",
                    )
                    fparams = [a.arg for a in f.args.args + f.args.kwonlyargs]
                    if "fix_even_unparsable" in fparams and ci.types is not None and "SQLParseError" in set(ci.types):
                        chk.count("R22g.parse_error_counts_in_fix_drivers")
                        stn = cfg.stmt_of(nm) or st
                        gated = _switch_off(cfg, stn)
                        chk.require(
                            gated, "R22g", nm,
                            f"{f.name}: a count that includes parse errors ({nm.id}) can influence the exit status without a dominating `not fix_even_unparsable`",
                            detail=f"{f.name}: parse-error count is gated by not fix_even_unparsable",
                        )
            # helper return values
            for c in [x for x in ast.walk(e) if isinstance(x, ast.Call)]:
                if isinstance(c.func, ast.Name) and c.func.id in local_funcs:
                    h = local_funcs[c.func.id]
                    rs = [(r.value, r) for r in walk_local(h) if isinstance(r, ast.Return) and r.value is not None]
                    if rs:
                        analyse(h, rs, depth + 1, via)

    n_cmd = 0
    for q, f in local_funcs.items():
        exits = [c for c in calls_in(f) if call_name(c) == "sys.exit" and c.args]
        if not exits:
            continue
        uses_linter = any(last_attr(c) in ("lint_paths", "lint_string_wrapped", "_stdin_fix", "_paths_fix") for c in calls_in(f))
        if not uses_linter:
            continue
        n_cmd += 1
        cfg = cfg_of(f)
        analyse(f, [(c.args[0], cfg.stmt_of(c)) for c in exits], 0, q)
    chk.count("R22a.exit_functions", n_cmd)
    chk.floor("R22a.exit_functions", 3)
    chk.floor("R22a.count_reads", 4)

    # ---- R22d: stats -----------------------------------------------------------
    st = repo.fn(LRES, "LintingResult.stats")
    cfg = cfg_of(st)
    params = [a.arg for a in st.args.args]
    # every store to the 'exit code' entry, split into its leaves: (value, facts known there).
    # ``X if T else Y`` contributes (X, T true) and (Y, T false) on top of the branch
    # conditions of the statement, so the conditional expression, an if/else statement and
    # a test hoisted into a boolean local are judged as the same thing.
    stores = [
        n for n in walk_local(st)
        if isinstance(n, ast.Assign) and isinstance(n.targets[0], ast.Subscript) and isinstance(n.targets[0].slice, ast.Constant) and n.targets[0].slice.value == "exit code"
    ]
    found = bool(stores)
    leaves = []  # (store statement, param index or None, sign known at the leaf or None)
    for n in stores:
        v, v_at = n.value, n
        if isinstance(v, ast.Name) and v.id not in params:
            os_ = cfg.reaching().defs_at(n, v.id)
            if len(os_) == 1:
                d = next(iter(os_))
                if d.kind == "assign" and not d.path and isinstance(d.value, ast.IfExp):
                    v, v_at = d.value, d.stmt
        base = _conditions(cfg, n)
        parts = [(v, [])]
        if isinstance(v, ast.IfExp):
            parts = [(v.body, _expand_atoms(cfg, v.test, True, v_at)), (v.orelse, _expand_atoms(cfg, v.test, False, v_at))]
        for leaf, extra in parts:
            signs = {sg for sg in (_violations_sign(e, pol) for e, pol in base + extra) if sg is not None}
            if len(signs) == 2:
                continue  # contradictory facts: this leaf is never evaluated
            idx = params.index(leaf.id) if isinstance(leaf, ast.Name) and leaf.id in params else None
            leaves.append((n, idx, next(iter(signs)) if signs else None))

    def _branch_sign(x) -> Optional[bool]:
        if isinstance(x, Branch) and isinstance(x.stmt, (ast.If, ast.While)):
            sg_ = {z for z in (_violations_sign(e, pol) for e, pol in _expand_atoms(cfg, x.stmt.test, x.polarity, x.stmt)) if z is not None}
            if len(sg_) == 1:
                return next(iter(sg_))
        return None

    # which parameter can be the *final* value of the entry when the statistic is positive /
    # zero: a store counts for a sign when it can be reached and the return can be reached
    # from it without another store and without taking a branch that asserts the opposite
    # sign (covers `X if T else Y`, if/else, and default-then-override)
    final = {True: set(), False: set()}
    for sg in (True, False):
        contra = lambda x, sg=sg: _branch_sign(x) is (not sg)  # noqa: E731
        for n, idx, own in leaves:
            if own is not None and own != sg:
                continue
            others = [s_ for s_ in stores if s_ is not n]
            if cfg.paths_avoiding(cfg.entry, n, contra) and cfg.paths_avoiding(n, cfg.exit, lambda x: contra(x) or any(x is o for o in others)):
                final[sg].add(idx)
    pos, zero = final[True], final[False]
    expr_ok = (
        bool(leaves) and len(pos) == 1 and len(zero) == 1 and None not in pos and None not in zero
        and next(iter(pos)) < next(iter(zero))
    )
    if stores:
        chk.require(expr_ok, "R22d", stores[0], "'exit code' is not `fail_code if <violations statistic> > 0 else success_code`", detail="stats exit code expression")
        # set on every path to the return: no way from entry to exit around all the stores
        always = not cfg.paths_avoiding(cfg.entry, cfg.exit, lambda x: any(x is s_ for s_ in stores))
        chk.require(always, "R22d", stores[0], "'exit code' entry is only set conditionally", detail="stats exit code unconditional")
    chk.require(found, "R22d", st, "LintingResult.stats no longer sets an 'exit code' entry", detail="stats exit code present")
    # the violations statistic of LintedDir.stats is the filtered counter
    ds = repo.fn(LDIR, "LintedDir.stats")
    ds_cfg = cfg_of(ds)
    vio_attr = None
    for n in walk_local(ds):
        entries = []
        if isinstance(n, ast.Dict):
            entries = [(k.value, v) for k, v in zip(n.keys, n.values) if isinstance(k, ast.Constant)]
        elif isinstance(n, ast.Call) and isinstance(n.func, ast.Name) and n.func.id == "dict" and not n.args:
            entries = [(k.arg, k.value) for k in n.keywords if k.arg]
        for k, v in entries:
            if k != "violations":
                continue
            if isinstance(v, ast.Name):  # the counter read into a local first
                os_ = origins(ds_cfg, v, ds_cfg.stmt_of(n))
                if len(os_) == 1 and os_[0].kind == "expr" and not os_[0].path:
                    v = os_[0].expr
            if isinstance(v, ast.Attribute) and isinstance(v.value, ast.Name) and v.value.id == "self":
                vio_attr = v.attr
    chk.require(vio_attr is not None, "R22d", ds, "LintedDir.stats has no 'violations' entry read from a counter", detail="dir stats violations entry")
    exit_attrs = {vio_attr} if vio_attr else set()
    # stats must sum LintedDir.stats over all paths
    def _stats_comp(e) -> bool:
        """``[p.stats() for p in self.paths]`` (no filter): the per-dir dicts of all paths"""
        return (
            isinstance(e, (ast.ListComp, ast.GeneratorExp)) and len(e.generators) == 1 and not e.generators[0].ifs
            and norm(e.generators[0].iter) == "self.paths" and isinstance(e.elt, ast.Call) and last_attr(e.elt) == "stats"
        )

    def _is_dir_stats(a, at) -> bool:
        if isinstance(a, ast.Call):
            return last_attr(a) == "stats"
        if isinstance(a, ast.Name):  # ``dir_stats = path.stats()`` handed on, or the variable of a loop over the dicts
            os_ = origins(cfg, a, at)
            return bool(os_) and all(
                not o.path and (
                    (o.kind == "expr" and isinstance(o.expr, ast.Call) and last_attr(o.expr) == "stats")
                    or (o.kind == "for" and _stats_comp(o.expr))
                ) for o in os_
            )
        return False

    def _is_all_paths(it, at) -> bool:
        if norm(it) == "self.paths" or _stats_comp(it):
            return True
        if isinstance(it, ast.Name):
            os_ = origins(cfg, it, at)
            return bool(os_) and all(o.kind == "expr" and not o.path and (norm(o.expr) == "self.paths" or _stats_comp(o.expr)) for o in os_)
        return False

    summed = any(last_attr(c) == "sum_dicts" and any(_is_dir_stats(a, cfg.stmt_of(c)) for a in c.args) for c in calls_in(st))
    loop_all = any(isinstance(n, ast.For) and _is_all_paths(n.iter, n) for n in walk_local(st))
    chk.require(summed and loop_all, "R22d", st, "LintingResult.stats does not add up LintedDir.stats() over all paths", detail="stats sums all paths")

    # ---- R22b: counters --------------------------------------------------------
    # counters read (directly or through tuple summaries) by the exit computations
    for e_attr in list(influencing_attrs):
        exit_attrs.add(e_attr)
    for hname, comps in counts.tuple_summaries.items():
        for ci in comps:
            if ci is not None and ci.via.startswith(".") and ci.kind != UNF:
                exit_attrs.add(ci.via[1:].split(" ")[0])
    must_be_filtered = {a for a in exit_attrs if a}
    chk.count("R22b.exit_counters", len(must_be_filtered))
    ld = repo.cls(LDIR, "LintedDir")
    for attr in sorted(must_be_filtered):
        for ci in counts.attr_kinds.get(attr, []):
            chk.count("R22b.advance_sites")
            if ci.kind == "CONST":
                # constant increment: must be guarded by the record's warning status
                fn_name, stmt_txt = ci.via.split(": ", 1)
                fnode = repo.fn(LDIR, f"LintedDir.{fn_name}")
                cfg = cfg_of(fnode)
                stn = next((s for s in walk_local(fnode) if isinstance(s, ast.AugAssign) and norm(s) == stmt_txt), None)
                guarded = False
                if stn is not None:
                    for e, pol in _conditions(cfg, stn):
                        txt = norm(e)
                        if ("'warning'" in txt or '"warning"' in txt or ".warning" in txt) and not pol:
                            guarded = True
                chk.require(
                    guarded, "R22b", stn or fnode,
                    f"exit-relevant counter '{attr}' is advanced by a constant for every serialised violation that had fixes, without excluding warning-level "
                    f"violations (the serialised list keeps warnings): a warning can make fix/format exit 1",
                    detail=f"counter {attr}: constant advance in {fn_name}",
                )
            else:
                chk.require(
                    ci.kind == FIL and ci.warn_filtered, "R22b", ld,
                    f"exit-relevant counter '{attr}' is advanced by a count that is not suppression- and warning-filtered: {ci!r}",
                    detail=f"counter {attr}: advance {ci.via[:80]}",
                )
    chk.floor("R22b.advance_sites", 2)

    # ---- R22f ---------------------------------------------------------------------
    chk.rule("R22f", "every violation handed to a LintedFile had ignore_if_in and warning_if_in applied (flagging loop over the whole list after its last extension)")
    _r22f(chk, repo)

    # ---- R22e: constants and handler ----------------------------------------------
    init = repo.mod(CLI_INIT)
    consts = {}
    for n in init.tree.body:
        if isinstance(n, ast.Assign) and isinstance(n.targets[0], ast.Name) and isinstance(n.value, ast.Constant):
            consts[n.targets[0].id] = n.value.value
        elif isinstance(n, ast.AnnAssign) and isinstance(n.target, ast.Name) and isinstance(n.value, ast.Constant):
            consts[n.target.id] = n.value.value  # ``EXIT_ERROR: int = 2``
    for name, want in (("EXIT_SUCCESS", 0), ("EXIT_FAIL", 1), ("EXIT_ERROR", 2)):
        chk.require(consts.get(name) == want, "R22e", init.tree.body[0] if init.tree.body else None, f"{name} must be {want}, found {consts.get(name)!r}",
                    detail=f"{name} == {want}", construct=f"{CLI_INIT}::<module>")
    h = repo.fn(CLI, "PathAndUserErrorHandler.__exit__")
    cfg = cfg_of(h)
    ex = [c for c in calls_in(h) if call_name(c) == "sys.exit"]
    ok = False
    for c in ex:
        conds = _conditions(cfg, cfg.stmt_of(c))

        def _is_user_error(e, pol) -> bool:
            # ``x is not E`` / ``x != E`` known false is ``x is E`` / ``x == E`` known true
            if isinstance(e, ast.Compare) and len(e.ops) == 1 and isinstance(e.ops[0], (ast.IsNot, ast.NotEq)):
                pol = not pol
            return pol and "SQLFluffUserError" in norm(e)

        if c.args and norm(c.args[0]) == "EXIT_ERROR" and any(_is_user_error(e, pol) for e, pol in conds):
            ok = True
    chk.require(ok, "R22e", h, "the CLI user-error handler does not exit with EXIT_ERROR for SQLFluffUserError", detail="handler exits EXIT_ERROR")
    for q in ("lint", "fix", "cli_format"):
        f = local_funcs.get(q)
        if f is None:
            raise AnalysisError(f"command function {q} not found in cli/commands.py")
        for c in calls_in(f):
            if last_attr(c) in ("lint_paths", "lint_string_wrapped", "_stdin_fix", "_paths_fix") :
                inside = _inside_handler(f, c)
                chk.require(inside, "R22e", c, f"{q}: linter call outside PathAndUserErrorHandler (a user error would become a traceback, not exit 2)",
                            detail=f"{q}: {last_attr(c)} inside handler")
    # _paths_fix itself wraps lint_paths
    pf = local_funcs.get("_paths_fix")
    if pf is not None:
        for c in calls_in(pf):
            if last_attr(c) == "lint_paths":
                inside = _inside_handler(pf, c)
                chk.require(inside, "R22e", c, "_paths_fix: lint_paths outside PathAndUserErrorHandler", detail="_paths_fix: lint_paths inside handler")
    # lint: the only unconditional-success exit is under nofail
    lint = local_funcs["lint"]
    cfg = cfg_of(lint)
    for c in calls_in(lint):
        if call_name(c) == "sys.exit" and c.args and norm(c.args[0]) == "EXIT_SUCCESS":
            conds = _conditions(cfg, cfg.stmt_of(c))
            ok = any(isinstance(e, ast.Name) and any(o.kind == "param" and getattr(o.expr, "arg", "") == "nofail" for o in origins(cfg, e, cfg.stmt_of(c))) and pol for e, pol in conds)
            chk.require(ok, "R22e", c, "lint exits EXIT_SUCCESS unconditionally on a path not governed by --nofail", detail="lint: success exit only under nofail")


def _r22f(chk, repo) -> None:
    from ..index import Repo

    n = 0
    for m in repo.iter_modules("src/sqlfluff/core/"):
        for q, f in m.functions():
            for c in calls_in(f):
                if not (isinstance(c.func, ast.Name) and c.func.id == "LintedFile"):
                    continue
                n += 1
                cfg = cfg_of(f)
                st = cfg.stmt_of(c)
                varg = c.args[1] if len(c.args) > 1 else kwarg(c, "violations")
                # unwrap deduplicate_in_source_space(V)
                while isinstance(varg, ast.Call) and varg.args:
                    varg = varg.args[0]
                if isinstance(varg, ast.Name):
                    os_ = origins(cfg, varg, st)
                    if len(os_) == 1 and isinstance(os_[0].expr, ast.Call) and last_attr(os_[0].expr) == "deduplicate_in_source_space" and os_[0].expr.args:
                        inner = os_[0].expr.args[0]
                        if isinstance(inner, ast.Name):
                            varg, st_use = inner, os_[0].stmt
                # a plain alias of the list (``all_violations = violations``) is the list itself
                hops = 0
                while isinstance(varg, ast.Name) and hops < 4:
                    ds_ = cfg.reaching().defs_at(st, varg.id)
                    d_ = next(iter(ds_)) if len(ds_) == 1 else None
                    if d_ is None or d_.kind != "assign" or d_.path or not isinstance(d_.value, ast.Name):
                        break
                    varg, hops = d_.value, hops + 1
                if not isinstance(varg, ast.Name):
                    chk.fail("R22f", c, "cannot trace the violations list handed to LintedFile", detail=f"{q}: violations list traceable")
                    continue
                V = varg.id
                loops = []
                for n2 in walk_local(f):
                    if isinstance(n2, ast.For) and isinstance(n2.iter, ast.Name) and n2.iter.id == V and isinstance(n2.target, ast.Name):
                        called = {last_attr(x) for x in calls_in(n2) if isinstance(x.func, ast.Attribute) and isinstance(x.func.value, ast.Name) and x.func.value.id == n2.target.id
                                  and not cfg.conditions(cfg.stmt_of(x)) or False}
                        # conditions inside the loop body only (the loop's own branch is fine)
                        called = set()
                        for x in calls_in(n2):
                            if isinstance(x.func, ast.Attribute) and isinstance(x.func.value, ast.Name) and x.func.value.id == n2.target.id:
                                inner_conds = [e for e, pol in cfg.conditions(cfg.stmt_of(x)) if any(p is n2 for p in _parents(e))]
                                if not inner_conds:
                                    called.add(last_attr(x))
                        if {"ignore_if_in", "warning_if_in"} & called:
                            loops.append((n2, called))
                    # helper idiom: f(V, ...) whose body is such a loop over its parameter
                # one loop applying both, or several whole-list loops that together apply both:
                # each loop is validated on its own (dominates the construction, no extension of
                # the list after it), then the methods applied by the valid loops are united
                applied: Set[str] = set()
                why = "no loop applies ignore_if_in and warning_if_in to every element of the list"
                for lp, lp_called in loops:
                    if not cfg.dominates(lp, st):
                        why = "the flagging loop does not dominate the construction"
                        continue
                    if cfg.conditions(lp) and any(not _cond_is_loop_only(e) for e, pol in cfg.conditions(lp) if not any(p is lp for p in _parents(e))):
                        pass
                    # no extension of V between the loop and the construction
                    muts = []
                    for n3 in walk_local(f):
                        is_mut = (isinstance(n3, ast.AugAssign) and isinstance(n3.target, ast.Name) and n3.target.id == V) or (
                            isinstance(n3, ast.Call) and isinstance(n3.func, ast.Attribute) and isinstance(n3.func.value, ast.Name) and n3.func.value.id == V
                            and n3.func.attr in ("append", "extend", "insert")
                        ) or (isinstance(n3, ast.Assign) and any(isinstance(t, ast.Name) and t.id == V for t in n3.targets))
                        if is_mut:
                            s3 = cfg.stmt_of(n3) if not isinstance(n3, ast.stmt) else n3
                            if cfg.reaches(lp, s3) and cfg.reaches(s3, st) and not _inside_node(s3, lp) and s3 is not lp:
                                # reachable after the loop and before the construction?
                                if cfg.paths_avoiding(cfg.entry, s3, lambda x: False) and _after(cfg, lp, s3):
                                    muts.append(s3)
                    if muts:
                        why = f"the list is extended after the flagging loop ({short(muts[0], 60)}): those violations never get the ignore/warnings configuration"
                        continue
                    if [e for e, pol in cfg.conditions(lp) if True] != [e for e, pol in cfg.conditions(st) if True][: len(cfg.conditions(lp))] and len(cfg.conditions(lp)) > len(cfg.conditions(st)):
                        why = "the flagging loop only runs under a condition that does not govern the construction"
                        continue
                    applied |= lp_called
                ok = {"ignore_if_in", "warning_if_in"} <= applied
                if not ok and applied:
                    why = f"only {sorted(applied & {'ignore_if_in', 'warning_if_in'})} is applied to every element of the final list"
                chk.require(ok, "R22f", c, f"violations reach a LintedFile without the ignore/warnings configuration applied to all of them: {why}; a violation configured as a "
                            "warning (or ignored) would then count towards the exit code", detail=f"{q}: all violations flagged before LintedFile")
    chk.count("R22f.lintedfile_constructions", n)
    chk.floor("R22f.lintedfile_constructions", 1)


def _parents(n):
    p = getattr(n, "_parent", None)
    while p is not None:
        yield p
        p = getattr(p, "_parent", None)


def _inside_node(n, container) -> bool:
    return n is container or any(p is container for p in _parents(n))


def _cond_is_loop_only(e) -> bool:
    return True


def _after(cfg, a, b) -> bool:
    """b can execute after a has completed (a reaches b without b reaching a first being the only relation)."""
    return cfg.reaches(a, b)


from ..selftest import Variant  # noqa: E402

VARIANTS = [
    Variant("stdin-fix-templater-flag-counts-parse-errors", CLI,
            "    templater_error = result.num_violations(types=SQLTemplaterError) > 0\n",
            "    templater_error = result.num_violations(types=TMP_PRS_ERROR_TYPES) > 0\n", "R22g", "_stdin_fix",
            "seeded C22-3: `fix - --FIX-EVEN-UNPARSABLE` exits 1 for a file that was fixed"),
    # behaviour-preserving refactors: must stay quiet
    Variant(
        "quiet-unparsable-switch-through-a-local", CLI,
        "    if fix_even_unparsable:\n        # If we're fixing even when unparsable, don't perform any filtering.\n        return initial_exit_code\n",
        "    keep_going = fix_even_unparsable\n    if keep_going:\n        return initial_exit_code\n",
        "QUIET", None, "R22g: the switch read through a local",
    ),
    Variant(
        "quiet-unparsable-switch-tested-negatively", CLI,
        "    if fix_even_unparsable:\n        # If we're fixing even when unparsable, don't perform any filtering.\n        return initial_exit_code\n",
        "    if not fix_even_unparsable:\n        pass\n    else:\n        return initial_exit_code\n",
        "QUIET", None, "R22g: the same branch with the test negated",
    ),
    Variant(
        "quiet-lint-exit-through-locals", CLI,
        "        exit_code = result.stats(EXIT_FAIL, EXIT_SUCCESS)[\"exit code\"]\n",
        "        all_stats = result.stats(EXIT_FAIL, EXIT_SUCCESS)\n        exit_code = all_stats[\"exit code\"]\n",
        "QUIET", None, "stats dict held in a local before the exit code is read",
    ),
    Variant(
        "quiet-paths-fix-unfixable-loop-sum", CLI,
        "    num_unfixable = sum(p.num_unfixable_lint_errors for p in result.paths)\n",
        "    num_unfixable = 0\n    for linted_dir in result.paths:\n        num_unfixable += linted_dir.num_unfixable_lint_errors\n",
        "QUIET", None, "generator sum spelled as an accumulating loop",
    ),
    Variant(
        "quiet-handle-unparsable-if-else", CLI,
        "    return EXIT_FAIL if num_filtered_errors else EXIT_SUCCESS\n\n\ndef _stdin_fix(",
        "    if num_filtered_errors:\n        return EXIT_FAIL\n    return EXIT_SUCCESS\n\n\ndef _stdin_fix(",
        "QUIET", None, "conditional expression spelled as if/return",
    ),
    Variant(
        'quiet-stdin-fix-exit-if-else', CLI,
        '    sys.exit(EXIT_FAIL if templater_error or unfixable_error else exit_code)\n',
        '    if templater_error:\n        sys.exit(EXIT_FAIL)\n    elif unfixable_error:\n        sys.exit(EXIT_FAIL)\n    sys.exit(exit_code)\n',
        "QUIET", None, 'R22a: conditional exit argument spelled as if/elif + fall-through exit',
    ),
    Variant(
        'quiet-stdin-fix-templater-count-local', CLI,
        '    templater_error = result.num_violations(types=SQLTemplaterError) > 0\n',
        '    num_templater_errors = result.num_violations(SQLTemplaterError)\n    templater_error = num_templater_errors != 0\n',
        "QUIET", None, 'R22a: count held in a local, types positional, `> 0` as `!= 0`',
    ),
    Variant(
        'quiet-handle-unparsable-tuple-whole', CLI,
        '    total_errors, num_filtered_errors = linting_result.count_tmp_prs_errors()\n',
        '    tmp_prs_counts = linting_result.count_tmp_prs_errors()\n    total_errors = tmp_prs_counts[0]\n    num_filtered_errors = tmp_prs_counts[1]\n',
        "QUIET", None, 'R22a: count tuple kept whole, components read by index',
    ),
    Variant(
        'quiet-paths-fix-exit-code-if', CLI,
        '            OutputKind.DIAGNOSTIC,\n        )\n        exit_code = max(exit_code, EXIT_FAIL)\n',
        '            OutputKind.DIAGNOSTIC,\n        )\n        if exit_code < EXIT_FAIL:\n            exit_code = EXIT_FAIL\n',
        "QUIET", None, 'R22a: max(exit_code, EXIT_FAIL) spelled as a comparison + assignment',
    ),
    Variant(
        'quiet-paths-fix-unfixable-list-then-sum', CLI,
        '    num_unfixable = sum(p.num_unfixable_lint_errors for p in result.paths)\n    if num_unfixable > 0:\n',
        '    unfixable_per_dir = [d.num_unfixable_lint_errors for d in result.paths]\n    num_unfixable = sum(unfixable_per_dir)\n    if num_unfixable:\n',
        "QUIET", None, 'R22a: per-dir counters collected in a list, then summed; truthiness test',
    ),
    Variant(
        'quiet-lint-nofail-early-exit', CLI,
        '    if not nofail:\n        if not non_human_output:\n            formatter.completion_message()\n        exit_code = result.stats(EXIT_FAIL, EXIT_SUCCESS)["exit code"]\n        assert isinstance(exit_code, int), "result.stats error code must be integer."\n        # If large_file_skip_fail is set and files were skipped, fail.\n        if result.files_skipped and config.get("large_file_skip_fail"):\n            exit_code = max(exit_code, EXIT_FAIL)\n        sys.exit(exit_code)\n    else:\n        sys.exit(EXIT_SUCCESS)\n',
        '    if nofail:\n        sys.exit(EXIT_SUCCESS)\n    if not non_human_output:\n        formatter.completion_message()\n    exit_code = result.stats(EXIT_FAIL, EXIT_SUCCESS)["exit code"]\n    assert isinstance(exit_code, int), "result.stats error code must be integer."\n    # If large_file_skip_fail is set and files were skipped, fail.\n    if result.files_skipped and config.get("large_file_skip_fail"):\n        exit_code = max(exit_code, EXIT_FAIL)\n    sys.exit(exit_code)\n',
        "QUIET", None, 'R22e: `if nofail: sys.exit(EXIT_SUCCESS)` first, rest dedented',
    ),
    Variant(
        'quiet-lint-nofail-no-else', CLI,
        '        sys.exit(exit_code)\n    else:\n        sys.exit(EXIT_SUCCESS)\n',
        '        sys.exit(exit_code)\n    sys.exit(EXIT_SUCCESS)\n',
        "QUIET", None, 'R22e: success exit after an if-body that ends in sys.exit (no else)',
    ),
    Variant(
        'quiet-lint-nofail-flag-local', CLI,
        '    if not nofail:\n        if not non_human_output:\n            formatter.completion_message()\n',
        '    exit_matters = not nofail\n    if exit_matters:\n        if not non_human_output:\n            formatter.completion_message()\n',
        "QUIET", None, 'R22e: `not nofail` hoisted into a boolean local',
    ),
    Variant(
        'quiet-handler-early-return', CLI,
        '        if exc_type is SQLFluffUserError:\n            click.echo(\n                "\\nUser Error: "\n                + self.formatter.colorize(\n                    str(exc_val),\n                    Color.red,\n                ),\n                err=True,\n            )\n            sys.exit(EXIT_ERROR)\n',
        '        if exc_type is not SQLFluffUserError:\n            return\n        click.echo(\n            "\\nUser Error: "\n            + self.formatter.colorize(\n                str(exc_val),\n                Color.red,\n            ),\n            err=True,\n        )\n        sys.exit(EXIT_ERROR)\n',
        "QUIET", None, 'R22e: handler test inverted into an early return',
    ),
    Variant(
        'quiet-paths-fix-handler-local', CLI,
        '    with PathAndUserErrorHandler(formatter):\n        result: LintingResult = linter.lint_paths(',
        '    error_handler = PathAndUserErrorHandler(formatter)\n    with error_handler:\n        result: LintingResult = linter.lint_paths(',
        "QUIET", None, 'R22e: the handler object held in a local before `with`',
    ),
    Variant(
        'quiet-exit-constants-annotated', CLI_INIT,
        'EXIT_SUCCESS = 0\nEXIT_FAIL = 1\nEXIT_ERROR = 2\n',
        'EXIT_SUCCESS: int = 0\nEXIT_FAIL: int = 1\nEXIT_ERROR: int = 2\n',
        "QUIET", None, 'R22e: exit constants with type annotations',
    ),
    Variant(
        'quiet-stats-failed-flag-hoisted', LRES,
        '        all_stats["exit code"] = fail_code if counts["violations"] > 0 else success_code\n        all_stats["status"] = "FAIL" if counts["violations"] > 0 else "PASS"\n',
        '        has_violations = counts["violations"] > 0\n        all_stats["exit code"] = fail_code if has_violations else success_code\n        all_stats["status"] = "FAIL" if has_violations else "PASS"\n',
        "QUIET", None, 'R22d: `violations > 0` hoisted into a boolean local shared by two entries',
    ),
    Variant(
        'quiet-stats-exit-code-if-else', LRES,
        '        all_stats["exit code"] = fail_code if counts["violations"] > 0 else success_code\n        all_stats["status"] = "FAIL" if counts["violations"] > 0 else "PASS"\n',
        '        if counts["violations"] > 0:\n            all_stats["exit code"] = fail_code\n            all_stats["status"] = "FAIL"\n        else:\n            all_stats["exit code"] = success_code\n            all_stats["status"] = "PASS"\n',
        "QUIET", None, 'R22d: conditional expression spelled as an if/else statement',
    ),
    Variant(
        'quiet-stats-exit-code-default-then-override', LRES,
        '        all_stats["exit code"] = fail_code if counts["violations"] > 0 else success_code\n',
        '        all_stats["exit code"] = success_code\n        if counts["violations"]:\n            all_stats["exit code"] = fail_code\n',
        "QUIET", None, 'R22d: default success_code, overridden when the statistic is truthy',
    ),
    Variant(
        'quiet-stats-exit-code-truthiness-inverted', LRES,
        '        all_stats["exit code"] = fail_code if counts["violations"] > 0 else success_code\n',
        '        all_stats["exit code"] = success_code if counts["violations"] == 0 else fail_code\n',
        "QUIET", None, 'R22d: `success if v == 0 else fail`',
    ),
    Variant(
        'quiet-stats-dir-stats-local', LRES,
        '        for path in self.paths:\n            counts = sum_dicts(path.stats(), counts)\n',
        '        linted_dirs = self.paths\n        for linted_dir in linted_dirs:\n            dir_stats = linted_dir.stats()\n            counts = sum_dicts(dir_stats, counts)\n',
        "QUIET", None, 'R22d: self.paths and the per-dir stats dict held in locals, loop variable renamed',
    ),
    Variant(
        'quiet-dir-stats-dict-call', LDIR,
        '        return {\n            "files": self._num_files,\n            "clean": self._num_clean,\n            "unclean": self._num_unclean,\n            "violations": self._num_violations,\n        }\n',
        '        return dict(\n            files=self._num_files,\n            clean=self._num_clean,\n            unclean=self._num_unclean,\n            violations=self._num_violations,\n        )\n',
        "QUIET", None, 'R22d: dict display spelled as dict(...)',
    ),
    Variant(
        'quiet-dir-stats-counter-local', LDIR,
        '        return {\n            "files": self._num_files,\n            "clean": self._num_clean,\n            "unclean": self._num_unclean,\n            "violations": self._num_violations,\n        }\n',
        '        num_violations = self._num_violations\n        dir_stats = {\n            "files": self._num_files,\n            "clean": self._num_clean,\n            "unclean": self._num_unclean,\n            "violations": num_violations,\n        }\n        return dir_stats\n',
        "QUIET", None, 'R22d: counter read into a local, dict held in a local before the return',
    ),
    Variant(
        'quiet-dir-add-violations-count-local', LDIR,
        '        self._num_violations += file.num_violations()\n',
        '        file_violations = file.num_violations()\n        self._num_violations += file_violations\n',
        "QUIET", None, 'R22b: filtered count held in a local before the counter is advanced',
    ),
    Variant(
        'quiet-discard-warning-flag-local', LDIR,
        '                            if not v_dict.get("warning"):\n                                self.num_unfixable_lint_errors += 1\n',
        '                            downgraded = v_dict.get("warning")\n                            if not downgraded:\n                                self.num_unfixable_lint_errors += 1\n',
        "QUIET", None, "R22b: the record's warning status read into a local before the guard",
    ),
    Variant(
        'quiet-discard-early-continue', LDIR,
        '                        if v_dict.get("fixes", []):\n                            # We\'re changing a violating with fixes, to one without,\n                            # so we need to increment the cache value.\n                            # NOTE: Warnings are never counted as unfixable errors.\n                            if not v_dict.get("warning"):\n                                self.num_unfixable_lint_errors += 1\n                            v_dict["fixes"] = []\n',
        '                        if not v_dict.get("fixes", []):\n                            continue\n                        # We\'re changing a violating with fixes, to one without,\n                        # so we need to increment the cache value.\n                        # NOTE: Warnings are never counted as unfixable errors.\n                        if v_dict.get("warning"):\n                            pass\n                        else:\n                            self.num_unfixable_lint_errors += 1\n                        v_dict["fixes"] = []\n',
        "QUIET", None, 'R22b: nested ifs as early continue; warning guard as if/pass/else',
    ),
    Variant(
        'quiet-flagging-config-hoisted-renamed', "src/sqlfluff/core/linter/linter.py",
        '        for violation in violations:\n            violation.ignore_if_in(parsed.config.get("ignore"))\n            violation.warning_if_in(parsed.config.get("warnings"))\n',
        '        ignored_codes = parsed.config.get("ignore")\n        warning_codes = parsed.config.get("warnings")\n        for err in violations:\n            err.ignore_if_in(ignored_codes)\n            err.warning_if_in(warning_codes)\n',
        "QUIET", None, 'R22f: config reads hoisted out of the flagging loop, loop variable renamed',
    ),
    Variant(
        'quiet-flagging-two-loops', "src/sqlfluff/core/linter/linter.py",
        '        for violation in violations:\n            violation.ignore_if_in(parsed.config.get("ignore"))\n            violation.warning_if_in(parsed.config.get("warnings"))\n',
        '        for violation in violations:\n            violation.ignore_if_in(parsed.config.get("ignore"))\n        for violation in violations:\n            violation.warning_if_in(parsed.config.get("warnings"))\n',
        "QUIET", None, 'R22f: one loop per flagging method',
    ),
    Variant(
        'quiet-lintedfile-deduped-local-keyword', "src/sqlfluff/core/linter/linter.py",
        '        linted_file = LintedFile(\n            parsed.fname,\n            # Deduplicate violations\n            LintedFile.deduplicate_in_source_space(violations),\n',
        '        # Deduplicate violations\n        unique_violations = LintedFile.deduplicate_in_source_space(violations)\n        linted_file = LintedFile(\n            parsed.fname,\n            unique_violations,\n',
        "QUIET", None, 'R22f: de-duplicated list held in a local',
    ),
    Variant(
        'quiet-violations-alias-before-construct', "src/sqlfluff/core/linter/linter.py",
        '        linted_file = LintedFile(\n            parsed.fname,\n            # Deduplicate violations\n            LintedFile.deduplicate_in_source_space(violations),\n',
        '        all_violations = violations\n        linted_file = LintedFile(\n            parsed.fname,\n            # Deduplicate violations\n            LintedFile.deduplicate_in_source_space(all_violations),\n',
        "QUIET", None, 'R22f: the list handed on under a second name',
    ),
    Variant(
        'quiet-stats-loop-over-comprehension', LRES,
        '        for path in self.paths:\n            counts = sum_dicts(path.stats(), counts)\n',
        '        for dir_stats in [path.stats() for path in self.paths]:\n            counts = sum_dicts(dir_stats, counts)\n',
        "QUIET", None, 'R22d: loop over a comprehension of the per-dir stats dicts',
    ),
    Variant(
        'quiet-stdin-fix-failed-flag', CLI,
        '    sys.exit(EXIT_FAIL if templater_error or unfixable_error else exit_code)\n',
        '    failed = templater_error or unfixable_error\n    if failed:\n        exit_code = EXIT_FAIL\n    sys.exit(exit_code)\n',
        "QUIET", None, 'R22a: exit decision through a flag local and an assignment',
    ),
    Variant(
        'quiet-lint-handler-as-name', CLI,
        "    with PathAndUserErrorHandler(formatter):\n        # add stdin if specified via lone '-'\n",
        "    with PathAndUserErrorHandler(formatter) as _handler:\n        # add stdin if specified via lone '-'\n",
        "QUIET", None, 'R22e: handler bound with `as`',
    ),
    Variant(
        'quiet-dir-add-unfixable-positional-local', LDIR,
        '        self.num_unfixable_lint_errors += file.num_violations(\n            types=SQLLintError,\n            fixable=False,\n        )\n',
        '        unfixable = file.num_violations(SQLLintError, fixable=False)\n        self.num_unfixable_lint_errors += unfixable\n',
        "QUIET", None, 'R22b: types positional, count held in a local',
    ),
    Variant(
        'quiet-lint-exit-code-clamp-if', CLI,
        '        if result.files_skipped and config.get("large_file_skip_fail"):\n            exit_code = max(exit_code, EXIT_FAIL)\n        sys.exit(exit_code)\n',
        '        if result.files_skipped:\n            if config.get("large_file_skip_fail"):\n                exit_code = max(exit_code, EXIT_FAIL)\n        sys.exit(exit_code)\n',
        "QUIET", None, 'R22a: conjunction spelled as nested ifs',
    ),
    # breaking edits: must be reported
    Variant("stats-loop-over-filtered-comprehension", LRES,
            "        for path in self.paths:\n            counts = sum_dicts(path.stats(), counts)\n",
            "        for dir_stats in [path.stats() for path in self.paths if path.files]:\n            counts = sum_dicts(dir_stats, counts)\n",
            "R22d", "stats", "dirs whose files were not retained drop out of the sum"),
    Variant("stats-exit-code-overridden-unconditionally", LRES,
            'all_stats["exit code"] = fail_code if counts["violations"] > 0 else success_code\n',
            'all_stats["exit code"] = fail_code if counts["violations"] > 0 else success_code\n        all_stats["exit code"] = success_code\n', "R22d", "stats",
            "a later unconditional store makes success_code the final value whatever the statistic"),
    Variant("stats-exit-code-override-on-unclean", LRES,
            'all_stats["exit code"] = fail_code if counts["violations"] > 0 else success_code\n',
            'all_stats["exit code"] = success_code\n        if counts["unclean"]:\n            all_stats["exit code"] = fail_code\n', "R22d", "stats",
            "default-then-override on the wrong statistic"),
    Variant("stats-exit-code-test-always-true", LRES,
            'all_stats["exit code"] = fail_code if counts["violations"] > 0 else success_code',
            'all_stats["exit code"] = fail_code if counts["violations"] >= 0 else success_code', "R22d", "stats"),
    Variant("stats-exit-code-only-with-files", LRES,
            '        all_stats["exit code"] = fail_code if counts["violations"] > 0 else success_code\n',
            '        if counts["files"] > 1:\n            all_stats["exit code"] = fail_code if counts["violations"] > 0 else success_code\n', "R22d", "stats"),
    Variant("handler-exits-error-for-other-exceptions", CLI,
            "        if exc_type is SQLFluffUserError:\n            click.echo(\n                \"\\nUser Error: \"",
            "        if exc_type is not SQLFluffUserError:\n            click.echo(\n                \"\\nUser Error: \"", "R22e", "__exit__",
            "test inverted without inverting the branches"),
    Variant("lint-success-exit-not-only-nofail", CLI,
            "    if not nofail:\n        if not non_human_output:\n            formatter.completion_message()\n",
            "    if not nofail and not bench:\n        if not non_human_output:\n            formatter.completion_message()\n", "R22e", "lint",
            "--bench alone reaches the unconditional success exit"),
    Variant("paths-fix-handler-local-not-a-handler", CLI,
            "    with PathAndUserErrorHandler(formatter):\n        result: LintingResult = linter.lint_paths(",
            "    error_handler = open(os.devnull)\n    with error_handler:\n        result: LintingResult = linter.lint_paths(", "R22e", "_paths_fix"),
    Variant("discard-counts-only-warnings-through-local", LDIR,
            '                            if not v_dict.get("warning"):\n                                self.num_unfixable_lint_errors += 1\n',
            '                            downgraded = v_dict.get("warning")\n                            if downgraded:\n                                self.num_unfixable_lint_errors += 1\n', "R22b", None,
            "guard through a local with the polarity lost"),
    Variant("flagging-two-loops-list-extended-between", "src/sqlfluff/core/linter/linter.py",
            "        for violation in violations:\n            violation.ignore_if_in(parsed.config.get(\"ignore\"))\n            violation.warning_if_in(parsed.config.get(\"warnings\"))\n",
            "        for violation in violations:\n            violation.warning_if_in(parsed.config.get(\"warnings\"))\n        violations += list(parsed.templating_violations)[:0]\n        for violation in violations:\n            violation.ignore_if_in(parsed.config.get(\"ignore\"))\n",
            "R22f", "lint_parsed", "split loops with an extension between them: the warnings loop does not see the whole list"),
    Variant("violations-extended-after-flagging", "src/sqlfluff/core/linter/linter.py",
            "        # We process the ignore config here if appropriate\n        for violation in violations:\n            violation.ignore_if_in(parsed.config.get(\"ignore\"))\n            violation.warning_if_in(parsed.config.get(\"warnings\"))\n",
            "        # We process the ignore config here if appropriate\n        for violation in violations:\n            violation.ignore_if_in(parsed.config.get(\"ignore\"))\n            violation.warning_if_in(parsed.config.get(\"warnings\"))\n        violations += list(parsed.templating_violations)[:0]\n",
            "R22f", "lint_parsed"),
    Variant("warnings-config-not-applied", "src/sqlfluff/core/linter/linter.py",
            "            violation.warning_if_in(parsed.config.get(\"warnings\"))\n", "", "R22f", "lint_parsed"),
    Variant("flagging-only-when-fixing", "src/sqlfluff/core/linter/linter.py",
            "        for violation in violations:\n            violation.ignore_if_in(parsed.config.get(\"ignore\"))\n            violation.warning_if_in(parsed.config.get(\"warnings\"))\n",
            "        for violation in violations:\n            violation.ignore_if_in(parsed.config.get(\"ignore\"))\n            if not fix:\n                violation.warning_if_in(parsed.config.get(\"warnings\"))\n",
            "R22f", "lint_parsed"),
    Variant("discard-counts-warnings-as-unfixable", LDIR,
            '                            if not v_dict.get("warning"):\n                                self.num_unfixable_lint_errors += 1\n',
            '                            self.num_unfixable_lint_errors += 1\n', "R22b", None, "the original defect F11"),
    Variant("dir-violations-unfiltered", LDIR,
            "        self._num_violations += file.num_violations()\n",
            "        self._num_violations += file.num_violations(filter_ignore=False)\n", "R22b", None),
    Variant("dir-violations-count-warnings", LDIR,
            "        self._num_violations += file.num_violations()\n",
            "        self._num_violations += file.num_violations(filter_warning=False)\n", "R22b", None),
    Variant("dir-tmp-prs-unfiltered", LDIR,
            "        self.num_tmp_prs_errors += file.num_violations(\n            types=TMP_PRS_ERROR_TYPES,\n        )",
            "        self.num_tmp_prs_errors += file.num_violations(\n            types=TMP_PRS_ERROR_TYPES,\n            filter_ignore=False,\n        )", "R22a", None),
    Variant("dir-unfixable-count-warnings", LDIR,
            "            types=SQLLintError,\n            fixable=False,\n        )",
            "            types=SQLLintError,\n            fixable=False,\n            filter_warning=False,\n        )", "R22b", None),
    Variant("stdin-fix-unfiltered-templater-error", CLI,
            "    templater_error = result.num_violations(types=SQLTemplaterError) > 0",
            "    templater_error = result.paths[0].files[0].num_violations(types=SQLTemplaterError, filter_ignore=False) > 0", "R22a", "_stdin_fix"),
    Variant("handle-unparsable-returns-on-total", CLI,
            "    return EXIT_FAIL if num_filtered_errors else EXIT_SUCCESS",
            "    return EXIT_FAIL if total_errors else EXIT_SUCCESS", "R22a", "_handle_unparsable"),
    Variant("paths-fix-exit-on-unfiltered-counter", CLI,
            "    num_unfixable = sum(p.num_unfixable_lint_errors for p in result.paths)",
            "    num_unfixable = sum(p.num_unfiltered_tmp_prs_errors for p in result.paths)", "R22a", "_paths_fix"),
    Variant("stats-exit-code-on-unclean-files", LRES,
            'all_stats["exit code"] = fail_code if counts["violations"] > 0 else success_code',
            'all_stats["exit code"] = fail_code if counts["unclean"] > 0 else success_code', "R22d", "stats"),
    Variant("stats-exit-code-swapped", LRES,
            'all_stats["exit code"] = fail_code if counts["violations"] > 0 else success_code',
            'all_stats["exit code"] = success_code if counts["violations"] > 0 else fail_code', "R22d", "stats"),
    Variant("exit-error-constant-changed", CLI_INIT, "EXIT_ERROR = 2", "EXIT_ERROR = 1", "R22e", None),
    Variant("handler-exits-fail", CLI,
            "                err=True,\n            )\n            sys.exit(EXIT_ERROR)\n\n\ndef common_options",
            "                err=True,\n            )\n            sys.exit(EXIT_FAIL)\n\n\ndef common_options", "R22e", "__exit__"),
    Variant("lint-paths-outside-handler", CLI,
            "    with PathAndUserErrorHandler(formatter):\n        result: LintingResult = linter.lint_paths(",
            "    if True:\n        result: LintingResult = linter.lint_paths(", "R22e", "_paths_fix"),
]
