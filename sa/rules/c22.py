"""C22 — exit codes reflect only unsuppressed failures.

R22a  every violation count that can influence a ``sys.exit`` argument of the
      lint / fix / format commands and their helpers (data- or control-wise, also
      through the return value of a module-local helper) is suppression-filtered
      AND warning-filtered.
R22b  the ``LintedDir`` counters those sinks read are only ever advanced by such
      counts, or by constant increments guarded by the record's warning status.
R22d  ``LintingResult.stats``: the "exit code" entry is ``fail_code`` exactly when
      the summed ``violations`` statistic is positive, and that statistic is the
      filtered counter.
R22e  exit constants: EXIT_SUCCESS=0, EXIT_FAIL=1, EXIT_ERROR=2; the CLI user-error
      handler exits with EXIT_ERROR; the three commands run their linter calls
      inside that handler; ``--nofail`` is the only way lint ignores its exit code.
R22f  every violation handed to a ``LintedFile`` has had the ``ignore`` and
      ``warnings`` configuration applied: the list passed to the constructor is
      flagged by a loop calling ``ignore_if_in`` and ``warning_if_in`` on every
      element, unconditionally, after the list's last extension.
(R22c — user errors through the runners' funnels — lives with C24's R24d.)
"""

from __future__ import annotations

import ast
from typing import List, Optional, Set, Tuple

from ..cfg import cfg_of, origins
from ..counts import Counts, FIL, UNF, CountInfo
from ..index import AnalysisError, FuncNode, call_name, calls_in, enclosing_class, kwarg, last_attr, norm, short, walk_local

CLI = "src/sqlfluff/cli/commands.py"
CLI_INIT = "src/sqlfluff/cli/__init__.py"
LDIR = "src/sqlfluff/core/linter/linted_dir.py"
LRES = "src/sqlfluff/core/linter/linting_result.py"


def _names(e) -> Set[str]:
    return {n.id for n in ast.walk(e) if isinstance(n, ast.Name)}


def _influencing_exprs(f, sinks: List[Tuple[ast.expr, object]]) -> List[Tuple[ast.expr, object]]:
    """Expressions (with their statement) whose value can influence the sink
    expressions: the sinks themselves, the tests that guard them, and –
    transitively – the right-hand sides and guards of assignments to any name
    they mention."""
    cfg = cfg_of(f)
    out: List[Tuple[ast.expr, object]] = []
    rel: Set[str] = set()
    seen_stmt = set()

    def add_expr(e, st):
        out.append((e, st))
        rel.update(_names(e))

    for e, st in sinks:
        add_expr(e, st)
        for t, pol in cfg.conditions(st):
            add_expr(t, cfg.stmt_of(t) or st)
    changed = True
    while changed:
        changed = False
        for n in walk_local(f):
            tgt = val = None
            if isinstance(n, ast.Assign):
                tgt, val = n.targets, n.value
            elif isinstance(n, ast.AugAssign):
                tgt, val = [n.target], n.value
            elif isinstance(n, ast.AnnAssign) and n.value is not None:
                tgt, val = [n.target], n.value
            if tgt is None or id(n) in seen_stmt:
                continue
            if {x.id for t in tgt for x in ast.walk(t) if isinstance(x, ast.Name)} & rel:
                seen_stmt.add(id(n))
                add_expr(val, n)
                for t, pol in cfg.conditions(n):
                    add_expr(t, cfg.stmt_of(t) or n)
                changed = True
    return out


def run(chk) -> None:
    repo = chk.repo
    chk.rule("R22a", "every violation count that can influence a sys.exit argument of lint/fix/format is suppression- and warning-filtered")
    chk.rule("R22b", "LintedDir counters read by the exit computations are only advanced by filtered counts or by warning-guarded constant increments")
    chk.rule("R22d", "LintingResult.stats derives 'exit code' only from the filtered violations statistic")
    chk.rule("R22e", "exit constants are 0/1/2; user errors exit with EXIT_ERROR inside PathAndUserErrorHandler; commands run linter calls inside it")
    counts = Counts(repo)
    cli = repo.mod(CLI)

    # ---- R22a ------------------------------------------------------------------
    local_funcs = {q: f for q, f in cli.functions() if "." not in q}
    visited = set()
    influencing_attrs: Set[str] = set()

    def analyse(f, sinks, depth, via):
        key = (f.name, tuple(id(s[0]) for s in sinks))
        if key in visited or depth > 3:
            return
        visited.add(key)
        cfg = cfg_of(f)
        for e, st in _influencing_exprs(f, sinks):
            for n in ast.walk(e):
                if not isinstance(n, (ast.Call, ast.Attribute, ast.Subscript)):
                    continue
                ci: Optional[CountInfo] = None
                if isinstance(n, (ast.Call, ast.Attribute)):
                    ci = counts.classify_expr_shallow(n)
                if ci is None and isinstance(n, ast.Subscript):
                    ci = counts.classify(f, n, st) if isinstance(n.value, ast.Call) else None
                if ci is None and isinstance(n, ast.Call) and last_attr(n) in counts.tuple_summaries and False:
                    pass
                if ci is not None and ci.kind == "MIXED" and not isinstance(n, ast.Attribute):
                    ci = None  # sum(...) over a counter: the attribute node inside is judged itself
                if ci is not None:
                    chk.count("R22a.count_reads")
                    good = ci.kind in (FIL,) and ci.warn_filtered
                    if ci.kind == "CONST":
                        good = True
                    if isinstance(n, ast.Attribute) and n.attr in counts.attr_kinds:
                        # a LintedDir counter: every advance is judged on its own by R22b;
                        # here only an unfiltered advance is a direct R22a violation
                        influencing_attrs.add(n.attr)
                        infos = counts.attr_kinds[n.attr]
                        good = all((i.kind == FIL and i.warn_filtered) or i.kind == "CONST" for i in infos)
                        bad_i = [i for i in infos if not ((i.kind == FIL and i.warn_filtered) or i.kind == "CONST")]
                        if bad_i:
                            ci = bad_i[0]
                    # serialised fixable count from records keeps warnings by design (informational)
                    chk.require(
                        good, "R22a", n,
                        f"a count that is not {'suppression' if ci.kind != FIL else 'warning'}-filtered can influence the exit status of {via}: {ci!r}",
                        detail=f"{f.name}: exit-influencing count {short(n, 70)}",
                    )
                    chk.sample({"rule": "R22a", "function": f.name, "site": f"{CLI}:{getattr(n, 'lineno', 0)}", "count": repr(ci)})
                # names bound from tuple summaries (a, b = X.count_tmp_prs_errors())
            for nm in [x for x in ast.walk(e) if isinstance(x, ast.Name)]:
                ci = counts.classify(f, nm, st)
                if ci is not None and ci.via.startswith(tuple(counts.tuple_summaries)):
                    chk.count("R22a.count_reads")
                    chk.require(
                        ci.kind == FIL and ci.warn_filtered, "R22a", nm,
                        f"a count that is not suppression/warning-filtered can influence the exit status of {via}: {ci!r}",
                        detail=f"{f.name}: exit-influencing component {nm.id}",
                    )
            # helper return values
            for c in [x for x in ast.walk(e) if isinstance(x, ast.Call)]:
                if isinstance(c.func, ast.Name) and c.func.id in local_funcs:
                    h = local_funcs[c.func.id]
                    rs = [(r.value, r) for r in walk_local(h) if isinstance(r, ast.Return) and r.value is not None]
                    if rs:
                        analyse(h, rs, depth + 1, via)

    n_cmd = 0
    for q, f in local_funcs.items():
        exits = [c for c in calls_in(f) if call_name(c) == "sys.exit" and c.args]
        if not exits:
            continue
        uses_linter = any(last_attr(c) in ("lint_paths", "lint_string_wrapped", "_stdin_fix", "_paths_fix") for c in calls_in(f))
        if not uses_linter:
            continue
        n_cmd += 1
        cfg = cfg_of(f)
        analyse(f, [(c.args[0], cfg.stmt_of(c)) for c in exits], 0, q)
    chk.count("R22a.exit_functions", n_cmd)
    chk.floor("R22a.exit_functions", 3)
    chk.floor("R22a.count_reads", 4)

    # ---- R22d: stats -----------------------------------------------------------
    st = repo.fn(LRES, "LintingResult.stats")
    cfg = cfg_of(st)
    params = [a.arg for a in st.args.args]
    found = False
    for n in walk_local(st):
        if isinstance(n, ast.Assign) and isinstance(n.targets[0], ast.Subscript) and isinstance(n.targets[0].slice, ast.Constant) and n.targets[0].slice.value == "exit code":
            found = True
            v = n.value
            ok = (
                isinstance(v, ast.IfExp)
                and isinstance(v.body, ast.Name) and isinstance(v.orelse, ast.Name)
                and params.index(v.body.id) < params.index(v.orelse.id) if isinstance(v, ast.IfExp) and isinstance(v.body, ast.Name) and isinstance(v.orelse, ast.Name) and v.body.id in params and v.orelse.id in params else False
            )
            test_ok = False
            if isinstance(v, ast.IfExp) and isinstance(v.test, ast.Compare) and len(v.test.ops) == 1 and isinstance(v.test.ops[0], ast.Gt) \
                    and isinstance(v.test.comparators[0], ast.Constant) and v.test.comparators[0].value == 0 \
                    and isinstance(v.test.left, ast.Subscript) and isinstance(v.test.left.slice, ast.Constant) and v.test.left.slice.value == "violations":
                test_ok = True
            chk.require(ok and test_ok, "R22d", n, "'exit code' is not `fail_code if <violations statistic> > 0 else success_code`", detail="stats exit code expression")
            chk.require(not cfg.conditions(n), "R22d", n, "'exit code' entry is only set conditionally", detail="stats exit code unconditional")
    chk.require(found, "R22d", st, "LintingResult.stats no longer sets an 'exit code' entry", detail="stats exit code present")
    # the violations statistic of LintedDir.stats is the filtered counter
    ds = repo.fn(LDIR, "LintedDir.stats")
    vio_attr = None
    for n in walk_local(ds):
        if isinstance(n, ast.Dict):
            for k, v in zip(n.keys, n.values):
                if isinstance(k, ast.Constant) and k.value == "violations" and isinstance(v, ast.Attribute):
                    vio_attr = v.attr
    chk.require(vio_attr is not None, "R22d", ds, "LintedDir.stats has no 'violations' entry read from a counter", detail="dir stats violations entry")
    exit_attrs = {vio_attr} if vio_attr else set()
    # stats must sum LintedDir.stats over all paths
    summed = any(isinstance(c, ast.Call) and last_attr(c) == "sum_dicts" and any(isinstance(a, ast.Call) and last_attr(a) == "stats" for a in c.args) for c in calls_in(st))
    loop_all = any(isinstance(n, ast.For) and norm(n.iter) == "self.paths" for n in walk_local(st))
    chk.require(summed and loop_all, "R22d", st, "LintingResult.stats does not add up LintedDir.stats() over all paths", detail="stats sums all paths")

    # ---- R22b: counters --------------------------------------------------------
    # counters read (directly or through tuple summaries) by the exit computations
    for e_attr in list(influencing_attrs):
        exit_attrs.add(e_attr)
    for hname, comps in counts.tuple_summaries.items():
        for ci in comps:
            if ci is not None and ci.via.startswith(".") and ci.kind != UNF:
                exit_attrs.add(ci.via[1:].split(" ")[0])
    must_be_filtered = {a for a in exit_attrs if a}
    chk.count("R22b.exit_counters", len(must_be_filtered))
    ld = repo.cls(LDIR, "LintedDir")
    for attr in sorted(must_be_filtered):
        for ci in counts.attr_kinds.get(attr, []):
            chk.count("R22b.advance_sites")
            if ci.kind == "CONST":
                # constant increment: must be guarded by the record's warning status
                fn_name, stmt_txt = ci.via.split(": ", 1)
                fnode = repo.fn(LDIR, f"LintedDir.{fn_name}")
                cfg = cfg_of(fnode)
                stn = next((s for s in walk_local(fnode) if isinstance(s, ast.AugAssign) and norm(s) == stmt_txt), None)
                guarded = False
                if stn is not None:
                    for e, pol in cfg.conditions(stn):
                        txt = norm(e)
                        if ("'warning'" in txt or '"warning"' in txt or ".warning" in txt) and not pol:
                            guarded = True
                chk.require(
                    guarded, "R22b", stn or fnode,
                    f"exit-relevant counter '{attr}' is advanced by a constant for every serialised violation that had fixes, without excluding warning-level "
                    f"violations (the serialised list keeps warnings): a warning can make fix/format exit 1",
                    detail=f"counter {attr}: constant advance in {fn_name}",
                )
            else:
                chk.require(
                    ci.kind == FIL and ci.warn_filtered, "R22b", ld,
                    f"exit-relevant counter '{attr}' is advanced by a count that is not suppression- and warning-filtered: {ci!r}",
                    detail=f"counter {attr}: advance {ci.via[:80]}",
                )
    chk.floor("R22b.advance_sites", 2)

    # ---- R22f ---------------------------------------------------------------------
    chk.rule("R22f", "every violation handed to a LintedFile had ignore_if_in and warning_if_in applied (flagging loop over the whole list after its last extension)")
    _r22f(chk, repo)

    # ---- R22e: constants and handler ----------------------------------------------
    init = repo.mod(CLI_INIT)
    consts = {}
    for n in init.tree.body:
        if isinstance(n, ast.Assign) and isinstance(n.targets[0], ast.Name) and isinstance(n.value, ast.Constant):
            consts[n.targets[0].id] = n.value.value
    for name, want in (("EXIT_SUCCESS", 0), ("EXIT_FAIL", 1), ("EXIT_ERROR", 2)):
        chk.require(consts.get(name) == want, "R22e", init.tree.body[0] if init.tree.body else None, f"{name} must be {want}, found {consts.get(name)!r}",
                    detail=f"{name} == {want}", construct=f"{CLI_INIT}::<module>")
    h = repo.fn(CLI, "PathAndUserErrorHandler.__exit__")
    cfg = cfg_of(h)
    ex = [c for c in calls_in(h) if call_name(c) == "sys.exit"]
    ok = False
    for c in ex:
        conds = cfg.conditions(cfg.stmt_of(c))
        if c.args and norm(c.args[0]) == "EXIT_ERROR" and any(pol and "SQLFluffUserError" in norm(e) for e, pol in conds):
            ok = True
    chk.require(ok, "R22e", h, "the CLI user-error handler does not exit with EXIT_ERROR for SQLFluffUserError", detail="handler exits EXIT_ERROR")
    for q in ("lint", "fix", "cli_format"):
        f = local_funcs.get(q)
        if f is None:
            raise AnalysisError(f"command function {q} not found in cli/commands.py")
        for c in calls_in(f):
            if last_attr(c) in ("lint_paths", "lint_string_wrapped", "_stdin_fix", "_paths_fix") :
                p = c
                inside = False
                while p is not None and p is not f:
                    if isinstance(p, ast.With) and any(isinstance(i.context_expr, ast.Call) and last_attr(i.context_expr) == "PathAndUserErrorHandler" for i in p.items):
                        inside = True
                    p = getattr(p, "_parent", None)
                chk.require(inside, "R22e", c, f"{q}: linter call outside PathAndUserErrorHandler (a user error would become a traceback, not exit 2)",
                            detail=f"{q}: {last_attr(c)} inside handler")
    # _paths_fix itself wraps lint_paths
    pf = local_funcs.get("_paths_fix")
    if pf is not None:
        for c in calls_in(pf):
            if last_attr(c) == "lint_paths":
                p, inside = c, False
                while p is not None and p is not pf:
                    if isinstance(p, ast.With) and any(isinstance(i.context_expr, ast.Call) and last_attr(i.context_expr) == "PathAndUserErrorHandler" for i in p.items):
                        inside = True
                    p = getattr(p, "_parent", None)
                chk.require(inside, "R22e", c, "_paths_fix: lint_paths outside PathAndUserErrorHandler", detail="_paths_fix: lint_paths inside handler")
    # lint: the only unconditional-success exit is under nofail
    lint = local_funcs["lint"]
    cfg = cfg_of(lint)
    for c in calls_in(lint):
        if call_name(c) == "sys.exit" and c.args and norm(c.args[0]) == "EXIT_SUCCESS":
            conds = cfg.conditions(cfg.stmt_of(c))
            ok = any(isinstance(e, ast.Name) and any(o.kind == "param" and getattr(o.expr, "arg", "") == "nofail" for o in origins(cfg, e, cfg.stmt_of(c))) and pol for e, pol in conds)
            chk.require(ok, "R22e", c, "lint exits EXIT_SUCCESS unconditionally on a path not governed by --nofail", detail="lint: success exit only under nofail")


def _r22f(chk, repo) -> None:
    from ..index import Repo

    n = 0
    for m in repo.iter_modules("src/sqlfluff/core/"):
        for q, f in m.functions():
            for c in calls_in(f):
                if not (isinstance(c.func, ast.Name) and c.func.id == "LintedFile"):
                    continue
                n += 1
                cfg = cfg_of(f)
                st = cfg.stmt_of(c)
                varg = c.args[1] if len(c.args) > 1 else kwarg(c, "violations")
                # unwrap deduplicate_in_source_space(V)
                while isinstance(varg, ast.Call) and varg.args:
                    varg = varg.args[0]
                if isinstance(varg, ast.Name):
                    os_ = origins(cfg, varg, st)
                    if len(os_) == 1 and isinstance(os_[0].expr, ast.Call) and last_attr(os_[0].expr) == "deduplicate_in_source_space" and os_[0].expr.args:
                        inner = os_[0].expr.args[0]
                        if isinstance(inner, ast.Name):
                            varg, st_use = inner, os_[0].stmt
                if not isinstance(varg, ast.Name):
                    chk.fail("R22f", c, "cannot trace the violations list handed to LintedFile", detail=f"{q}: violations list traceable")
                    continue
                V = varg.id
                loops = []
                for n2 in walk_local(f):
                    if isinstance(n2, ast.For) and isinstance(n2.iter, ast.Name) and n2.iter.id == V and isinstance(n2.target, ast.Name):
                        called = {last_attr(x) for x in calls_in(n2) if isinstance(x.func, ast.Attribute) and isinstance(x.func.value, ast.Name) and x.func.value.id == n2.target.id
                                  and not cfg.conditions(cfg.stmt_of(x)) or False}
                        # conditions inside the loop body only (the loop's own branch is fine)
                        called = set()
                        for x in calls_in(n2):
                            if isinstance(x.func, ast.Attribute) and isinstance(x.func.value, ast.Name) and x.func.value.id == n2.target.id:
                                inner_conds = [e for e, pol in cfg.conditions(cfg.stmt_of(x)) if any(p is n2 for p in _parents(e))]
                                if not inner_conds:
                                    called.add(last_attr(x))
                        if {"ignore_if_in", "warning_if_in"} <= called:
                            loops.append(n2)
                    # helper idiom: f(V, ...) whose body is such a loop over its parameter
                ok = False
                why = "no loop applies ignore_if_in and warning_if_in to every element of the list"
                for lp in loops:
                    if not cfg.dominates(lp, st):
                        why = "the flagging loop does not dominate the construction"
                        continue
                    if cfg.conditions(lp) and any(not _cond_is_loop_only(e) for e, pol in cfg.conditions(lp) if not any(p is lp for p in _parents(e))):
                        pass
                    # no extension of V between the loop and the construction
                    muts = []
                    for n3 in walk_local(f):
                        is_mut = (isinstance(n3, ast.AugAssign) and isinstance(n3.target, ast.Name) and n3.target.id == V) or (
                            isinstance(n3, ast.Call) and isinstance(n3.func, ast.Attribute) and isinstance(n3.func.value, ast.Name) and n3.func.value.id == V
                            and n3.func.attr in ("append", "extend", "insert")
                        ) or (isinstance(n3, ast.Assign) and any(isinstance(t, ast.Name) and t.id == V for t in n3.targets))
                        if is_mut:
                            s3 = cfg.stmt_of(n3) if not isinstance(n3, ast.stmt) else n3
                            if cfg.reaches(lp, s3) and cfg.reaches(s3, st) and not _inside_node(s3, lp) and s3 is not lp:
                                # reachable after the loop and before the construction?
                                if cfg.paths_avoiding(cfg.entry, s3, lambda x: False) and _after(cfg, lp, s3):
                                    muts.append(s3)
                    if muts:
                        why = f"the list is extended after the flagging loop ({short(muts[0], 60)}): those violations never get the ignore/warnings configuration"
                        continue
                    if [e for e, pol in cfg.conditions(lp) if True] != [e for e, pol in cfg.conditions(st) if True][: len(cfg.conditions(lp))] and len(cfg.conditions(lp)) > len(cfg.conditions(st)):
                        why = "the flagging loop only runs under a condition that does not govern the construction"
                        continue
                    ok = True
                chk.require(ok, "R22f", c, f"violations reach a LintedFile without the ignore/warnings configuration applied to all of them: {why}; a violation configured as a "
                            "warning (or ignored) would then count towards the exit code", detail=f"{q}: all violations flagged before LintedFile")
    chk.count("R22f.lintedfile_constructions", n)
    chk.floor("R22f.lintedfile_constructions", 1)


def _parents(n):
    p = getattr(n, "_parent", None)
    while p is not None:
        yield p
        p = getattr(p, "_parent", None)


def _inside_node(n, container) -> bool:
    return n is container or any(p is container for p in _parents(n))


def _cond_is_loop_only(e) -> bool:
    return True


def _after(cfg, a, b) -> bool:
    """b can execute after a has completed (a reaches b without b reaching a first being the only relation)."""
    return cfg.reaches(a, b)


from ..selftest import Variant  # noqa: E402

VARIANTS = [
    # behaviour-preserving refactors: must stay quiet
    Variant(
        "quiet-lint-exit-through-locals", CLI,
        "        exit_code = result.stats(EXIT_FAIL, EXIT_SUCCESS)[\"exit code\"]\n",
        "        all_stats = result.stats(EXIT_FAIL, EXIT_SUCCESS)\n        exit_code = all_stats[\"exit code\"]\n",
        "QUIET", None, "stats dict held in a local before the exit code is read",
    ),
    Variant(
        "quiet-paths-fix-unfixable-loop-sum", CLI,
        "    num_unfixable = sum(p.num_unfixable_lint_errors for p in result.paths)\n",
        "    num_unfixable = 0\n    for linted_dir in result.paths:\n        num_unfixable += linted_dir.num_unfixable_lint_errors\n",
        "QUIET", None, "generator sum spelled as an accumulating loop",
    ),
    Variant(
        "quiet-handle-unparsable-if-else", CLI,
        "    return EXIT_FAIL if num_filtered_errors else EXIT_SUCCESS\n\n\ndef _stdin_fix(",
        "    if num_filtered_errors:\n        return EXIT_FAIL\n    return EXIT_SUCCESS\n\n\ndef _stdin_fix(",
        "QUIET", None, "conditional expression spelled as if/return",
    ),
    Variant("violations-extended-after-flagging", "src/sqlfluff/core/linter/linter.py",
            "        # We process the ignore config here if appropriate\n        for violation in violations:\n            violation.ignore_if_in(parsed.config.get(\"ignore\"))\n            violation.warning_if_in(parsed.config.get(\"warnings\"))\n",
            "        # We process the ignore config here if appropriate\n        for violation in violations:\n            violation.ignore_if_in(parsed.config.get(\"ignore\"))\n            violation.warning_if_in(parsed.config.get(\"warnings\"))\n        violations += list(parsed.templating_violations)[:0]\n",
            "R22f", "lint_parsed"),
    Variant("warnings-config-not-applied", "src/sqlfluff/core/linter/linter.py",
            "            violation.warning_if_in(parsed.config.get(\"warnings\"))\n", "", "R22f", "lint_parsed"),
    Variant("flagging-only-when-fixing", "src/sqlfluff/core/linter/linter.py",
            "        for violation in violations:\n            violation.ignore_if_in(parsed.config.get(\"ignore\"))\n            violation.warning_if_in(parsed.config.get(\"warnings\"))\n",
            "        for violation in violations:\n            violation.ignore_if_in(parsed.config.get(\"ignore\"))\n            if not fix:\n                violation.warning_if_in(parsed.config.get(\"warnings\"))\n",
            "R22f", "lint_parsed"),
    Variant("discard-counts-warnings-as-unfixable", LDIR,
            '                            if not v_dict.get("warning"):\n                                self.num_unfixable_lint_errors += 1\n',
            '                            self.num_unfixable_lint_errors += 1\n', "R22b", None, "the original defect F11"),
    Variant("dir-violations-unfiltered", LDIR,
            "        self._num_violations += file.num_violations()\n",
            "        self._num_violations += file.num_violations(filter_ignore=False)\n", "R22b", None),
    Variant("dir-violations-count-warnings", LDIR,
            "        self._num_violations += file.num_violations()\n",
            "        self._num_violations += file.num_violations(filter_warning=False)\n", "R22b", None),
    Variant("dir-tmp-prs-unfiltered", LDIR,
            "        self.num_tmp_prs_errors += file.num_violations(\n            types=TMP_PRS_ERROR_TYPES,\n        )",
            "        self.num_tmp_prs_errors += file.num_violations(\n            types=TMP_PRS_ERROR_TYPES,\n            filter_ignore=False,\n        )", "R22a", None),
    Variant("dir-unfixable-count-warnings", LDIR,
            "            types=SQLLintError,\n            fixable=False,\n        )",
            "            types=SQLLintError,\n            fixable=False,\n            filter_warning=False,\n        )", "R22b", None),
    Variant("stdin-fix-unfiltered-templater-error", CLI,
            "    templater_error = result.num_violations(types=SQLTemplaterError) > 0",
            "    templater_error = result.paths[0].files[0].num_violations(types=SQLTemplaterError, filter_ignore=False) > 0", "R22a", "_stdin_fix"),
    Variant("handle-unparsable-returns-on-total", CLI,
            "    return EXIT_FAIL if num_filtered_errors else EXIT_SUCCESS",
            "    return EXIT_FAIL if total_errors else EXIT_SUCCESS", "R22a", "_handle_unparsable"),
    Variant("paths-fix-exit-on-unfiltered-counter", CLI,
            "    num_unfixable = sum(p.num_unfixable_lint_errors for p in result.paths)",
            "    num_unfixable = sum(p.num_unfiltered_tmp_prs_errors for p in result.paths)", "R22a", "_paths_fix"),
    Variant("stats-exit-code-on-unclean-files", LRES,
            'all_stats["exit code"] = fail_code if counts["violations"] > 0 else success_code',
            'all_stats["exit code"] = fail_code if counts["unclean"] > 0 else success_code', "R22d", "stats"),
    Variant("stats-exit-code-swapped", LRES,
            'all_stats["exit code"] = fail_code if counts["violations"] > 0 else success_code',
            'all_stats["exit code"] = success_code if counts["violations"] > 0 else fail_code', "R22d", "stats"),
    Variant("exit-error-constant-changed", CLI_INIT, "EXIT_ERROR = 2", "EXIT_ERROR = 1", "R22e", None),
    Variant("handler-exits-fail", CLI,
            "                err=True,\n            )\n            sys.exit(EXIT_ERROR)\n\n\ndef common_options",
            "                err=True,\n            )\n            sys.exit(EXIT_FAIL)\n\n\ndef common_options", "R22e", "__exit__"),
    Variant("lint-paths-outside-handler", CLI,
            "    with PathAndUserErrorHandler(formatter):\n        result: LintingResult = linter.lint_paths(",
            "    if True:\n        result: LintingResult = linter.lint_paths(", "R22e", "_paths_fix"),
]
